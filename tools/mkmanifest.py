#!/venv/bin/python
"""Regenerate /verif/MANIFEST.json from the table below (run by hand when a
property is added; MANIFEST.json itself is committed)."""
import json
import os

V = os.path.dirname(os.path.dirname(os.path.abspath(__file__)))
props = [json.loads(l) for l in open(os.path.join(V, 'properties.jsonl'))]

COMMON_NOTE = ("Trusted: Coq 8.16.1 kernel + vm_compute (no native_compute, no axioms: "
               "Print Assumptions is 'Closed under the global context' for every theorem); "
               "fail-closed translators in /verif/translate; the correspondence harness "
               "(vlib) and CPython running /repo/src with decimalfp's pure-Python "
               "implementation; decimalfp / fractions / dict / str / datetime are modelled "
               "by specification and validated by correspondence only. ")

CLAIMED = {
 'C01': ("Axiom-free Coq theorems over the executable quantity model: conversion between "
         "units of a linear type multiplies by exactly scale(u)/scale(v), preserves the "
         "reference value, round-trips, commutes with intermediate units, is exact on the "
         "shared grid of quantized types, and raises IncompatibleUnitsError across types — "
         "for all rational amounts and all unit views. The model is tied to the code by an "
         "in-Coq differential check over all 1310 ordered predefined unit pairs and random "
         "user-declared chains, with scales taken from an independent SI table.",
         "DESIGN.md 5 (C01)",
         "That a unit's scale is the product of the factors along its chain of definitions is proved "
         "on the directory model (C15_scale_denotes_definition) and, for the catalogue, in C20; here "
         "scales are inputs of the model (independent reference), not computed by it."),
 'C02': ("Axiom-free Coq theorems over the directory model, for EVERY directory reachable by a finite "
         "history of (guarded) declarations and every cache content: resolution of a unit product / "
         "quotient / power returns (factor, unit) that denotes exactly the product / quotient / power "
         "of the operands' values (rational factor x exponent of every base unit), or (factor, None) "
         "exactly when the dimensions cancel; quantity-level operators apply the constructor once to "
         "the exact amount (one rounding); failure is UndefinedResultError exactly when no registered "
         "definition matches, and nothing is cached then; scalars keep type and unit. In-Coq "
         "differential check: the model replays the declaration script of the predefined catalogue "
         "(extracted from /repo on every run) and of random user catalogues and is compared with "
         "the library on unit pairs x {*,/} x operand kinds, powers, numbers; independent oracle "
         "computes value, dimension and type from its own bookkeeping and the SI table. The operator "
         "layer (Unit / Quantity __mul__, __truediv__, __rtruediv__, _pow, __pow__, per kind of second "
         "operand, cache included) is re-translated from the source on every run (Gen/OpsImpl.v) and "
         "proved equal to the model's operators (C02_model_is_translated_code).",
         "DESIGN.md 3.7, 5 (C02), 10",
         "Normalised definitions are represented by their denotation (that Term.normalized computes it is C07). "
         "Also proved for every reachable directory: the result TYPE has exactly the combined dimension "
         "(invariant 'the definition of every unit denotes its type's dimension'), and UndefinedResultError "
         "PRECISELY when no declared type has the combined dimension (no type => resolution fails; a type whose "
         "reference unit has that definition, or a unit defined by the term => resolution succeeds)."),
 'C03': ("Axiom-free Coq theorems: mixed types -> IncompatibleUnitsError / == False, numbers -> "
         "TypeError, sum has the left unit and exactly the sum of reference values (also on the "
         "shared grid of quantized types), commutativity, associativity, inverse, distributivity, "
         "sum() = left fold; model tied to the code by in-Coq differential check over all ordered "
         "pairs of the 14 predefined types x 8 operators, all number kinds, unit pairs, user types.",
         "DESIGN.md 5 (C03)", "Python's operator dispatch is modelled (op_addsub/op_cmp/op_eq)."),
 'C04': ("Axiom-free Coq theorems: each comparison operator on quantities of a linear type equals "
         "the operator on exact reference values (positive scales), equality likewise; reflexive, "
         "symmetric, transitive, total, trichotomy; units compare by scale. In-Coq differential "
         "check on equal-across-units amounts, 1e-30 near ties, Decimal/Fraction representations, "
         "sorted().",
         "DESIGN.md 5 (C04)", "Representation independence is a typing fact of the model (amounts are Q); "
         "its tie to the code is the correspondence, which generates both representations."),
 'C05': ("Axiom-free Coq theorems: the constructor puts every amount on the unit's grid, selects the "
         "multiple prescribed by the default mode (declarative definition of the 8 modes), error < 1 "
         "quantum, <= 1/2 under half modes, never on the wrong side under directed modes; every "
         "producing operation of the quantity layer equals the constructor applied to the exact "
         "result on the stored operands (one rounding); by induction over producing operations "
         "every produced quantity is on the grid. Products / powers / reflected division are "
         "covered by C02 (build = one constructor call), exchange rates by C10. In-Coq differential "
         "check on all predefined quantized units x 8 modes x tie offsets, currencies, user quanta, "
         "all operations; oracle recomputes 'exact result rounded once' with its own rounding. "
         "The constructor's quantisation (the statements that close Quantity.__new__) is "
         "re-translated from the source on every run and proved to be the model's constructor.",
         "DESIGN.md 5 (C05)", "decimalfp's Decimal(x, 0) is modelled by rnd_ref (validated by C13 on every run)."),
 'C08': None, 'C11': None, 'C12': None, 'C14': None,
 'C13': ("Axiom-free Coq theorems: the repo's own rounding helper (_floordiv_rounded, "
         "_quantize_fraction) is re-translated from the source on every run and proved to meet a "
         "declarative definition of all 8 decimal rounding modes for all integers; that definition "
         "is proved to determine the result uniquely and to depend on the value only; quantize / "
         "round are proved against the quantity model (unit kept, multiple of the converted quantum "
         "selected by explicit or default mode, representation independent, TypeError cases). "
         "Quantity.quantize and __round__ themselves are re-translated from the source on every run "
         "and proved equal to the model functions on all inputs. "
         "In-Coq differential check on tie grids x 8 modes x both representations.",
         "DESIGN.md 5 (C13), 3.1", "decimalfp's own rounding (Decimal path) is modelled by rnd_ref and "
         "validated, not proved."),
 'C15': ("Axiom-free Coq theorems, by induction over ALL finite declaration histories (types, "
         "scaled / term-defined / derived units, currencies; accepted and rejected steps): symbols "
         "unique and found as the identical object, units never change, each unit listed by exactly "
         "the type it was created for, one type per dimension, a unit's scale is exactly what its "
         "definition denotes (definition = scale x reference unit in the group of values), the "
         "reference unit of a derived type is the product of the base types' reference units, the "
         "factory dispatches to the unit's type, and the rejections (taken dimension, duplicate / "
         "empty symbol, definition of another type or dimension). In-Coq differential check on "
         "random histories with ~30 % invalid steps followed by all directory queries; oracle = "
         "the harness' own bookkeeping.",
         "DESIGN.md 5 (C15), 10", "Guards (stated in the theorems): numeric factors non-zero; a definition in a type with "
         "reference unit refers to units that have a scale; an explicit reference symbol for a derived type "
         "presupposes reference units of the types of its definition."),
 'C16': ("Axiom-free Coq theorems: the model executes a type declaration in the order of the code's "
         "side effects (reference unit registered before the type); in every coherent directory "
         "(in particular every reachable one) a raised exception implies the directory is literally "
         "unchanged, for all declaration kinds. In-Coq differential check plus twin-process oracle: "
         "every history with faults is run as given and with the rejected steps left out, "
         "observations (Unit(sym), units(), factory parse) and later re-declarations must agree. "
         "Converter updates: update histories with rejected updates through C11's harness, model "
         "(C11_failed_update_unchanged) and oracle. Additionally a statement about the CODE's control "
         "flow for all inputs: the bodies of _make_unit, _make_ref_unit, new_unit, derive_unit_from, "
         "MoneyMeta.new_unit, register_currency and MoneyConverter.update are re-translated on every run "
         "into an effect language (Gen/EffectsImpl.v) and proved to raise only before their first write "
         "(C16_declaring_methods_raise_before_they_write, via the once-proved EffectsProofs.atomic_sound).",
         "DESIGN.md 3.7, 5 (C16), 10", "The order of side effects inside QuantityMeta.__new__/__init__ (class creation) is "
         "modelled by hand and not covered by the effect analysis; the tie there is the correspondence (directory "
         "observations after every history). What counts as a write / may raise is decided by translate/effects.py."),
 'C17': ("Axiom-free Coq theorems: for every reachable directory and EVERY reachable cache content a "
         "successful unit product / quotient denotes the product / quotient of the operands' values "
         "(which mentions neither cache nor declaration order); cached and recomputed results have "
         "equal values; operations preserve the invariants; undefined results are not cached and "
         "become defined once a unit for the dimension is registered. In-Coq differential check "
         "with histories, plus process-pair oracle: same declarations in another order and no "
         "history, values (amount in base units, dimension, type) must be equal. The cached unit "
         "operations (Unit.__mul__ / __truediv__ with _UNIT_OP_CACHE) are re-translated from the "
         "source on every run (Gen/OpsImpl.v) and proved equal to the model's (C17_model_is_translated_code).",
         "DESIGN.md 3.7, 5 (C17), 10", "That the implementation has no further hidden memo OUTSIDE the "
         "translated methods is what the process pairs test; the theorem is about the model's cache, which "
         "is the translated code's."),
}
AGENT_CLAIMS = os.path.join(V, 'tools', 'claims')
for pid in list(CLAIMED):
    if CLAIMED[pid] is None:
        fn = os.path.join(AGENT_CLAIMS, pid + '.json')
        if os.path.exists(fn):
            CLAIMED[pid] = tuple(json.load(open(fn)))
        else:
            del CLAIMED[pid]
for fn in sorted(os.listdir(AGENT_CLAIMS)) if os.path.isdir(AGENT_CLAIMS) else []:
    pid = fn[:-5]
    if pid not in CLAIMED:
        CLAIMED[pid] = tuple(json.load(open(os.path.join(AGENT_CLAIMS, fn))))

TECH = "Coq proof over Gallina model (generated + hand-written), in-Coq differential correspondence"

checks = []
for p in props:
    pid = p['id']
    if pid not in CLAIMED:
        continue
    text, ref, note = CLAIMED[pid]
    checks.append({
        "property_id": pid,
        "quick_cmd": f"./check {pid} --tier quick",
        "thorough_cmd": f"./check {pid} --tier thorough",
        "evidence_file": f"/verif/evidence/{pid}.json",
        "replay_cmd_template": f"./check {pid} --replay {{path}}",
        "engine": "coq-model+correspondence",
        "level_claimed": {"category": "proof", "text": text, "design_ref": ref},
        "level_note": COMMON_NOTE + note,
        "technique": TECH})
na = [{"property_id": p["id"],
       "reason": "check not built yet (work in progress, DESIGN.md 8 build order); will be "
                 "claimed once its model, theorems and correspondence exist"}
      for p in props if p["id"] not in CLAIMED]
m = {"version": 1,
     "setup_cmd": "cd /verif/coq && coq_makefile -f _CoqProject -o Makefile && timeout 3000 make -j16",
     "hooks": {"guard": "QUANTITY_VERIF",
               "enable": "none needed: the harness drives the public API of /repo/src from fresh processes; no source hooks exist",
               "baseline_off_cmd": "cd /repo && /venv/bin/python -m pytest -ra -q -p no:cacheprovider --timeout=900 --continue-on-collection-errors",
               "source_commits": [], "add_only": True},
     "engines": [{"name": "coq-model+correspondence", "path": "/verif/check",
                  "serves_properties": sorted(CLAIMED),
                  "kind_free_text": "Coq 8.16 proofs about an executable Gallina model (parts regenerated from /repo on every run) + differential correspondence evaluated inside Coq (vm_compute) + independent Python oracle for the failing-input search"}],
     "checks": checks,
     "not_applicable": na,
     "notes": "See DESIGN.md. The implementation side runs with DECIMALFP_FORCE_PYTHON_IMPL=1: decimalfp 0.13's C extension corrupts memory on some divisions (a dependency defect outside /repo, DESIGN.md 6)."}
json.dump(m, open(os.path.join(V, 'MANIFEST.json'), 'w'), indent=1)
print("claimed:", sorted(CLAIMED), "not applicable:", len(na))
