#!/venv/bin/python
"""Regenerate /verif/MANIFEST.json from the table below (run by hand when a
property is added; MANIFEST.json itself is committed)."""
import json
import os

V = os.path.dirname(os.path.dirname(os.path.abspath(__file__)))
props = [json.loads(l) for l in open(os.path.join(V, 'properties.jsonl'))]

COMMON_NOTE = ("Trusted: Coq 8.16.1 kernel + vm_compute (no native_compute, no axioms: "
               "Print Assumptions is 'Closed under the global context' for every theorem); "
               "fail-closed translators in /verif/translate; the correspondence harness "
               "(vlib) and CPython running /repo/src with decimalfp's pure-Python "
               "implementation; decimalfp / fractions / dict / str / datetime are modelled "
               "by specification and validated by correspondence only. ")

CLAIMED = {
 'C01': ("Axiom-free Coq theorems over the executable quantity model: conversion between "
         "units of a linear type multiplies by exactly scale(u)/scale(v), preserves the "
         "reference value, round-trips, commutes with intermediate units, is exact on the "
         "shared grid of quantized types, and raises IncompatibleUnitsError across types — "
         "for all rational amounts and all unit views. The model is tied to the code by an "
         "in-Coq differential check over all 1310 ordered predefined unit pairs and random "
         "user-declared chains, with scales taken from an independent SI table.",
         "DESIGN.md 5 (C01)",
         "The chain-product characterisation of scales is proved for the registry model in C15/C20; "
         "here scales are inputs of the model (independent reference), not computed by it."),
 'C03': ("Axiom-free Coq theorems: mixed types -> IncompatibleUnitsError / == False, numbers -> "
         "TypeError, sum has the left unit and exactly the sum of reference values (also on the "
         "shared grid of quantized types), commutativity, associativity, inverse, distributivity, "
         "sum() = left fold; model tied to the code by in-Coq differential check over all ordered "
         "pairs of the 14 predefined types x 8 operators, all number kinds, unit pairs, user types.",
         "DESIGN.md 5 (C03)", "Python's operator dispatch is modelled (op_addsub/op_cmp/op_eq)."),
 'C04': ("Axiom-free Coq theorems: each comparison operator on quantities of a linear type equals "
         "the operator on exact reference values (positive scales), equality likewise; reflexive, "
         "symmetric, transitive, total, trichotomy; units compare by scale. In-Coq differential "
         "check on equal-across-units amounts, 1e-30 near ties, Decimal/Fraction representations, "
         "sorted().",
         "DESIGN.md 5 (C04)", "Representation independence is a typing fact of the model (amounts are Q); "
         "its tie to the code is the correspondence, which generates both representations."),
 'C13': ("Axiom-free Coq theorems: the repo's own rounding helper (_floordiv_rounded, "
         "_quantize_fraction) is re-translated from the source on every run and proved to meet a "
         "declarative definition of all 8 decimal rounding modes for all integers; that definition "
         "is proved to determine the result uniquely and to depend on the value only; quantize / "
         "round are proved against the quantity model (unit kept, multiple of the converted quantum "
         "selected by explicit or default mode, representation independent, TypeError cases). "
         "In-Coq differential check on tie grids x 8 modes x both representations.",
         "DESIGN.md 5 (C13), 3.1", "decimalfp's own rounding (Decimal path) is modelled by rnd_ref and "
         "validated, not proved."),
}

TECH = "Coq proof over Gallina model (generated + hand-written), in-Coq differential correspondence"

checks = []
for p in props:
    pid = p['id']
    if pid not in CLAIMED:
        continue
    text, ref, note = CLAIMED[pid]
    checks.append({
        "property_id": pid,
        "quick_cmd": f"./check {pid} --tier quick",
        "thorough_cmd": f"./check {pid} --tier thorough",
        "evidence_file": f"/verif/evidence/{pid}.json",
        "replay_cmd_template": f"./check {pid} --replay {{path}}",
        "engine": "coq-model+correspondence",
        "level_claimed": {"category": "proof", "text": text, "design_ref": ref},
        "level_note": COMMON_NOTE + note,
        "technique": TECH})
na = [{"property_id": p["id"],
       "reason": "check not built yet (work in progress, DESIGN.md 8 build order); will be "
                 "claimed once its model, theorems and correspondence exist"}
      for p in props if p["id"] not in CLAIMED]
m = {"version": 1,
     "setup_cmd": "cd /verif/coq && coq_makefile -f _CoqProject -o Makefile && timeout 3000 make -j16",
     "hooks": {"guard": "QUANTITY_VERIF",
               "enable": "none needed: the harness drives the public API of /repo/src from fresh processes; no source hooks exist",
               "baseline_off_cmd": "cd /repo && /venv/bin/python -m pytest -ra -q -p no:cacheprovider --timeout=900 --continue-on-collection-errors",
               "source_commits": [], "add_only": True},
     "engines": [{"name": "coq-model+correspondence", "path": "/verif/check",
                  "serves_properties": sorted(CLAIMED),
                  "kind_free_text": "Coq 8.16 proofs about an executable Gallina model (parts regenerated from /repo on every run) + differential correspondence evaluated inside Coq (vm_compute) + independent Python oracle for the failing-input search"}],
     "checks": checks,
     "not_applicable": na,
     "notes": "See DESIGN.md. The implementation side runs with DECIMALFP_FORCE_PYTHON_IMPL=1: decimalfp 0.13's C extension corrupts memory on some divisions (a dependency defect outside /repo, DESIGN.md 6)."}
json.dump(m, open(os.path.join(V, 'MANIFEST.json'), 'w'), indent=1)
print("claimed:", sorted(CLAIMED), "not applicable:", len(na))
