#!/venv/bin/python
"""Write seeded/<id>/meta.json from trial.json + notes.md and print the table
for DESIGN.md section 11."""
import json, os, re, sys
V = os.path.dirname(os.path.dirname(os.path.abspath(__file__)))
rows = []
for sid in sorted(os.listdir(os.path.join(V, 'seeded'))):
    d = os.path.join(V, 'seeded', sid)
    tj = os.path.join(d, 'trial.json')
    if not os.path.exists(tj):
        continue
    t = json.load(open(tj))
    notes = open(os.path.join(d, 'notes.md'), encoding='utf-8').read() if os.path.exists(os.path.join(d, 'notes.md')) else ''
    title = next((l.strip('# ').strip() for l in notes.splitlines() if l.strip()), '')
    caught = [p for p, c in t.get('checks', {}).items() if c['violations'] > 0]
    missed = [p for p, c in t.get('checks', {}).items() if c['violations'] == 0]
    passed = t.get('applies') and 'passed' in t.get('tests', '') and 'failed' not in t.get('tests', '')
    # first round: demo.py exits 1 with the change and 0 without; second round (d, e): the
    # demo prints what it observes, its recorded output without / with the change differs
    bf, af = os.path.join(d, 'before.txt'), os.path.join(d, 'after.txt')
    if os.path.exists(bf) and os.path.exists(af):
        differs = open(bf, encoding='utf-8', errors='replace').read() != \
            open(af, encoding='utf-8', errors='replace').read()
    else:
        # any recorded run in which the demonstration failed with the change and passed without
        runs = [t] + t.get('earlier_runs', [])
        differs = any(r.get('demo_rc_changed') == '1' and r.get('demo_rc_unchanged') == '0'
                      for r in runs)
    valid = passed and differs
    meta = {'id': sid, 'breaks_property': sid[:3], 'summary': title,
            'needs_to_manifest': 'see notes.md',
            'confirmed': {'patch_applies': t.get('applies'), 'test_suite_with_change': t.get('tests'),
                          'demo_exit_with_change': t.get('demo_rc_changed'),
                          'demo_exit_without_change': t.get('demo_rc_unchanged'),
                          'demo_output_differs': bool(differs)},
            'what_i_ran': 'tools/seed_trials.py: git -C /repo apply patch.diff; pytest; demo.py; '
                          './check <ids> --tier quick; git -C /repo checkout -- .',
            'valid_seed': bool(valid),
            'checks_run': {p: {'violations': c['violations'], 'no_failing_input': c['no_failing_input'],
                               'first_report': (c['what'] or [''])[0][:240]} for p, c in t.get('checks', {}).items()},
            'caught_by': caught, 'not_caught_by': missed}
    json.dump(meta, open(os.path.join(d, 'meta.json'), 'w'), indent=1, ensure_ascii=False)
    rows.append((sid, valid, caught, missed, title))
lines = ["| Change | Valid seed | Caught by (quick tier) | Ran clean | What it is |", "|---|---|---|---|---|"]
for sid, valid, caught, missed, title in rows:
    lines.append(f"| {sid} | {'yes' if valid else 'NO'} | {', '.join(caught) or '—'} | {', '.join(missed) or '—'} | {title[:110].replace('|', '/')} |")
table = "\n".join(lines)
print(table)
dp = os.path.join(V, 'DESIGN.md')
d = open(dp, encoding='utf-8').read()
a, b = '<!-- SEEDED_TABLE_BEGIN -->', '<!-- SEEDED_TABLE_END -->'
if a in d and b in d:
    d = d[:d.index(a) + len(a)] + "\n" + table + "\n" + d[d.index(b):]
    open(dp, 'w', encoding='utf-8').write(d)
