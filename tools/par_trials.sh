#!/bin/sh
# par_trials.sh <lanes> <seed ids...> : try seeded changes in parallel lanes, each with its own
# copy of /verif (built) and its own worktree of /repo; results are copied back to
# /verif/seeded/<id>/.  Nothing is ever applied to /repo itself.
set -e
N=$1; shift
rm -rf /tmp/lanes; mkdir -p /tmp/lanes
HEAD=$(git -C /repo rev-parse HEAD)
i=0
while [ $i -lt $N ]; do
  rsync -a --exclude .git --exclude evidence/replays /verif/ /tmp/lanes/verif_$i/
  git -C /repo worktree add --detach /tmp/lanes/repo_$i $HEAD >/dev/null 2>&1
  i=$((i+1))
done
# round-robin assignment
i=0
for s in "$@"; do
  eval "L$i=\"\$L$i $s\""
  i=$(( (i+1) % N ))
done
i=0
while [ $i -lt $N ]; do
  eval "seeds=\$L$i"
  if [ -n "$seeds" ]; then
    ( TRIAL_REPO=/tmp/lanes/repo_$i TRIAL_VERIF=/tmp/lanes/verif_$i TRIAL_EVID=/tmp/lanes/evid_$i \
      /venv/bin/python /tmp/lanes/verif_$i/tools/seed_trials.py $seeds > /tmp/lanes/log_$i 2>&1 ) &
  fi
  i=$((i+1))
done
wait
i=0
while [ $i -lt $N ]; do
  for d in /tmp/lanes/verif_$i/seeded/*; do
    b=$(basename $d)
    if [ -f $d/trial.json ] && [ $d/trial.json -nt /verif/seeded/$b/trial.json ] 2>/dev/null || [ ! -d /verif/seeded/$b ]; then
      mkdir -p /verif/seeded/$b; cp $d/* /verif/seeded/$b/
    fi
  done
  git -C /repo worktree remove --force /tmp/lanes/repo_$i
  i=$((i+1))
done
cat /tmp/lanes/log_* | grep -v WARNING
