#!/venv/bin/python
"""How do the source-to-Coq translators (translate/qlayer.py, oplayer.py, mconv.py,
cstack.py, effects.py) react to each seeded change, before any input is tried?

For every seeded/<id>/patch.diff: apply it in a scratch worktree, run the four
translators, compare with the output for the unchanged tree:
  same     - the change does not touch a translated method (or is invisible to it)
  refused  - the translator fails closed (Unsupported)
  differs  - another model is generated; the equality proof is then compiled against
             it in a scratch copy of coq/ and must FAIL (recorded as proof_breaks)
Writes seeded/<id>/translators.json and prints a summary.

usage: translator_reaction.py <scratch worktree of /repo at HEAD> <scratch copy of /verif>
"""
import json, os, subprocess, sys

V = os.path.dirname(os.path.dirname(os.path.abspath(__file__)))
TREE, SCRATCH = sys.argv[1], sys.argv[2]
sys.path.insert(0, V)
from translate import qlayer, oplayer, mconv, cstack, effects, alloc, rates, fraction, termops      # noqa: E402

TR = {
    'QuantityImpl': (qlayer, 'src/quantity/__init__.py', 'Proofs/GenQuantityEq.vo'),
    'AllocImpl': (alloc, 'src/quantity/__init__.py', 'Proofs/GenAllocEq.vo'),
    'RatesImpl': (rates, 'src/quantity/money/__init__.py', 'Proofs/GenRatesEq.vo'),
    'FractionImpl': (fraction, 'src/quantity/money/__init__.py', 'Proofs/GenFractionEq.vo'),
    'TermOpsImpl': (termops, 'src/quantity/term.py', 'Proofs/GenTermOpsEq.vo'),
    'OpsImpl': (oplayer, 'src/quantity/__init__.py', 'Proofs/GenOpsEq.vo'),
    'MoneyConvImpl': (mconv, 'src/quantity/money/__init__.py', 'Proofs/GenMoneyConvEq.vo'),
    'ConvStackImpl': (cstack, 'src/quantity/__init__.py', 'Proofs/GenConvStackEq.vo'),
    # effect programs: the obligation is `atomic ... = true` in the property files
    'EffectsImpl': (effects, 'src/quantity/__init__.py', 'Properties/C16.vo Properties/C11.vo'),
}
ONLY = [a for a in sys.argv[3:]]          # optional: names of translators to (re)do


def sh(cmd):
    return subprocess.run(cmd, shell=True, stdout=subprocess.PIPE, stderr=subprocess.STDOUT, text=True)


def gen(name):
    mod, rel, _ = TR[name]
    try:
        return 'ok', mod.generate(os.path.join(TREE, rel))
    except mod.Unsupported as e:
        return 'refused', str(e)[:200]
    except Exception as e:      # noqa
        return 'refused', f"{type(e).__name__}: {e}"[:200]


assert sh(f'git -C {TREE} diff --quiet').returncode == 0, 'scratch tree not clean'
base = {n: gen(n) for n in TR}
assert all(t == 'ok' for t, _ in base.values()), base
summary = {'same': 0, 'refused': 0, 'differs': 0}
rows = []
SEEDS = [x for x in os.environ.get('TR_SEEDS', '').split() if x]     # optional: only these changes
for sid in sorted(os.listdir(os.path.join(V, 'seeded'))):
    if SEEDS and sid not in SEEDS:
        continue
    d = os.path.join(V, 'seeded', sid)
    pf = os.path.join(d, 'patch.diff')
    if not os.path.exists(pf):
        continue
    if sh(f'git -C {TREE} apply {pf}').returncode:
        rows.append((sid, 'patch does not apply'))
        continue
    res = {}
    tj = os.path.join(d, 'translators.json')
    if ONLY and os.path.exists(tj):
        res = json.load(open(tj))
    try:
        for n in (ONLY or TR):
            tag, out = gen(n)
            if tag == 'refused':
                res[n] = {'reaction': 'refused', 'why': out}
            elif out == base[n][1]:
                res[n] = {'reaction': 'same'}
            else:
                # compile the equality proof against the changed model
                gp = os.path.join(SCRATCH, 'coq', 'Gen', n + '.v')
                keep = open(gp).read()
                open(gp, 'w').write(out)
                r = sh(f'cd {SCRATCH}/coq && timeout 600 make {TR[n][2]} 2>&1 | tail -5')
                open(gp, 'w').write(keep)
                res[n] = {'reaction': 'differs', 'proof_breaks': 'Error' in r.stdout}
    finally:
        sh(f'git -C {TREE} checkout -- .')
    json.dump(res, open(tj, 'w'), indent=1)
    kinds = [v['reaction'] for v in res.values()]
    overall = 'refused' if 'refused' in kinds else 'differs' if 'differs' in kinds else 'same'
    summary[overall] += 1
    rows.append((sid, overall, {n: v['reaction'] + ('' if v.get('proof_breaks', True) else ' (PROOF STILL PASSES)')
                                for n, v in res.items() if v['reaction'] != 'same'}))
# restore the scratch build
sh(f'cd {SCRATCH}/coq && timeout 1800 make -j8 ' + ' '.join(t[2] for t in TR.values()))
for r in rows:
    print(*r)
print(summary)
