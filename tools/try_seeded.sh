#!/bin/sh
# tools/try_seeded.sh <dir with patch.diff + demo.py> <property id> [more property ids...]
# Applies the change to /repo, confirms the test-suite still passes and the
# demonstration fails, runs the named checks (quick tier), and undoes the change.
set -u
D="$1"; shift
cd /repo || exit 2
git diff --quiet || { echo "repo not clean"; exit 2; }
git apply "$D/patch.diff" || { echo "patch does not apply"; exit 2; }
trap 'git -C /repo checkout -- . ; echo "[repo restored]"' EXIT
echo "== tests"; /venv/bin/python -m pytest -q -p no:cacheprovider 2>&1 | tail -1
echo "== demo (expect FAIL)"; PYTHONPATH=/repo/src /venv/bin/python "$D/demo.py" 2>&1 | tail -3; echo "demo exit $?"
cd /verif
for p in "$@"; do
  echo "== check $p"; ./check "$p" --tier quick 2>&1 | grep -v "^WARNING" | tail -4 | cut -c1-220
done
