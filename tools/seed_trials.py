#!/venv/bin/python
"""Import finished sub-agent changes from /tmp/mutout_Cxx into /verif/seeded/
and try the checks against each one (apply to /repo, run, undo)."""
import json, os, shutil, subprocess, sys, re

REL = {'C01': ['C01', 'C15', 'C07'], 'C02': ['C02', 'C17', 'C14'], 'C03': ['C03', 'C05'],
       'C04': ['C04', 'C19', 'C15'], 'C05': ['C05', 'C03', 'C08'], 'C06': ['C06'],
       'C07': ['C07', 'C19', 'C02'], 'C08': ['C08', 'C05'], 'C09': ['C09', 'C11'],
       'C10': ['C10', 'C09'], 'C11': ['C11', 'C16'], 'C12': ['C12', 'C14'],
       'C13': ['C13', 'C05'], 'C14': ['C14', 'C12'], 'C15': ['C15', 'C16', 'C02'],
       'C16': ['C16', 'C15', 'C17'], 'C17': ['C17', 'C02', 'C16'], 'C18': ['C18', 'C05'], 'C19': ['C19'],
       'C20': ['C20', 'C01']}


REPO = os.environ.get('TRIAL_REPO', '/repo')       # tree the change is applied to (and undone in)
VERIF = os.environ.get('TRIAL_VERIF', '/verif')
EVID = os.environ.get('TRIAL_EVID', '/tmp/seed_trials_evidence')


def sh(cmd, **kw):
    return subprocess.run(cmd, shell=True, stdout=subprocess.PIPE, stderr=subprocess.STDOUT,
                          text=True, **kw)


def trial(sid, d, pid, checks=None):
    log = []
    assert sh(f'git -C {REPO} diff --quiet').returncode == 0, 'repo not clean'
    r = sh(f'git -C {REPO} apply {d}/patch.diff')
    if r.returncode:
        return {'applies': False, 'log': r.stdout}
    res = {'applies': True, 'checks': {}}
    try:
        t = sh(f'cd {REPO} && PYTHONPATH={REPO}/src /venv/bin/python -m pytest -q -p no:cacheprovider 2>&1 | tail -1')
        res['tests'] = t.stdout.strip()
        dm = sh(f'DECIMALFP_FORCE_PYTHON_IMPL=1 PYTHONPATH={REPO}/src /venv/bin/python {d}/demo.py 2>&1 | tail -4')
        res['demo_rc_changed'] = sh(f'DECIMALFP_FORCE_PYTHON_IMPL=1 PYTHONPATH={REPO}/src /venv/bin/python {d}/demo.py >/dev/null 2>&1; echo $?').stdout.strip()
        res['demo_tail'] = dm.stdout.strip()[-400:]
        for p in (checks or REL[pid]):
            c = sh(f'cd {VERIF} && VERIF_EVIDENCE_DIR={EVID} QUANTITY_REPO={REPO} ./check {p} --tier quick 2>&1')
            lines = [l for l in c.stdout.strip().splitlines() if not l.startswith('WARNING')]
            viol = [l for l in lines if l.startswith('VIOLATION')]
            summ = lines[-1] if lines else ''
            what = []
            for v in viol[:3]:
                m = re.search(r'replay=(\S+)', v)
                if m and os.path.exists(m.group(1)):
                    try:
                        what.append(json.load(open(m.group(1)))['what'][:300])
                    except Exception as e:  # noqa
                        what.append(str(e))
            res['checks'][p] = {'exit': c.returncode, 'violations': len(viol),
                                'no_failing_input': sum('no-failing-input-found' in v for v in viol),
                                'summary': summ[-200:], 'what': what}
    finally:
        sh(f'git -C {REPO} checkout -- .')
    # demo on the unchanged tree
    res['demo_rc_unchanged'] = sh(f'DECIMALFP_FORCE_PYTHON_IMPL=1 PYTHONPATH={REPO}/src /venv/bin/python {d}/demo.py >/dev/null 2>&1; echo $?').stdout.strip()
    return res


def main():
    only, override = [], {}
    for a in sys.argv[1:]:          # C01-b  or  C01-b=C07,C15 (checks to run)
        sid, _, chk = a.partition('=')
        only.append(sid)
        if chk:
            override[sid] = chk.split(',')
    for n in range(1, 21):
        pid = f'C{n:02d}'
        src = f'/tmp/mutout_{pid}'
        for var, suffix in (('a', ''), ('b', '_B'), ('c', '_C'), ('d', None), ('e', None),
                            ('f', None), ('g', None), ('h', None), ('i', None), ('j', None), ('k', None)):
            sid = f'{pid}-{var}'
            if suffix is None:          # later rounds: one directory per change
                src, suffix = f"/tmp/mutout{'2' if var in 'de' else '3' if var in 'fg' else '4' if var in 'hi' else '5'}_{sid}", ''
            else:
                src = f'/tmp/mutout_{pid}'
            pf = f'{src}/patch{suffix}.diff'
            df = f'{src}/demo{suffix}.py'
            if only and sid not in only:
                continue
            d = f'{VERIF}/seeded/{sid}'
            have = os.path.exists(f'{d}/patch.diff') and os.path.exists(f'{d}/demo.py')
            if not (os.path.exists(pf) and os.path.exists(df)) and not have:
                continue
            if os.path.exists(f'{d}/trial.json') and not only:
                continue
            os.makedirs(d, exist_ok=True)
            if os.path.exists(pf) and os.path.exists(df):
                shutil.copy(pf, f'{d}/patch.diff')
                shutil.copy(df, f'{d}/demo.py')
            nf = f'{src}/notes{suffix}.md'
            if os.path.exists(nf):
                shutil.copy(nf, f'{d}/notes.md')
            for extra in ('before.txt', 'after.txt'):
                if os.path.exists(f'{src}/{extra}'):
                    shutil.copy(f'{src}/{extra}', f'{d}/{extra}')
            print('==', sid, flush=True)
            res = trial(sid, d, pid, override.get(sid))
            prev = f'{d}/trial.json'
            if os.path.exists(prev):
                # keep earlier runs: the history of what caught it when
                old = json.load(open(prev))
                res['earlier_runs'] = old.get('earlier_runs', []) + [
                    {k: v for k, v in old.items() if k != 'earlier_runs'}]
            json.dump(res, open(f'{d}/trial.json', 'w'), indent=1)
            print(json.dumps({k: v for k, v in res.items() if k != 'checks'})[:300])
            for p, c in res.get('checks', {}).items():
                print('  ', p, 'exit', c['exit'], 'viol', c['violations'], c['what'][:1])


main()
