From Coq Require Import ZArith List Bool Lia ZifyBool QArith Lqa.
Ltac Zify.zify_post_hook ::= Z.to_euclidean_division_equations.
Open Scope Z_scope.
Inductive mode := M05UP | MCEIL | MDOWN | MFLOOR | MHDOWN | MHEVEN | MHUP | MUP.
Definition mode_eqb (a b : mode) : bool :=
  match a, b with
  | M05UP, M05UP | MCEIL, MCEIL | MDOWN, MDOWN | MFLOOR, MFLOOR
  | MHDOWN, MHDOWN | MHEVEN, MHEVEN | MHUP, MHUP | MUP, MUP => true
  | _, _ => false end.
(* GENERATED from /repo/src/quantity/__init__.py:_floordiv_rounded *)
Definition floordiv_rounded (x y : Z) (m : mode) : option Z :=
let quot := (x / y) in let rem := (x mod y) in
if (rem =? 0)
then (Some quot)
else (if (mode_eqb m MHUP)
then (let ar := (Z.abs (2 * rem)) in let ay := (Z.abs y) in 
if ((ar >? ay) || ((ar =? ay) && (quot >=? 0)))
then (Some (quot + 1))
else (Some quot))
else (if (mode_eqb m MHEVEN)
then (let ar := (Z.abs (2 * rem)) in let ay := (Z.abs y) in 
if ((ar >? ay) || ((ar =? ay) && (negb ((quot mod 2) =? 0))))
then (Some (quot + 1))
else (Some quot))
else (if (mode_eqb m MHDOWN)
then (let ar := (Z.abs (2 * rem)) in let ay := (Z.abs y) in 
if ((ar >? ay) || ((ar =? ay) && (quot <? 0)))
then (Some (quot + 1))
else (Some quot))
else (if (mode_eqb m MDOWN)
then (if (quot <? 0)
then (Some (quot + 1))
else (Some quot))
else (if (mode_eqb m MUP)
then (if (quot >=? 0)
then (Some (quot + 1))
else (Some quot))
else (if (mode_eqb m MCEIL)
then (Some (quot + 1))
else (if (mode_eqb m MFLOOR)
then (Some quot)
else (if (mode_eqb m M05UP)
then (if (((quot >=? 0) && ((quot mod 5) =? 0)) || ((quot <? 0) && (negb (((quot + 1) mod 5) =? 0))))
then (Some (quot + 1))
else (Some quot))
else (None))))))))).

(* declarative spec over integers: n rounds x/y, y>0 *)
Definition RoundsTo (m:mode) (x y n:Z) : Prop :=
  (* adjacent *) (n*y - y < x < n*y + y) /\
  match m with
  | MFLOOR => n*y <= x
  | MCEIL => x <= n*y
  | MDOWN => Z.abs (n*y) <= Z.abs x
  | MUP => Z.abs x <= Z.abs (n*y)
  | MHUP => 2*Z.abs (x - n*y) <= y /\ (2*Z.abs (x-n*y) = y -> Z.abs x < Z.abs (n*y))
  | MHDOWN => 2*Z.abs (x - n*y) <= y /\ (2*Z.abs (x-n*y) = y -> Z.abs (n*y) < Z.abs x)
  | MHEVEN => 2*Z.abs (x - n*y) <= y /\ (2*Z.abs (x-n*y) = y -> n mod 2 = 0)
  | M05UP => (x = n*y) \/ (x <> n*y /\ let t := Z.quot x y in if t mod 5 =? 0 then (Z.abs x < Z.abs (n*y)) else n = t)
  end.

Lemma divmod_intro x y : 0 < y -> exists q r, x = q*y + r /\ 0 <= r < y /\ x / y = q /\ x mod y = r.
Proof. intros. exists (x/y), (x mod y). pose proof (Z.div_mod x y). pose proof (Z.mod_pos_bound x y). lia. Qed.
Theorem fr_spec : forall m x y, 0 < y -> exists n, floordiv_rounded x y m = Some n /\ RoundsTo m x y n.
Proof.
  intros m x y Hy. unfold floordiv_rounded. cbv zeta.
  destruct (divmod_intro x y Hy) as (q & r & Hx & Hr & Hq & Hm). rewrite Hq, Hm.
  assert (Hqy : q*y <= x < q*y + y) by lia.
  destruct (r =? 0) eqn:E0.
  - eexists; split; [reflexivity|]. unfold RoundsTo.
    assert (r = 0) by lia. subst r. assert (x = q*y) by lia.
    destruct m; try (split; [lia|]); try (left; lia); try lia.
  - assert (0 < r) by lia.
    assert (Hquot : Z.quot x y = if q <? 0 then q + 1 else q).
    { pose proof (Z.quot_rem' x y) as Hqr. pose proof (Z.rem_bound_pos_pos x y Hy). pose proof (Z.rem_bound_pos_neg x y Hy).
      destruct (q <? 0) eqn:Eq.
      - assert (x < 0) by nia. assert (- y < Z.rem x y <= 0) by lia. rewrite Hqr in Hx. nia.
      - assert (0 <= x) by nia. assert (0 <= Z.rem x y < y) by lia. rewrite Hqr in Hx. nia. }
    assert (Hax : Z.abs x = if q <? 0 then - x else x) by (destruct (q <? 0) eqn:?; nia).
    assert (Haq : Z.abs (q*y) = if q <? 0 then - (q*y) else q*y) by (destruct (q <? 0) eqn:?; nia).
    assert (Haq1 : Z.abs ((q+1)*y) = if q <? 0 then - ((q+1)*y) else (q+1)*y) by (destruct (q <? 0) eqn:?; nia).
    assert (Hd0 : Z.abs (x - q*y) = r) by nia.
    assert (Hd1 : Z.abs (x - (q+1)*y) = y - r) by nia.
    destruct m; cbn [mode_eqb]; cbv zeta.
    all: repeat match goal with |- context[if ?b then Some _ else Some _] => destruct b eqn:? end.
    all: eexists; split; [reflexivity|]; unfold RoundsTo; cbv zeta.
    all: rewrite ?Hquot, ?Hax, ?Haq, ?Haq1, ?Hd0, ?Hd1.
    all: destruct (q <? 0) eqn:Eq.
    all: repeat match goal with |- context[if ?b then _ else _] => destruct b eqn:? end.
    all: rewrite ?Hax, ?Haq, ?Haq1, ?Hd0, ?Hd1; rewrite ?Eq.
    all: try lia.
    all: try (right; split; [lia|]); try lia.
Qed.
Print Assumptions fr_spec.
