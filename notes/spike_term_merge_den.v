From Coq Require Import ZArith QArith Qpower List Bool Lia Lqa Setoid Morphisms.
Import ListNotations.
Open Scope Q_scope.

(* ---- the abelian group G = Q x (B -> Z), pointwise equality ---- *)
Section G.
Variable B : Type.
Definition G := (Q * (B -> Z))%type.
Definition geq (g h : G) : Prop := fst g == fst h /\ forall b, snd g b = snd h b.
Definition gone : G := (1, fun _ => 0%Z).
Definition gmul (g h : G) : G := (fst g * fst h, fun b => (snd g b + snd h b)%Z).
Definition gpow (g : G) (x : Z) : G := (Qpower (fst g) x, fun b => (snd g b * x)%Z).
Definition gnum (q : Q) : G := (q, fun _ => 0%Z).
Definition nz (g : G) : Prop := ~ fst g == 0.

Global Instance geq_equiv : Equivalence geq.
Proof. split.
 - intros g; split; [reflexivity | auto].
 - intros g h [H1 H2]; split; [symmetry; auto | intros; symmetry; auto].
 - intros g h k [H1 H2] [H3 H4]; split; [rewrite H1; auto | intros; rewrite H2; auto].
Qed.
Global Instance gmul_proper : Proper (geq ==> geq ==> geq) gmul.
Proof. intros a b [H1 H2] c d [H3 H4]; split; simpl; [rewrite H1, H3; reflexivity | intros; rewrite H2, H4; auto]. Qed.

Lemma gmul_comm g h : geq (gmul g h) (gmul h g).
Proof. split; simpl; [ring | intros; lia]. Qed.
Lemma gmul_assoc g h k : geq (gmul g (gmul h k)) (gmul (gmul g h) k).
Proof. split; simpl; [ring | intros; lia]. Qed.
Lemma gmul_one_l g : geq (gmul gone g) g.
Proof. split; simpl; [ring | intros; lia]. Qed.
Lemma gpow_add g x y : nz g -> geq (gpow g (x + y)) (gmul (gpow g x) (gpow g y)).
Proof. intros H; split; simpl; [apply Qpower_plus; exact H | intros; lia]. Qed.
Lemma gpow_mul_base c g x : geq (gpow (gmul (gnum c) g) x) (gmul (gnum (Qpower c x)) (gpow g x)).
Proof. split; simpl; [apply Qmult_power | intros; lia]. Qed.

(* ---- elements and items ---- *)
Variable E : Type.
Variable same : E -> E -> bool.
Variable factor : E -> E -> option Q.   (* factor e2 e1 = Some c : e2 = c * e1 *)
Variable dE : E -> G.
Hypothesis dE_nz : forall e, nz (dE e).
Hypothesis same_sound : forall e1 e2, same e1 e2 = true -> geq (dE e1) (dE e2).
Hypothesis factor_sound : forall e2 e1 c, factor e2 e1 = Some c -> geq (dE e2) (gmul (gnum c) (dE e1)).

Definition den_acc (acc : list (E * Z)) : G :=
  fold_right (fun '(e, x) g => gmul (gpow (dE e) x) g) gone acc.

(* merge one item into the accumulated items of its group: mirrors the inner loop *)
Fixpoint merge_into (acc : list (E * Z)) (e : E) (x : Z) : Q * list (E * Z) :=
  match acc with
  | [] => (1, [(e, x)])
  | (e1, x1) :: rest =>
      if same e1 e then (1, (e1, (x1 + x)%Z) :: rest)
      else match factor e e1 with
           | Some c => (Qpower c x, (e1, (x1 + x)%Z) :: rest)
           | None => let '(n, r) := merge_into rest e x in (n, (e1, x1) :: r)
           end
  end.

Global Instance gpow_proper : Proper (geq ==> eq ==> geq) gpow.
Proof. intros a b [H1 H2] x y ->; split; simpl; [rewrite H1; reflexivity | intros; rewrite H2; auto]. Qed.

Lemma merge_into_den acc e x :
  let '(n, r) := merge_into acc e x in
  geq (gmul (gnum n) (den_acc r)) (gmul (den_acc acc) (gpow (dE e) x)).
Proof.
  induction acc as [|[e1 x1] rest IH]; simpl.
  - split; simpl; [ring | intros; lia].
  - destruct (same e1 e) eqn:Hs.
    + destruct (same_sound _ _ Hs) as [S1 S2].
      split; simpl; [ | intros b; rewrite <- S2; lia].
      rewrite (Qpower_plus _ _ _ (dE_nz e1)). rewrite <- S1. ring.
    + destruct (factor e e1) as [c|] eqn:Hf.
      * destruct (factor_sound _ _ _ Hf) as [F1 F2]. simpl in F1, F2.
        split; simpl; [ | intros b; rewrite F2; lia].
        rewrite (Qpower_plus _ _ _ (dE_nz e1)). rewrite F1. rewrite Qmult_power. ring.
      * destruct (merge_into rest e x) as [n r]. simpl.
        destruct IH as [I1 I2]. split; simpl in *; [ | intros b; specialize (I2 b); lia].
        transitivity (Qpower (fst (dE e1)) x1 * (n * fst (den_acc r))); [ring|].
        rewrite I1. ring.
Qed.
End G.
Print Assumptions merge_into_den.
