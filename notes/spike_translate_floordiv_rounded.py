"""Spike: fail-closed translation of quantity._floordiv_rounded to Gallina."""
import ast, sys

SRC = '/repo/src/quantity/__init__.py'
MODES = {'ROUND_05UP': 'M05UP', 'ROUND_CEILING': 'MCEIL', 'ROUND_DOWN': 'MDOWN',
         'ROUND_FLOOR': 'MFLOOR', 'ROUND_HALF_DOWN': 'MHDOWN',
         'ROUND_HALF_EVEN': 'MHEVEN', 'ROUND_HALF_UP': 'MHUP', 'ROUND_UP': 'MUP'}


class Unsupported(Exception):
    pass


def fail(node, why):
    raise Unsupported(f"line {getattr(node, 'lineno', '?')}: {why}: "
                      f"{ast.dump(node)[:120]}")


def expr(e, env):
    """Integer-valued expression -> Gallina (Z)."""
    if isinstance(e, ast.Constant) and isinstance(e.value, int) \
            and not isinstance(e.value, bool):
        return f"{e.value}" if e.value >= 0 else f"({e.value})"
    if isinstance(e, ast.Name):
        if e.id in env:
            return env[e.id]
        fail(e, "unknown name")
    if isinstance(e, ast.BinOp):
        l, r = expr(e.left, env), expr(e.right, env)
        ops = {ast.Add: '+', ast.Sub: '-', ast.Mult: '*'}
        if type(e.op) in ops:
            return f"({l} {ops[type(e.op)]} {r})"
        if isinstance(e.op, ast.Mod):
            return f"({l} mod {r})"
        if isinstance(e.op, ast.FloorDiv):
            return f"({l} / {r})"
        fail(e, "operator")
    if isinstance(e, ast.Call) and isinstance(e.func, ast.Name) \
            and e.func.id == 'abs' and len(e.args) == 1 and not e.keywords:
        return f"(Z.abs {expr(e.args[0], env)})"
    fail(e, "int expression")


def bexpr(e, env):
    """Boolean expression -> Gallina (bool)."""
    if isinstance(e, ast.BoolOp):
        op = '&&' if isinstance(e.op, ast.And) else '||'
        return '(' + f' {op} '.join(bexpr(v, env) for v in e.values) + ')'
    if isinstance(e, ast.UnaryOp) and isinstance(e.op, ast.Not):
        return f"(negb {bexpr(e.operand, env)})"
    if isinstance(e, ast.Compare) and len(e.ops) == 1:
        op, rhs = e.ops[0], e.comparators[0]
        # rounding == ROUNDING.X
        if isinstance(e.left, ast.Name) and e.left.id == 'rounding' \
                and isinstance(op, ast.Eq) and isinstance(rhs, ast.Attribute) \
                and isinstance(rhs.value, ast.Name) \
                and rhs.value.id == 'ROUNDING' and rhs.attr in MODES:
            return f"(mode_eqb m {MODES[rhs.attr]})"
        l, r = expr(e.left, env), expr(rhs, env)
        cmps = {ast.Eq: '=?', ast.Lt: '<?', ast.LtE: '<=?', ast.Gt: '>?',
                ast.GtE: '>=?'}
        if type(op) in cmps:
            return f"({l} {cmps[type(op)]} {r})"
        if isinstance(op, ast.NotEq):
            return f"(negb ({l} =? {r}))"
    fail(e, "bool expression")


def block(stmts, env):
    """Statement list that must end in return/raise on every path -> option Z."""
    if not stmts:
        raise Unsupported("fall-through without return")
    s, rest = stmts[0], stmts[1:]
    if isinstance(s, ast.Expr) and isinstance(s.value, ast.Constant) \
            and isinstance(s.value.value, str):
        return block(rest, env)         # docstring
    if isinstance(s, ast.Return):
        return f"Some {expr(s.value, env)}"
    if isinstance(s, ast.Raise):
        return "None"
    if isinstance(s, ast.Assign) and len(s.targets) == 1:
        t = s.targets[0]
        # quot, rem = divmod(x, y)
        if isinstance(t, ast.Tuple) and isinstance(s.value, ast.Call) \
                and isinstance(s.value.func, ast.Name) \
                and s.value.func.id == 'divmod' and len(t.elts) == 2:
            a, b = (expr(x, env) for x in s.value.args)
            n1, n2 = t.elts[0].id, t.elts[1].id
            env2 = dict(env, **{n1: n1, n2: n2})
            return (f"let {n1} := ({a} / {b}) in let {n2} := ({a} mod {b}) in\n"
                    f"{block(rest, env2)}")
        # a, b = e1, e2
        if isinstance(t, ast.Tuple) and isinstance(s.value, ast.Tuple) \
                and len(t.elts) == len(s.value.elts):
            vals = [expr(v, env) for v in s.value.elts]   # simultaneous
            env2 = dict(env)
            out = ""
            for tgt, v in zip(t.elts, vals):
                out += f"let {tgt.id} := {v} in "
                env2[tgt.id] = tgt.id
            return out + "\n" + block(rest, env2)
        if isinstance(t, ast.Name):
            if t.id == 'rounding':
                fail(s, "assignment to rounding outside the default idiom")
            env2 = dict(env, **{t.id: t.id})
            return f"let {t.id} := {expr(s.value, env)} in\n{block(rest, env2)}"
    if isinstance(s, ast.If):
        # `if rounding is None: rounding = get_dflt_rounding_mode()`:
        # the model's `m` is the effective mode, so the statement is a no-op.
        tst = s.test
        if isinstance(tst, ast.Compare) and isinstance(tst.left, ast.Name) \
                and tst.left.id == 'rounding' and isinstance(tst.ops[0], ast.Is) \
                and isinstance(tst.comparators[0], ast.Constant) \
                and tst.comparators[0].value is None and not s.orelse \
                and len(s.body) == 1 and isinstance(s.body[0], ast.Assign) \
                and ast.unparse(s.body[0]) == \
                'rounding = get_dflt_rounding_mode()':
            return block(rest, env)
        c = bexpr(tst, env)
        # both branches continue with `rest` (if they fall through)
        def branch(b):
            return block(b + rest, env) if not ends(b) else block(b, env)
        return (f"if {c}\nthen ({branch(s.body)})\n"
                f"else ({branch(s.orelse)})")
    fail(s, "statement")


def ends(stmts):
    """True if every path through stmts returns or raises."""
    if not stmts:
        return False
    last = stmts[-1]
    if isinstance(last, (ast.Return, ast.Raise)):
        return True
    if isinstance(last, ast.If):
        return ends(last.body) and ends(last.orelse)
    return False


def main():
    tree = ast.parse(open(SRC).read())
    fn = next((n for n in tree.body if isinstance(n, ast.FunctionDef)
               and n.name == '_floordiv_rounded'), None)
    if fn is None:
        raise Unsupported("_floordiv_rounded not found")
    args = [a.arg for a in fn.args.args]
    if args != ['x', 'y', 'rounding']:
        raise Unsupported(f"unexpected signature {args}")
    body = block(fn.body, {'x': 'x', 'y': 'y'})
    print("(* GENERATED from /repo/src/quantity/__init__.py:_floordiv_rounded *)")
    print("Definition floordiv_rounded (x y : Z) (m : mode) : option Z :=")
    print(body + ".")


if __name__ == '__main__':
    try:
        main()
    except Unsupported as e:
        print("TRANSLATION FAILED (fail-closed):", e, file=sys.stderr)
        sys.exit(2)
