"""Fail-closed translator of the LOOK-UP side of MoneyConverter
(src/quantity/money/__init__.py: _get_rate, get_rate, __call__) into Coq.

Written to coq/Gen/MoneyConvImpl.v on every run; Proofs/GenMoneyConvEq.v proves
the generated functions equal to lookup_rate / conv_get_rate / conv_call of
Model/MoneyConv.v, the functions C11's theorems are about.

Representation (fixed here, trusted; the update side - parsing of validity
spellings, construction of the rates - stays hand-modelled and is tied by the
correspondence check):
  self                      the converter state  st : cstate
  a currency                its id : N;  `a is b` / `a == b` on currencies: N.eqb
  effective_date            option date;  `self._get_dflt_effective_date()` the
                            value dflt of the configured callable
  self._type_of_validity    cv_kind st : option kind
  self._date2validity[k](d) date2validity k d (None: KeyError)
  self._rate_dict[(v, c)]   tbl_get (cv_table st) (v, c)  (None: KeyError)
  ExchangeRate(u, ONE, t, x)   mk_rate dm u 1 t x   (may raise: res)
  r.inverted()              inverted dm r          (may raise: res)
  r.rate                    rate_of r; the quotient of two rates carries no
                            zero check (stored term amounts are >= 10^-6)
A function that may raise KeyError returns an option (None = KeyError);
`try: ... except KeyError: return None` is a match on it.
"""
import ast
import os
import sys


class Unsupported(Exception):
    pass


def fail(node, why):
    raise Unsupported(f"line {getattr(node, 'lineno', '?')}: {why}: {ast.dump(node)[:220]}")


def is_name(e, n):
    return isinstance(e, ast.Name) and e.id == n


def is_none(e):
    return isinstance(e, ast.Constant) and e.value is None


def is_self_attr(e, a):
    return isinstance(e, ast.Attribute) and e.attr == a and is_name(e.value, 'self')


class Tr:
    def __init__(self):
        self.n = 0

    def new(self, b):
        self.n += 1
        return f"{b}{self.n}"

    # ---- expressions ---------------------------------------------------------------
    def cur(self, e, env):
        if isinstance(e, ast.Name) and env.get(e.id, ('',))[0] == 'cur':
            return env[e.id][1]
        if is_self_attr(e, 'base_currency') or is_self_attr(e, '_base_currency'):
            return "(cv_base st)"
        if isinstance(e, ast.Attribute) and e.attr == 'currency' and isinstance(e.value, ast.Name) \
                and env.get(e.value.id, ('',))[0] == 'money':
            return env[e.value.id][2]
        return None

    def num(self, e, env):
        if is_name(e, 'ONE'):
            return "1%Q"
        if isinstance(e, ast.Attribute) and e.attr == 'rate' and isinstance(e.value, ast.Name) \
                and env.get(e.value.id, ('',))[0] == 'rate':
            return f"(rate_of {env[e.value.id][1]})"
        if isinstance(e, ast.Attribute) and e.attr == 'amount' and isinstance(e.value, ast.Name) \
                and env.get(e.value.id, ('',))[0] == 'money':
            return env[e.value.id][1]
        if isinstance(e, ast.BinOp) and isinstance(e.op, (ast.Mult, ast.Div)):
            a, b = self.num(e.left, env), self.num(e.right, env)
            if isinstance(e.op, ast.Div):
                if not (isinstance(e.right, ast.Attribute) and e.right.attr == 'rate'):
                    fail(e, "division by something that is not a rate")
                return f"(qdiv {a} {b})"
            return f"(qmul {a} {b})"
        fail(e, "number expression")

    def mk_rate(self, e, env):
        """ExchangeRate(u, ONE, t, x) -> res rate"""
        if isinstance(e, ast.Call) and is_name(e.func, 'ExchangeRate') and len(e.args) == 4 \
                and not e.keywords:
            u, t = self.cur(e.args[0], env), self.cur(e.args[2], env)
            if u and t:
                return f"mk_rate dm {u} {self.num(e.args[1], env)} {t} {self.num(e.args[3], env)}"
        return None

    def date(self, e, env):
        if isinstance(e, ast.Name) and env.get(e.id, ('',))[0] in ('odate', 'date'):
            return env[e.id]
        return None

    def lookup_call(self, e, env):
        """self._get_rate(c, d) -> option rate (None = KeyError)"""
        if isinstance(e, ast.Call) and is_self_attr(e.func, '_get_rate') and len(e.args) == 2 \
                and not e.keywords:
            c, d = self.cur(e.args[0], env), self.date(e.args[1], env)
            if c and d and d[0] == 'odate':
                return f"get_rate_key_impl st {c} {d[1]} dflt"
        return None

    # ---- statements of a function that may raise KeyError: option T -----------------
    def key_block(self, stmts, env):
        if not stmts:
            raise Unsupported("_get_rate: control reaches the end")
        st, rest = stmts[0], stmts[1:]
        if isinstance(st, ast.Expr) and isinstance(st.value, ast.Constant):
            return self.key_block(rest, env)
        if isinstance(st, ast.Assign) and len(st.targets) == 1 and isinstance(st.targets[0], ast.Name):
            tg, v = st.targets[0].id, st.value
            env2 = dict(env)
            if is_self_attr(v, '_type_of_validity'):
                env2[tg] = ('okind', '(cv_kind st)')
                return self.key_block(rest, env2)
            if isinstance(v, ast.Call) and is_self_attr(v.func, '_get_dflt_effective_date') \
                    and not v.args and env.get(tg, ('',))[0] == 'none_date':
                env2[tg] = ('date', 'dflt')
                return self.key_block(rest, env2)
            # validity = self._date2validity[k](d)
            if isinstance(v, ast.Call) and isinstance(v.func, ast.Subscript) \
                    and is_self_attr(v.func.value, '_date2validity') \
                    and isinstance(v.func.slice, ast.Name) \
                    and env.get(v.func.slice.id, ('',))[0] == 'kind' and len(v.args) == 1:
                d = self.date(v.args[0], env)
                if d and d[0] == 'date':
                    x = self.new('v')
                    env2[tg] = ('validity', x)
                    return (f"match date2validity {env[v.func.slice.id][1]} {d[1]} with\n"
                            f"| None => None\n| Some {x} => {self.key_block(rest, env2)}\nend")
            fail(st, "assignment")
        if isinstance(st, ast.If) and not st.orelse:
            t = st.test
            if isinstance(t, ast.Compare) and len(t.ops) == 1 and isinstance(t.ops[0], ast.Is) \
                    and is_none(t.comparators[0]) and isinstance(t.left, ast.Name):
                k = env.get(t.left.id, ('',))
                if k[0] == 'okind':
                    x = self.new('k')
                    env2 = dict(env)
                    env2[t.left.id] = ('kind', x)
                    return (f"match {k[1]} with\n| None => {self.key_block(st.body, env)}\n"
                            f"| Some {x} => {self.key_block(rest, env2)}\nend")
                if k[0] == 'odate':
                    x = self.new('d')
                    none_env, some_env = dict(env), dict(env)
                    none_env[t.left.id] = ('none_date',)
                    some_env[t.left.id] = ('date', x)
                    return (f"match {k[1]} with\n"
                            f"| None => {self.key_block(st.body + rest, none_env)}\n"
                            f"| Some {x} => {self.key_block(rest, some_env)}\nend")
            fail(st, "condition")
        if isinstance(st, ast.Raise):
            if is_name(st.exc, 'KeyError') or (isinstance(st.exc, ast.Call)
                                               and is_name(st.exc.func, 'KeyError')):
                return "None"
            fail(st, "raise")
        if isinstance(st, ast.Return):
            v = st.value
            if isinstance(v, ast.Subscript) and is_self_attr(v.value, '_rate_dict') \
                    and isinstance(v.slice, ast.Tuple) and len(v.slice.elts) == 2 \
                    and isinstance(v.slice.elts[0], ast.Name) \
                    and env.get(v.slice.elts[0].id, ('',))[0] == 'validity' \
                    and self.cur(v.slice.elts[1], env):
                return (f"tbl_get (cv_table st) ({env[v.slice.elts[0].id][1]}, "
                        f"{self.cur(v.slice.elts[1], env)})")
            fail(st, "return")
        fail(st, "statement")

    # ---- statements of get_rate: res (option rate) ------------------------------------
    def rate_value(self, v, env):
        """expression of type ExchangeRate -> Coq term of type res (option rate)"""
        if isinstance(v, ast.Name) and env.get(v.id, ('',))[0] == 'rate':
            return f"Ok (Some {env[v.id][1]})"
        mk = self.mk_rate(v, env)
        if mk:
            return f"some_rate ({mk})"
        if isinstance(v, ast.Call) and isinstance(v.func, ast.Attribute) and v.func.attr == 'inverted' \
                and not v.args and isinstance(v.func.value, ast.Name) \
                and env.get(v.func.value.id, ('',))[0] == 'rate':
            return f"some_rate (inverted dm {env[v.func.value.id][1]})"
        return None

    def block(self, stmts, env):
        if not stmts:
            raise Unsupported("get_rate: control reaches the end")
        st, rest = stmts[0], stmts[1:]
        if isinstance(st, ast.Expr) and isinstance(st.value, ast.Constant):
            return self.block(rest, env)
        if isinstance(st, ast.Assign) and len(st.targets) == 1 and isinstance(st.targets[0], ast.Name) \
                and (is_self_attr(st.value, 'base_currency') or is_self_attr(st.value, '_base_currency')):
            env2 = dict(env)
            env2[st.targets[0].id] = ('cur', '(cv_base st)')
            return self.block(rest, env2)
        if isinstance(st, ast.Return):
            if is_none(st.value):
                return "Ok None"
            r = self.rate_value(st.value, env)
            if r:
                return r
            # return self._get_rate(c, d) inside a try is handled by try_
            fail(st, "return")
        if isinstance(st, ast.If):
            t = st.test
            if isinstance(t, ast.Compare) and len(t.ops) == 1 \
                    and isinstance(t.ops[0], (ast.Is, ast.Eq)):
                a, b = self.cur(t.left, env), self.cur(t.comparators[0], env)
                if a and b:
                    return (f"if N.eqb {a} {b} then {self.block(st.body + rest, env)}\n"
                            f"else {self.block(st.orelse + rest, env)}")
            fail(t, "condition")
        if isinstance(st, ast.Try):
            return self.try_(st, rest, env)
        fail(st, "statement")

    def try_(self, st, rest, env):
        if not (len(st.handlers) == 1 and not st.finalbody
                and is_name(st.handlers[0].type, 'KeyError') and st.handlers[0].name is None):
            fail(st, "try statement")
        handler = self.block(st.handlers[0].body + rest, env)
        # the body: assignments  x = self._get_rate(c, d)  and possibly a final
        # `return self._get_rate(c, d)`; the first KeyError goes to the handler
        def go(body, env):
            if not body:
                return self.block(st.orelse + rest, env)
            b = body[0]
            if isinstance(b, ast.Return):
                call = self.lookup_call(b.value, env)
                if call and len(body) == 1:
                    x = self.new('r')
                    return f"match {call} with\n| None => {handler}\n| Some {x} => Ok (Some {x})\nend"
                fail(b, "return in a try body")
            if isinstance(b, ast.Assign) and len(b.targets) == 1 and isinstance(b.targets[0], ast.Name):
                call = self.lookup_call(b.value, env)
                if call:
                    x = self.new(b.targets[0].id)
                    env2 = dict(env)
                    env2[b.targets[0].id] = ('rate', x)
                    return (f"match {call} with\n| None => {handler}\n"
                            f"| Some {x} => {go(body[1:], env2)}\nend")
            fail(b, "try body")
        return go(st.body, env)

    # ---- __call__: res Q ------------------------------------------------------------
    def call_block(self, stmts, env):
        if not stmts:
            raise Unsupported("__call__: control reaches the end")
        st, rest = stmts[0], stmts[1:]
        if isinstance(st, ast.Expr) and isinstance(st.value, ast.Constant):
            return self.call_block(rest, env)
        if isinstance(st, ast.Assign) and len(st.targets) == 1 and isinstance(st.targets[0], ast.Name):
            v = st.value
            if isinstance(v, ast.Call) and is_self_attr(v.func, 'get_rate') and len(v.args) == 3 \
                    and not v.keywords:
                u, t, d = self.cur(v.args[0], env), self.cur(v.args[1], env), self.date(v.args[2], env)
                if u and t and d and d[0] == 'odate':
                    x, e = self.new('orate'), self.new('err')
                    env2 = dict(env)
                    env2[st.targets[0].id] = ('orate', x)
                    return (f"match get_rate_impl st dm {u} {t} {d[1]} dflt with\n"
                            f"| Err {e} => Err {e}\n| Ok {x} => {self.call_block(rest, env2)}\nend")
            fail(st, "assignment")
        if isinstance(st, ast.If):
            t = st.test
            if isinstance(t, ast.Compare) and len(t.ops) == 1 and isinstance(t.ops[0], ast.Is) \
                    and is_none(t.comparators[0]) and isinstance(t.left, ast.Name) \
                    and env.get(t.left.id, ('',))[0] == 'orate':
                x = self.new('r')
                env2 = dict(env)
                env2[t.left.id] = ('rate', x)
                return (f"match {env[t.left.id][1]} with\n"
                        f"| None => {self.call_block(st.body + rest, env)}\n"
                        f"| Some {x} => {self.call_block(st.orelse + rest, env2)}\nend")
            fail(t, "condition")
        if isinstance(st, ast.Raise):
            if isinstance(st.exc, ast.Call) and is_name(st.exc.func, 'UnitConversionError'):
                return "Err EUnitConversion"
            fail(st, "raise")
        if isinstance(st, ast.Return):
            return f"Ok {self.num(st.value, env)}"
        fail(st, "statement")


def find_method(tree, cls, name):
    for n in tree.body:
        if isinstance(n, ast.ClassDef) and n.name == cls:
            ms = [m for m in n.body if isinstance(m, ast.FunctionDef) and m.name == name
                  and not m.decorator_list]
            if len(ms) != 1:
                raise Unsupported(f"{cls}.{name}: {len(ms)} undecorated definitions")
            return ms[0]
    raise Unsupported(f"class {cls} not found")


def args_of(m, want, defaults=0):
    names = [a.arg for a in m.args.args]
    if names != want or m.args.vararg or m.args.kwarg or m.args.kwonlyargs \
            or len(m.args.defaults) != defaults \
            or not all(is_none(d) for d in m.args.defaults):
        raise Unsupported(f"{m.name}: signature {names}")


def check_date2validity(tree):
    """the class-level table  _date2validity = {NoneType: lambda d: None, int: lambda d: d.year,
    tuple: lambda d: (d.year, d.month), date: lambda d: d}"""
    for n in tree.body:
        if isinstance(n, ast.ClassDef) and n.name == 'MoneyConverter':
            for m in n.body:
                tgt = None
                if isinstance(m, ast.Assign) and len(m.targets) == 1:
                    tgt, val = m.targets[0], m.value
                elif isinstance(m, ast.AnnAssign) and m.value is not None:
                    tgt, val = m.target, m.value
                if tgt is not None and is_name(tgt, '_date2validity'):
                    want = ("{type(None): lambda d: None, int: lambda d: d.year, "
                            "tuple: lambda d: (d.year, d.month), date: lambda d: d}")
                    got = ast.dump(val)
                    alts = [ast.dump(ast.parse(w).body[0].value) for w in (
                        want, want.replace('type(None)', 'NoneType'))]
                    if got not in alts:
                        raise Unsupported("MoneyConverter._date2validity is not the expected table: "
                                          + ast.unparse(val)[:200])
                    return
    raise Unsupported("MoneyConverter._date2validity not found")


PRELUDE = '''(* GENERATED by /verif/translate/mconv.py from src/quantity/money/__init__.py
   (MoneyConverter._get_rate, get_rate, __call__).  Do not edit; rewritten on
   every run. *)
From Coq Require Import ZArith QArith List Bool.
From QV Require Import Model.Num Model.Rounding Model.Quantity Model.Rates Model.MoneyConv.
Open Scope Z_scope.

'''


def generate(path):
    tree = ast.parse(open(path, encoding='utf-8').read())
    check_date2validity(tree)
    out = [PRELUDE]
    m = find_method(tree, 'MoneyConverter', '_get_rate')
    args_of(m, ['self', 'term_currency', 'effective_date'])
    body = Tr().key_block(m.body, {'term_currency': ('cur', 'term_currency'),
                                    'effective_date': ('odate', 'effective_date')})
    out.append("(* MoneyConverter._get_rate: None = KeyError *)\n"
               "Definition get_rate_key_impl (st : cstate) (term_currency : N) "
               "(effective_date : option date) (dflt : date) : option rate :=\n" + body + ".\n")
    m = find_method(tree, 'MoneyConverter', 'get_rate')
    args_of(m, ['self', 'unit_currency', 'term_currency', 'effective_date'], 1)
    body = Tr().block(m.body, {'unit_currency': ('cur', 'unit_currency'),
                               'term_currency': ('cur', 'term_currency'),
                               'effective_date': ('odate', 'effective_date')})
    out.append("(* MoneyConverter.get_rate *)\n"
               "Definition get_rate_impl (st : cstate) (dm : mode) (unit_currency term_currency : N) "
               "(effective_date : option date) (dflt : date) : res (option rate) :=\n" + body + ".\n")
    m = find_method(tree, 'MoneyConverter', '__call__')
    args_of(m, ['self', 'money_amnt', 'to_currency', 'effective_date'], 1)
    body = Tr().call_block(m.body, {'money_amnt': ('money', 'amount', 'from_currency'),
                                    'to_currency': ('cur', 'to_currency'),
                                    'effective_date': ('odate', 'effective_date')})
    out.append("(* MoneyConverter.__call__ *)\n"
               "Definition call_impl (st : cstate) (dm : mode) (from_currency : N) (amount : Q) "
               "(to_currency : N) (effective_date : option date) (dflt : date) : res Q :=\n"
               + body + ".\n")
    return "\n".join(out)


if __name__ == '__main__':
    try:
        sys.stdout.write(generate(sys.argv[1]))
    except Unsupported as e:
        sys.stderr.write(f"Unsupported: {e}\n")
        sys.exit(2)
