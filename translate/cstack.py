"""Fail-closed translator of converter REGISTRATION into Coq:
MoneyMeta.register_converter / remove_converter, MoneyConverter.__enter__ /
__exit__ (src/quantity/money/__init__.py) and QuantityMeta.register_converter /
remove_converter / registered_converters (src/quantity/__init__.py).

Written to coq/Gen/ConvStackImpl.v on every run; Proofs/GenConvStackEq.v proves
the generated functions equal to money_register / money_remove / gen_register /
gen_remove / listing of Model/ConvStack.v, the functions C12's theorems are about.

Representation (fixed here, trusted): `cls._converters` is the model's state, a
list of converter ids in registration order; `conv` is an id; `x is conv` and
`conv in list` compare ids; `isinstance(conv, MoneyConverter)` is the oracle
`ismc conv`; list.append / pop / remove / [-1] / reversed are the list functions
app / removelast / remove_first / last_opt / rev (pop and [-1] on an empty list:
IndexError; remove of an absent element: ValueError).  A method returns
(new list, result) with result RNone for a normal return.
"""
import ast
import os
import sys


class Unsupported(Exception):
    pass


def fail(node, why):
    raise Unsupported(f"line {getattr(node, 'lineno', '?')}: {why}: {ast.dump(node)[:220]}")


def is_name(e, n):
    return isinstance(e, ast.Name) and e.id == n


def is_convs(e):
    return isinstance(e, ast.Attribute) and e.attr == '_converters' and is_name(e.value, 'cls')


def cond(t):
    """Coq bool over the current list variable %s"""
    if isinstance(t, ast.UnaryOp) and isinstance(t.op, ast.Not):
        return f"negb ({cond(t.operand)})"
    if isinstance(t, ast.Call) and is_name(t.func, 'isinstance') and len(t.args) == 2 \
            and is_name(t.args[0], 'conv') and is_name(t.args[1], 'MoneyConverter'):
        return "ismc conv"
    if isinstance(t, ast.Compare) and len(t.ops) == 1 and is_name(t.left, 'conv') \
            and is_convs(t.comparators[0]):
        if isinstance(t.ops[0], ast.In):
            return "mem conv %s"
        if isinstance(t.ops[0], ast.NotIn):
            return "negb (mem conv %s)"
    fail(t, "condition")


def block(stmts, s):
    """Coq term (list, result); s: current list variable"""
    if not stmts:
        return f"({s}, RNone)"                      # falls off the end: returns None
    st, rest = stmts[0], stmts[1:]
    if isinstance(st, ast.Expr) and isinstance(st.value, ast.Constant):
        return block(rest, s)
    if isinstance(st, ast.Return) and (st.value is None or
                                       (isinstance(st.value, ast.Constant) and st.value.value is None)):
        return f"({s}, RNone)"
    if isinstance(st, ast.Raise) and isinstance(st.exc, ast.Call) and isinstance(st.exc.func, ast.Name) \
            and st.exc.func.id in ('ValueError', 'TypeError'):
        return f"({s}, RErr E{st.exc.func.id})"
    if isinstance(st, ast.Expr) and isinstance(st.value, ast.Call) \
            and isinstance(st.value.func, ast.Attribute) and is_convs(st.value.func.value):
        m, args = st.value.func.attr, st.value.args
        if m == 'append' and len(args) == 1 and is_name(args[0], 'conv'):
            return f"let s' := {s} ++ [conv] in {block(rest, chr(39).join(['s', '']))}" \
                if s == 's' else fail(st, "second update")
        if m == 'pop' and not args:
            if s != 's':
                fail(st, "second update")
            return (f"match last_opt {s} with\n| None => ({s}, RErr EIndexError)\n"
                    f"| Some _ => let s' := removelast {s} in {block(rest, chr(39).join(['s', '']))}\nend")
        if m == 'remove' and len(args) == 1 and is_name(args[0], 'conv'):
            if s != 's':
                fail(st, "second update")
            return (f"if mem conv {s} then let s' := remove_first conv {s} in "
                    f"{block(rest, chr(39).join(['s', '']))}\nelse ({s}, RErr EValueError)")
        fail(st, "list operation")
    if isinstance(st, ast.If):
        t = st.test
        # cls._converters[-1] is conv
        if isinstance(t, ast.Compare) and len(t.ops) == 1 and isinstance(t.ops[0], ast.Is) \
                and is_name(t.comparators[0], 'conv') and isinstance(t.left, ast.Subscript) \
                and is_convs(t.left.value) and isinstance(t.left.slice, ast.UnaryOp) \
                and isinstance(t.left.slice.op, ast.USub) \
                and isinstance(t.left.slice.operand, ast.Constant) and t.left.slice.operand.value == 1:
            return (f"match last_opt {s} with\n| None => ({s}, RErr EIndexError)\n"
                    f"| Some t => if N.eqb t conv then {block(st.body + rest, s)}\n"
                    f"else {block(st.orelse + rest, s)}\nend")
        c = cond(t)
        c = c % s if '%s' in c else c
        return f"if {c} then {block(st.body + rest, s)}\nelse {block(st.orelse + rest, s)}"
    fail(st, "statement")


def find_method(tree, cls, name):
    for n in tree.body:
        if isinstance(n, ast.ClassDef) and n.name == cls:
            ms = [m for m in n.body if isinstance(m, ast.FunctionDef) and m.name == name
                  and not m.decorator_list]
            if len(ms) != 1:
                raise Unsupported(f"{cls}.{name}: {len(ms)} undecorated definitions")
            return ms[0]
    raise Unsupported(f"class {cls} not found")


def args_of(m, want):
    names = [a.arg for a in m.args.args]
    if names != want or m.args.kwarg or m.args.kwonlyargs or m.args.defaults:
        raise Unsupported(f"{m.name}: signature {names}")


def body_of(m):
    return [x for x in m.body if not (isinstance(x, ast.Expr) and isinstance(x.value, ast.Constant))]


PRELUDE = '''(* GENERATED by /verif/translate/cstack.py from src/quantity/money/__init__.py
   (MoneyMeta.register_converter, remove_converter; MoneyConverter.__enter__ /
   __exit__ are checked to delegate to them) and src/quantity/__init__.py
   (QuantityMeta.register_converter, remove_converter, registered_converters).
   Do not edit; rewritten on every run. *)
From Coq Require Import ZArith QArith List Bool.
From QV Require Import Model.Num Model.Rounding Model.Quantity Model.ConvStack.
Import ListNotations.
Open Scope Z_scope.

'''


def generate(init_path):
    out = [PRELUDE]
    mtree = ast.parse(open(os.path.join(os.path.dirname(init_path), 'money', '__init__.py'),
                           encoding='utf-8').read())
    qtree = ast.parse(open(init_path, encoding='utf-8').read())
    for tree, cls, meth, name, extra in (
            (mtree, 'MoneyMeta', 'register_converter', 'money_register_impl', '(ismc : N -> bool) '),
            (mtree, 'MoneyMeta', 'remove_converter', 'money_remove_impl', ''),
            (qtree, 'QuantityMeta', 'register_converter', 'gen_register_impl', ''),
            (qtree, 'QuantityMeta', 'remove_converter', 'gen_remove_impl', '')):
        m = find_method(tree, cls, meth)
        args_of(m, ['cls', 'conv'])
        out.append(f"(* {cls}.{meth} *)\nDefinition {name} {extra}(s : list N) (conv : N) "
                   f": list N * result :=\n{block(m.body, 's')}.\n")
    # registered_converters: return reversed(cls._converters)
    m = find_method(qtree, 'QuantityMeta', 'registered_converters')
    args_of(m, ['cls'])
    b = body_of(m)
    if not (len(b) == 1 and isinstance(b[0], ast.Return) and isinstance(b[0].value, ast.Call)
            and is_name(b[0].value.func, 'reversed') and len(b[0].value.args) == 1
            and is_convs(b[0].value.args[0])):
        raise Unsupported("QuantityMeta.registered_converters is not `return reversed(cls._converters)`")
    out.append("(* QuantityMeta.registered_converters *)\n"
               "Definition listing_impl (s : list N) : list N := rev s.\n")
    # the context manager delegates: Money.register_converter(self) / Money.remove_converter(self)
    for meth, target in (('__enter__', 'register_converter'), ('__exit__', 'remove_converter')):
        m = find_method(mtree, 'MoneyConverter', meth)
        b = body_of(m)
        ok = (len(b) == 2 and isinstance(b[0], ast.Expr) and isinstance(b[0].value, ast.Call)
              and ast.dump(b[0].value) == ast.dump(ast.parse(f"Money.{target}(self)").body[0].value)
              and isinstance(b[1], ast.Return)
              and (is_name(b[1].value, 'self') if meth == '__enter__'
                   else isinstance(b[1].value, ast.Constant) and b[1].value.value is None))
        if not ok:
            raise Unsupported(f"MoneyConverter.{meth} does not just call Money.{target}(self)")
    return "\n".join(out)


if __name__ == '__main__':
    try:
        sys.stdout.write(generate(sys.argv[1]))
    except Unsupported as e:
        sys.stderr.write(f"Unsupported: {e}\n")
        sys.exit(2)
