"""Fail-closed translation of the quantity layer of src/quantity/__init__.py —
Unit.__eq__, Unit._get_factor, Quantity.equiv_amount, convert, __eq__,
_compare, __add__, __sub__ — to Gallina over the types of Model/Quantity.v.

Output: coq/Gen/QuantityImpl.v.  Proofs/GenQuantityEq.v proves every generated
function equal to the hand-written model function the theorems are about, so
a change of the source that alters the behaviour breaks a proof obligation; a
change the translator does not understand raises Unsupported (obligation
"model regenerated" broken).

The translation is typed: parameters have fixed model types (unit, qty, number
of type Q, optional number).  `isinstance` tests that the typing makes true are
constant; Python truthiness of an optional number (`if x:` / `if not x:`) is
translated faithfully (None and zero are falsy), so that the classic slip
`is None` -> `not x` yields a DIFFERENT model rather than an error.
"""
import ast

ERR = {'TypeError': 'ETypeError', 'ValueError': 'EValueError',
       'IncompatibleUnitsError': 'EIncompatibleUnits',
       'UnitConversionError': 'EUnitConversion', 'QuantityError': 'EQuantityError',
       'UndefinedResultError': 'EUndefinedResult', 'AssertionError': 'EAssertion'}


class Unsupported(Exception):
    pass


def fail(node, why):
    raise Unsupported(f"line {getattr(node, 'lineno', '?')}: {why}: "
                      f"{ast.dump(node)[:200] if isinstance(node, ast.AST) else node}")


def src(e):
    return ast.unparse(e)


class Fn:
    """One translated function: parameter types, result type."""

    def __init__(self, cls, name, params, rtype, coqname, file='__init__.py'):
        self.cls, self.name, self.params, self.rtype = cls, name, params, rtype
        self.coqname, self.file = coqname, file


# model types: 'unit', 'qty', 'q', 'optq', 'bool', 'cmpop'
FUNCS = [
    Fn('Unit', '__eq__', [('self', 'unit'), ('other', 'unit')], 'bool', 'unit_eq_impl'),
    Fn('Unit', '_get_factor', [('self', 'unit'), ('other', 'unit')], 'optq', 'get_factor_impl'),
    Fn('Quantity', 'equiv_amount', [('self', 'qty'), ('unit', 'unit')], 'optq', 'equiv_amount_impl'),
    Fn('Quantity', 'convert', [('self', 'qty'), ('to_unit', 'unit')], 'qty', 'convert_impl'),
    Fn('Quantity', '__eq__', [('self', 'qty'), ('other', 'qty')], 'bool', 'qty_eq_impl'),
    Fn('Quantity', '_compare', [('self', 'qty'), ('other', 'qty'), ('op', 'cmpop')], 'bool',
       'qty_cmp_impl'),
    Fn('Unit', '_compare', [('self', 'unit'), ('other', 'unit'), ('op', 'cmpop')], 'bool',
       'unit_cmp_impl'),
    Fn('Quantity', '__add__', [('self', 'qty'), ('other', 'qty')], 'qty', 'qty_add_impl'),
    Fn('Quantity', '__sub__', [('self', 'qty'), ('other', 'qty')], 'qty', 'qty_sub_impl'),
    # converter.py: a TableConverter is its conversion table
    Fn('TableConverter', '_get_factor', [('self', 'table'), ('qty', 'qty'), ('to_unit', 'unit')],
       'optq', 'table_factor_impl', 'converter.py'),
    Fn('Converter', '__call__', [('self', 'table'), ('qty', 'qty'), ('to_unit', 'unit')],
       'optq', 'table_call_impl', 'converter.py'),
]
COQTYPE = {'unit': 'unit', 'qty': 'qty', 'q': 'Q', 'optq': 'option Q', 'bool': 'bool',
           'cmpop': 'cmpop', 'table': 'table'}


class Tr:
    def __init__(self, fn):
        self.fn = fn
        self.fresh = 0

    def new(self, base):
        self.fresh += 1
        return f"{base}{self.fresh}"

    # ---------------------------------------------------------------- objects
    def unit_of(self, e, env):
        """expression of model type unit -> Gallina term, or None"""
        if isinstance(e, ast.Name) and env.get(e.id, (None,))[0] == 'unit':
            return env[e.id][1]
        if isinstance(e, ast.Attribute) and e.attr in ('unit', '_unit') \
                and isinstance(e.value, ast.Name) and env.get(e.value.id, (None,))[0] == 'qty':
            return f"(q_unit {env[e.value.id][1]})"
        return None

    def class_unit(self, e, env):
        """expression denoting a quantity class -> a unit term of that class"""
        if isinstance(e, ast.Attribute) and e.attr in ('qty_cls', '_qty_cls'):
            u = self.unit_of(e.value, env)
            if u:
                return u
        if isinstance(e, ast.Attribute) and e.attr == '__class__' \
                and isinstance(e.value, ast.Name) and env.get(e.value.id, (None,))[0] == 'qty':
            return f"(q_unit {env[e.value.id][1]})"
        if isinstance(e, ast.Name) and env.get(e.id, (None,))[0] == 'class':
            return env[e.id][1]
        return None

    def optq_of(self, e, env):
        """expression of type Optional[Rational] -> (Gallina term, narrowing key)"""
        key = src(e)
        if key in env and env[key][0] == 'optq':
            return env[key][1], key
        if isinstance(e, ast.Attribute) and e.attr == '_equiv':
            u = self.unit_of(e.value, env)
            if u:
                return f"(u_scale {u})", key
        return None, None

    def q_of(self, e, env):
        """expression of type number -> Gallina term of type Q, or None"""
        if isinstance(e, ast.Call) and isinstance(e.func, ast.Name) and e.func.id == 'cast' \
                and len(e.args) == 2:
            return self.q_of(e.args[1], env)            # typing.cast: identity at run time
        key = src(e)
        if key in env and env[key][0] == 'q':
            return env[key][1]
        if isinstance(e, ast.Attribute) and e.attr in ('amount', '_amount') \
                and isinstance(e.value, ast.Name) and env.get(e.value.id, (None,))[0] == 'qty':
            return f"(q_amt {env[e.value.id][1]})"
        if isinstance(e, ast.Name) and e.id == 'ONE':
            return "1"
        if isinstance(e, ast.BinOp):
            l, r = self.q_of(e.left, env), self.q_of(e.right, env)
            ops = {ast.Add: 'qadd', ast.Sub: 'qsub', ast.Mult: 'qmul', ast.Div: 'qdiv'}
            if l and r and type(e.op) in ops:
                return f"({ops[type(e.op)]} {l} {r})"
        return None

    # ---------------------------------------------------------------- conditions
    def cond(self, e, env):
        """pure boolean condition -> Gallina bool term ('true'/'false' when constant)"""
        if isinstance(e, ast.Constant) and isinstance(e.value, bool):
            return 'true' if e.value else 'false'
        if isinstance(e, ast.UnaryOp) and isinstance(e.op, ast.Not):
            c = self.cond(e.operand, env)
            return {'true': 'false', 'false': 'true'}.get(c, f"(negb {c})")
        if isinstance(e, ast.BoolOp):
            cs = [self.cond(v, env) for v in e.values]
            op = '&&' if isinstance(e.op, ast.And) else '||'
            return '(' + f' {op} '.join(cs) + ')'
        if isinstance(e, ast.Call) and isinstance(e.func, ast.Name) and e.func.id == 'isinstance' \
                and len(e.args) == 2:
            x, t = e.args
            if isinstance(t, ast.Name) and t.id == 'Unit' and self.unit_of(x, env):
                return 'true'
            if isinstance(t, ast.Name) and t.id == 'Quantity' and isinstance(x, ast.Name) \
                    and env.get(x.id, (None,))[0] == 'qty':
                return 'true'
            cu = self.class_unit(t, env)
            if cu and isinstance(x, ast.Name) and env.get(x.id, (None,))[0] == 'qty':
                # isinstance(other, self.__class__): same quantity class
                return f"(same_cls {cu} (q_unit {env[x.id][1]}))"
            fail(e, "isinstance")
        if isinstance(e, ast.Compare) and len(e.ops) == 1:
            op, a, b = e.ops[0], e.left, e.comparators[0]
            if isinstance(op, (ast.Is, ast.IsNot)):
                neg = isinstance(op, ast.IsNot)
                ca, cb = self.class_unit(a, env), self.class_unit(b, env)
                if ca and cb:
                    t = f"(same_cls {ca} {cb})"
                    return f"(negb {t})" if neg else t
                ua, ub = self.unit_of(a, env), self.unit_of(b, env)
                if ua and ub:
                    t = f"(same_unit {ua} {ub})"
                    return f"(negb {t})" if neg else t
                # <class>.ref_unit is None
                if isinstance(b, ast.Constant) and b.value is None and isinstance(a, ast.Attribute) \
                        and a.attr in ('ref_unit', '_ref_unit'):
                    cu = self.class_unit(a.value, env)
                    if cu:
                        t = f"(negb (u_has_ref {cu}))"
                        return f"(u_has_ref {cu})" if neg else t
                fail(e, "is / is not")
            if isinstance(op, (ast.Eq, ast.NotEq)):
                qa, qb = self.q_of(a, env), self.q_of(b, env)
                if qa and qb:
                    t = f"(qeqb {qa} {qb})"
                    return f"(negb {t})" if isinstance(op, ast.NotEq) else t
        if isinstance(e, ast.Call) and isinstance(e.func, ast.Name) \
                and env.get(e.func.id, (None,))[0] == 'cmpop' and len(e.args) == 2:
            qa, qb = self.q_of(e.args[0], env), self.q_of(e.args[1], env)
            if qa and qb:
                return f"(cmp_q {env[e.func.id][1]} {qa} {qb})"
        fail(e, "condition")

    # ---------------------------------------------------------------- branching
    def branch(self, test, env, then_k, else_k):
        """if <test>: then_k(env') else: else_k(env'); narrowing of optional numbers,
        monadic unit equality, Python truthiness"""
        # x is None / x is not None on an optional number
        if isinstance(test, ast.Compare) and len(test.ops) == 1 \
                and isinstance(test.ops[0], (ast.Is, ast.IsNot)) \
                and isinstance(test.comparators[0], ast.Constant) \
                and test.comparators[0].value is None:
            t, key = self.optq_of(test.left, env)
            if t:
                v = self.new('v')
                some_env = dict(env)
                some_env[key] = ('q', v)
                none_k, some_k = (then_k, else_k) if isinstance(test.ops[0], ast.Is) else (else_k, then_k)
                return (f"match {t} with\n| None => {none_k(env)}\n"
                        f"| Some {v} => {some_k(some_env)}\nend")
        # truthiness of an optional number: None and 0 are falsy
        neg = False
        inner = test
        if isinstance(test, ast.UnaryOp) and isinstance(test.op, ast.Not):
            neg, inner = True, test.operand
        t, key = self.optq_of(inner, env)
        if t:
            v = self.new('v')
            some_env = dict(env)
            some_env[key] = ('q', v)
            truthy, falsy = (else_k, then_k) if neg else (then_k, else_k)
            return (f"match {t} with\n| None => {falsy(env)}\n"
                    f"| Some {v} => if qzero {v} then {falsy(some_env)} else {truthy(some_env)}\nend")
        # unit == unit: Unit.__eq__ (may raise AssertionError)
        if isinstance(test, ast.Compare) and len(test.ops) == 1 \
                and isinstance(test.ops[0], ast.Eq):
            ua, ub = self.unit_of(test.left, env), self.unit_of(test.comparators[0], env)
            if ua and ub:
                b = self.new('b')
                return (f"bind (unit_eq_impl {ua} {ub}) (fun {b} =>\n"
                        f"if {b} then {then_k(env)} else {else_k(env)})")
        c = self.cond(test, env)
        if c == 'true':
            return then_k(env)
        if c == 'false':
            return else_k(env)
        return f"if {c} then {then_k(env)} else {else_k(env)}"

    # ---------------------------------------------------------------- statements
    def ret(self, e, env):
        rt = self.fn.rtype
        if rt == 'bool':
            if isinstance(e, ast.Name) and e.id == 'NotImplemented':
                return "Err ETypeError"
            if isinstance(e, ast.Compare) and len(e.ops) == 1 and isinstance(e.ops[0], ast.Eq):
                ua, ub = self.unit_of(e.left, env), self.unit_of(e.comparators[0], env)
                if ua and ub:
                    return f"unit_eq_impl {ua} {ub}"
            return f"Ok {self.cond(e, env)}"
        if rt == 'optq':
            if isinstance(e, ast.Call) and isinstance(e.func, ast.Attribute) \
                    and e.func.attr == '_get_factor' and isinstance(e.func.value, ast.Name) \
                    and env.get(e.func.value.id, (None,))[0] == 'table' and len(e.args) == 2 \
                    and isinstance(e.args[0], ast.Name) and env.get(e.args[0].id, (None,))[0] == 'qty' \
                    and self.unit_of(e.args[1], env):
                return (f"table_factor_impl {env[e.func.value.id][1]} {env[e.args[0].id][1]} "
                        f"{self.unit_of(e.args[1], env)}")
            if isinstance(e, ast.Constant) and e.value is None:
                return "Ok None"
            t, _ = self.optq_of(e, env)
            if t:
                return f"Ok {t}"
            q = self.q_of(e, env)
            if q:
                return f"Ok (Some {q})"
        if rt == 'qty':
            if isinstance(e, ast.Name) and e.id == 'NotImplemented':
                return "Err ETypeError"
            # number * unit  (Unit.__rmul__ -> constructor)
            if isinstance(e, ast.BinOp) and isinstance(e.op, ast.Mult):
                q, u = self.q_of(e.left, env), self.unit_of(e.right, env)
                if q and u:
                    return f"Ok (mk_qty dm {q} {u})"
            # self.__class__(amount, unit)
            if isinstance(e, ast.Call) and self.class_unit(e.func, env) and len(e.args) == 2:
                q, u = self.q_of(e.args[0], env), self.unit_of(e.args[1], env)
                if q and u:
                    return f"Ok (mk_qty dm {q} {u})"
        fail(e, f"return value for result type {rt}")

    def block(self, stmts, env):
        """statements -> Gallina term of type res <rtype>; falling off the end
        (implicit `return None`) is only allowed for result type optq"""
        if not stmts:
            if self.fn.rtype == 'optq':
                return "Ok None"
            raise Unsupported(f"{self.fn.name}: fall-through without return")
        s, rest = stmts[0], stmts[1:]
        if isinstance(s, ast.Expr) and isinstance(s.value, ast.Constant) and isinstance(s.value.value, str):
            return self.block(rest, env)
        if isinstance(s, ast.Return):
            if s.value is None:
                fail(s, "bare return")
            return self.ret(s.value, env)
        if isinstance(s, ast.Raise):
            if s.exc is None:
                return f"Err {env['__caught__'][1]}" if '__caught__' in env else fail(s, "bare raise")
            name = s.exc.func.id if isinstance(s.exc, ast.Call) and isinstance(s.exc.func, ast.Name) \
                else s.exc.id if isinstance(s.exc, ast.Name) else None
            if name not in ERR:
                fail(s, "exception class")
            return f"Err {ERR[name]}"
        if isinstance(s, ast.Assert):
            return self.branch(s.test, env, lambda e2: self.block(rest, e2), lambda e2: "Err EAssertion")
        if isinstance(s, ast.If):
            if all(self.ends(b) for b in (s.body, s.orelse)) and s.orelse:
                if rest:
                    pass        # unreachable statements after a total if/else are ignored
                return self.branch(s.test, env, lambda e2: self.block(s.body, e2),
                                   lambda e2: self.block(s.orelse, e2))
            if self.ends(s.body):
                return self.branch(s.test, env, lambda e2: self.block(s.body, e2),
                                   lambda e2: self.block((s.orelse or []) + rest, e2))
            if not s.orelse:
                # body falls through into the rest
                return self.branch(s.test, env, lambda e2: self.block(s.body + rest, e2),
                                   lambda e2: self.block(rest, e2))
            return self.branch(s.test, env, lambda e2: self.block(s.body + rest, e2),
                               lambda e2: self.block(s.orelse + rest, e2))
        if isinstance(s, ast.Assign) and len(s.targets) == 1 and isinstance(s.targets[0], ast.Name):
            name, v = s.targets[0].id, s.value
            if isinstance(v, ast.Constant) and isinstance(v.value, str):
                return self.block(rest, env)                     # message text
            cu = self.class_unit(v, env)
            if cu:
                return self.block(rest, dict(env, **{name: ('class', cu)}))
            # x = <qty>.equiv_amount(<unit>)
            if isinstance(v, ast.Call) and isinstance(v.func, ast.Attribute) \
                    and v.func.attr == 'equiv_amount' and len(v.args) == 1 \
                    and isinstance(v.func.value, ast.Name) \
                    and env.get(v.func.value.id, (None,))[0] == 'qty':
                u = self.unit_of(v.args[0], env)
                if u:
                    x = self.new(name)
                    return (f"bind (equiv_amount_impl ce {env[v.func.value.id][1]} {u}) (fun {x} =>\n"
                            f"{self.block(rest, dict(env, **{name: ('optq', x)}))})")
            # x = <unit>._get_factor(<unit>)  outside a try: exceptions propagate
            if isinstance(v, ast.Call) and isinstance(v.func, ast.Attribute) \
                    and v.func.attr == '_get_factor' and len(v.args) == 1:
                a, b = self.unit_of(v.func.value, env), self.unit_of(v.args[0], env)
                if a and b:
                    x = self.new(name)
                    return (f"bind (get_factor_impl {a} {b}) (fun {x} =>\n"
                            f"{self.block(rest, dict(env, **{name: ('optq', x)}))})")
            fail(s, "assignment")
        if isinstance(s, ast.Try) and len(s.body) == 1 and len(s.handlers) == 1 \
                and not s.finalbody and isinstance(s.body[0], ast.Assign):
            a = s.body[0]
            h = s.handlers[0]
            v = a.value
            t = a.targets[0]
            # factor, offset = self._unit_map[(u1, u2)]   except KeyError: ...
            if isinstance(h.type, ast.Name) and h.type.id == 'KeyError' and h.name is None \
                    and isinstance(t, ast.Tuple) and len(t.elts) == 2 \
                    and all(isinstance(x, ast.Name) for x in t.elts) \
                    and isinstance(v, ast.Subscript) and isinstance(v.value, ast.Attribute) \
                    and v.value.attr == '_unit_map' and isinstance(v.value.value, ast.Name) \
                    and env.get(v.value.value.id, (None,))[0] == 'table' \
                    and isinstance(v.slice, ast.Tuple) and len(v.slice.elts) == 2:
                ua, ub = (self.unit_of(x, env) for x in v.slice.elts)
                if ua and ub:
                    f, o = self.new(t.elts[0].id), self.new(t.elts[1].id)
                    ok_env = dict(env, **{t.elts[0].id: ('q', f), t.elts[1].id: ('q', o)})
                    return (f"match table_get {env[v.value.value.id][1]} (u_id {ua}) (u_id {ub}) with\n"
                            f"| Some ({f}, {o}) => {self.block((s.orelse or []) + rest, ok_env)}\n"
                            f"| None => {self.block(h.body + rest, env)}\nend")
            if isinstance(h.type, ast.Name) and h.type.id in ERR and h.name is None \
                    and isinstance(a.targets[0], ast.Name) and isinstance(v, ast.Call) \
                    and isinstance(v.func, ast.Attribute) and v.func.attr == '_get_factor' \
                    and len(v.args) == 1:
                ua, ub = self.unit_of(v.func.value, env), self.unit_of(v.args[0], env)
                if ua and ub:
                    name = a.targets[0].id
                    x = self.new(name)
                    caught = ERR[h.type.id]
                    e = self.new('e')
                    henv = dict(env, __caught__=('err', caught))
                    ok_env = dict(env, **{name: ('optq', x)})
                    return (f"match get_factor_impl {ua} {ub} with\n"
                            f"| Err {caught} => {self.block(h.body, henv)}\n"
                            f"| Err {e} => Err {e}\n"
                            f"| Ok {x} => {self.block((s.orelse or []) + rest, ok_env)}\nend")
            fail(s, "try")
        if isinstance(s, ast.For):
            return self.conv_loop(s, rest, env)
        fail(s, "statement")

    def conv_loop(self, s, rest, env):
        """for conv in <class>.registered_converters():
               amnt = conv(self, unit)
               if amnt is not None:      (or: if amnt:)
                   return amnt
           -> first answer of the converters, most recently registered first"""
        it = s.iter
        if not (isinstance(it, ast.Call) and isinstance(it.func, ast.Attribute)
                and it.func.attr == 'registered_converters' and not it.args
                and self.class_unit(it.func.value, env) and isinstance(s.target, ast.Name)
                and not s.orelse and len(s.body) == 2):
            fail(s, "for loop")
        cu = self.class_unit(it.func.value, env)
        a, c = s.body
        if not (isinstance(a, ast.Assign) and isinstance(a.targets[0], ast.Name)
                and isinstance(a.value, ast.Call) and isinstance(a.value.func, ast.Name)
                and a.value.func.id == s.target.id and len(a.value.args) == 2
                and isinstance(a.value.args[0], ast.Name)
                and env.get(a.value.args[0].id, (None,))[0] == 'qty'
                and self.unit_of(a.value.args[1], env)):
            fail(s, "loop body: converter call")
        q, u = env[a.value.args[0].id][1], self.unit_of(a.value.args[1], env)
        var = a.targets[0].id
        if not (isinstance(c, ast.If) and not c.orelse and len(c.body) == 1
                and isinstance(c.body[0], ast.Return) and isinstance(c.body[0].value, ast.Name)
                and c.body[0].value.id == var):
            fail(s, "loop body: return of the answer")
        t = c.test
        if isinstance(t, ast.Compare) and len(t.ops) == 1 and isinstance(t.ops[0], ast.IsNot) \
                and isinstance(t.left, ast.Name) and t.left.id == var \
                and isinstance(t.comparators[0], ast.Constant) and t.comparators[0].value is None:
            accept = "accept_not_none"
        elif isinstance(t, ast.Name) and t.id == var:
            accept = "accept_truthy"
        else:
            fail(t, "loop body: acceptance test")
        if self.fn.rtype != 'optq':
            fail(s, "loop in a function that does not return an optional number")
        after = self.block(rest, env)
        return (f"bind (first_answer {accept} (ce (u_cls {cu})) {q} {u}) (fun r0 =>\n"
                f"match r0 with\n| Some a0 => Ok (Some a0)\n| None => {after}\nend)")

    def ends(self, stmts):
        if not stmts:
            return False
        last = stmts[-1]
        if isinstance(last, (ast.Return, ast.Raise)):
            return True
        if isinstance(last, ast.If):
            return bool(last.orelse) and self.ends(last.body) and self.ends(last.orelse)
        if isinstance(last, ast.Try):
            return self.ends(last.orelse or last.body) and all(self.ends(h.body) for h in last.handlers)
        return False


def find_method(tree, cls, name):
    for n in tree.body:
        if isinstance(n, ast.ClassDef) and n.name == cls:
            ms = [m for m in n.body if isinstance(m, ast.FunctionDef) and m.name == name]
            if len(ms) != 1:
                raise Unsupported(f"{cls}.{name}: {len(ms)} definitions")
            if ms[0].decorator_list:
                raise Unsupported(f"{cls}.{name}: decorated")
            return ms[0]
    raise Unsupported(f"class {cls} not found")


PRELUDE = '''(* GENERATED by /verif/translate/qlayer.py from src/quantity/__init__.py
   (Unit.__eq__, Unit._get_factor, Unit._compare, Quantity.equiv_amount, convert,
   __eq__, _compare, __add__, __sub__; the wrappers __lt__ / __le__ / __gt__ / __ge__ of
   both classes are checked to pass the operator of their name) and src/quantity/converter.py
   (TableConverter._get_factor, Converter.__call__).
   Do not edit; rewritten on every run. *)
From QV Require Import Model.Num Model.Rounding Model.Quantity.
Open Scope Z_scope.

(* `for conv in converters: a = conv(q, u); if <accept a>: return a` *)
Definition accept_not_none (a : option Q) : bool := match a with Some _ => true | None => false end.
Definition accept_truthy (a : option Q) : bool :=
  match a with Some x => negb (qzero x) | None => false end.
'''

# emitted after the translated Converter.__call__ (the loop calls the converters)
FIRST_ANSWER = '''Fixpoint first_answer (accept : option Q -> bool) (cs : list table) (q : qty) (to : unit)
    : res (option Q) :=
  match cs with
  | [] => Ok None
  | t :: r => bind (table_call_impl t q to) (fun a =>
              if accept a then Ok a else first_answer accept r q to)
  end.
'''


def check_cmp_wrappers(tree):
    """__lt__/__le__/__gt__/__ge__ of Unit and Quantity: `return self._compare(other, operator.xx)`
    with the operator of the same name"""
    for cls in ('Unit', 'Quantity'):
        for op in ('lt', 'le', 'gt', 'ge'):
            m = find_method(tree, cls, f'__{op}__')
            body = [x for x in m.body
                    if not (isinstance(x, ast.Expr) and isinstance(x.value, ast.Constant))]
            want = ast.dump(ast.parse(f"self._compare(other, operator.{op})").body[0].value)
            if not (len(body) == 1 and isinstance(body[0], ast.Return)
                    and ast.dump(body[0].value) == want
                    and [a.arg for a in m.args.args] == ['self', 'other']):
                raise Unsupported(f"{cls}.__{op}__ is not `return self._compare(other, operator.{op})`")


def generate(path):
    """path: src/quantity/__init__.py; converter.py is taken from the same directory"""
    import os
    trees = {}
    out = [PRELUDE]
    for fn in sorted(FUNCS, key=lambda f: f.file != 'converter.py'):
        if fn.file != 'converter.py' and FIRST_ANSWER not in out:
            out.append(FIRST_ANSWER)
        fp = os.path.join(os.path.dirname(path), fn.file)
        if fp not in trees:
            trees[fp] = ast.parse(open(fp, encoding='utf-8').read())
            if fn.file == '__init__.py':
                check_cmp_wrappers(trees[fp])
        m = find_method(trees[fp], fn.cls, fn.name)
        names = [a.arg for a in m.args.args]
        if names != [p for p, _ in fn.params] or m.args.vararg or m.args.kwarg \
                or m.args.kwonlyargs or m.args.defaults:
            raise Unsupported(f"{fn.cls}.{fn.name}: signature {names}")
        tr = Tr(fn)
        env = {p: (t, p) for p, t in fn.params}
        body = tr.block(m.body, env)
        params = ' '.join(f"({p} : {COQTYPE[t]})" for p, t in fn.params)
        needs_ce = '(ce ' in body or 'equiv_amount_impl ce' in body
        needs_dm = ' dm ' in body
        pre = ('(ce : convenv) ' if needs_ce else '') + ('(dm : mode) ' if needs_dm else '')
        out.append(f"(* {fn.cls}.{fn.name} ({fn.file}) *)\nDefinition {fn.coqname} {pre}{params} "
                   f": res ({COQTYPE[fn.rtype]}) :=\n{body}.\n")
    return "\n".join(out)


if __name__ == '__main__':
    import sys
    print(generate(sys.argv[1] if len(sys.argv) > 1 else '/repo/src/quantity/__init__.py'))
