"""Fail-closed translation of quantity._floordiv_rounded and
quantity._quantize_fraction (src/quantity/__init__.py) to Gallina.

Output: coq/Gen/RoundingImpl.v.  Anything the translator does not understand
raises Unsupported; the caller reports the obligation "model regenerated" as
broken instead of silently keeping an old model.
"""
import ast

MODES = {'ROUND_05UP': 'M05UP', 'ROUND_CEILING': 'MCEIL', 'ROUND_DOWN': 'MDOWN',
         'ROUND_FLOOR': 'MFLOOR', 'ROUND_HALF_DOWN': 'MHDOWN',
         'ROUND_HALF_EVEN': 'MHEVEN', 'ROUND_HALF_UP': 'MHUP', 'ROUND_UP': 'MUP'}


class Unsupported(Exception):
    pass


def fail(node, why):
    raise Unsupported(f"line {getattr(node, 'lineno', '?')}: {why}: "
                      f"{ast.dump(node)[:160]}")


# ------------------------------------------------------------ integer code

def expr(e, env):
    """Integer-valued expression -> Gallina (Z)."""
    if isinstance(e, ast.Constant) and isinstance(e.value, int) \
            and not isinstance(e.value, bool):
        return f"{e.value}" if e.value >= 0 else f"({e.value})"
    if isinstance(e, ast.Name):
        if env.get(e.id) == 'Z':
            return e.id
        fail(e, "unknown or non-integer name")
    if isinstance(e, ast.UnaryOp) and isinstance(e.op, ast.USub):
        return f"(- {expr(e.operand, env)})"
    if isinstance(e, ast.BinOp):
        l, r = expr(e.left, env), expr(e.right, env)
        ops = {ast.Add: '+', ast.Sub: '-', ast.Mult: '*'}
        if type(e.op) in ops:
            return f"({l} {ops[type(e.op)]} {r})"
        if isinstance(e.op, ast.Mod):        # Python % == Coq Z.modulo (floor)
            return f"({l} mod {r})"
        if isinstance(e.op, ast.FloorDiv):   # Python // == Coq Z.div (floor)
            return f"({l} / {r})"
        fail(e, "operator")
    if isinstance(e, ast.Call) and isinstance(e.func, ast.Name) \
            and e.func.id == 'abs' and len(e.args) == 1 and not e.keywords:
        return f"(Z.abs {expr(e.args[0], env)})"
    fail(e, "int expression")


def bexpr(e, env):
    """Boolean expression -> Gallina (bool)."""
    if isinstance(e, ast.BoolOp):
        op = '&&' if isinstance(e.op, ast.And) else '||'
        return '(' + f' {op} '.join(bexpr(v, env) for v in e.values) + ')'
    if isinstance(e, ast.UnaryOp) and isinstance(e.op, ast.Not):
        return f"(negb {bexpr(e.operand, env)})"
    if isinstance(e, ast.Compare) and len(e.ops) == 1:
        op, rhs = e.ops[0], e.comparators[0]
        if isinstance(e.left, ast.Name) and e.left.id == 'rounding' \
                and isinstance(op, ast.Eq) and isinstance(rhs, ast.Attribute) \
                and isinstance(rhs.value, ast.Name) \
                and rhs.value.id == 'ROUNDING' and rhs.attr in MODES:
            return f"(mode_eqb m {MODES[rhs.attr]})"
        l, r = expr(e.left, env), expr(rhs, env)
        cmps = {ast.Eq: '=?', ast.Lt: '<?', ast.LtE: '<=?', ast.Gt: '>?',
                ast.GtE: '>=?'}
        if type(op) in cmps:
            return f"({l} {cmps[type(op)]} {r})"
        if isinstance(op, ast.NotEq):
            return f"(negb ({l} =? {r}))"
    fail(e, "bool expression")


def ends(stmts):
    """True if every path through stmts returns or raises."""
    if not stmts:
        return False
    last = stmts[-1]
    if isinstance(last, (ast.Return, ast.Raise)):
        return True
    if isinstance(last, ast.If):
        return ends(last.body) and ends(last.orelse)
    return False


def block(stmts, env):
    """Statement list ending in return/raise on every path -> option Z."""
    if not stmts:
        raise Unsupported("fall-through without return")
    s, rest = stmts[0], stmts[1:]
    if isinstance(s, ast.Expr) and isinstance(s.value, ast.Constant) \
            and isinstance(s.value.value, str):
        return block(rest, env)         # docstring
    if isinstance(s, ast.Return):
        if s.value is None:
            fail(s, "bare return")
        return f"Some {expr(s.value, env)}"
    if isinstance(s, ast.Raise):
        return "None"
    if isinstance(s, ast.Assign) and len(s.targets) == 1:
        t = s.targets[0]
        if isinstance(t, ast.Tuple) and isinstance(s.value, ast.Call) \
                and isinstance(s.value.func, ast.Name) \
                and s.value.func.id == 'divmod' and len(t.elts) == 2 \
                and len(s.value.args) == 2 and not s.value.keywords \
                and all(isinstance(x, ast.Name) for x in t.elts):
            a, b = (expr(x, env) for x in s.value.args)
            n1, n2 = t.elts[0].id, t.elts[1].id
            if 'rounding' in (n1, n2):
                fail(s, "assignment to rounding")
            env2 = dict(env, **{n1: 'Z', n2: 'Z'})
            return (f"let {n1} := ({a} / {b}) in let {n2} := ({a} mod {b}) in\n"
                    f"{block(rest, env2)}")
        if isinstance(t, ast.Tuple) and isinstance(s.value, ast.Tuple) \
                and len(t.elts) == len(s.value.elts) \
                and all(isinstance(x, ast.Name) for x in t.elts):
            vals = [expr(v, env) for v in s.value.elts]   # simultaneous
            names = [x.id for x in t.elts]
            if 'rounding' in names or len(set(names)) != len(names) \
                    or any(n in env for n in names):
                fail(s, "tuple assignment shadows a live name")
            env2 = dict(env)
            out = ""
            for n, v in zip(names, vals):
                out += f"let {n} := {v} in "
                env2[n] = 'Z'
            return out + "\n" + block(rest, env2)
        if isinstance(t, ast.Name):
            if t.id == 'rounding':
                fail(s, "assignment to rounding outside the default idiom")
            env2 = dict(env, **{t.id: 'Z'})
            return f"let {t.id} := {expr(s.value, env)} in\n{block(rest, env2)}"
    if isinstance(s, ast.If):
        tst = s.test
        # `if rounding is None: rounding = get_dflt_rounding_mode()`:
        # the model's `m` is the effective mode, so the statement is a no-op.
        if isinstance(tst, ast.Compare) and isinstance(tst.left, ast.Name) \
                and tst.left.id == 'rounding' and len(tst.ops) == 1 \
                and isinstance(tst.ops[0], ast.Is) \
                and isinstance(tst.comparators[0], ast.Constant) \
                and tst.comparators[0].value is None and not s.orelse \
                and len(s.body) == 1 and isinstance(s.body[0], ast.Assign) \
                and ast.unparse(s.body[0]) == \
                'rounding = get_dflt_rounding_mode()':
            return block(rest, env)
        c = bexpr(tst, env)

        def branch(b):
            return block(b + rest, env) if not ends(b) else block(b, env)
        return (f"if {c}\nthen ({branch(s.body)})\n"
                f"else ({branch(s.orelse)})")
    fail(s, "statement")


def translate_floordiv_rounded(tree):
    fn = next((n for n in tree.body if isinstance(n, ast.FunctionDef)
               and n.name == '_floordiv_rounded'), None)
    if fn is None:
        raise Unsupported("_floordiv_rounded not found")
    args = [a.arg for a in fn.args.args]
    if args != ['x', 'y', 'rounding'] or fn.args.vararg or fn.args.kwarg \
            or fn.args.kwonlyargs or fn.decorator_list:
        raise Unsupported(f"unexpected signature {args}")
    dflts = fn.args.defaults
    if len(dflts) != 1 or not (isinstance(dflts[0], ast.Constant)
                               and dflts[0].value is None):
        raise Unsupported("unexpected defaults")
    body = block(fn.body, {'x': 'Z', 'y': 'Z'})
    return ("Definition floordiv_rounded (x y : Z) (m : mode) : option Z :=\n"
            + body + ".\n")


# -------------------------------------------------- _quantize_fraction

def translate_quantize_fraction(tree):
    """The function must be exactly of the shape
         quot = self / quant
         mult = _floordiv_rounded(quot.numerator, quot.denominator,
                                  rounding=rounding)
         return mult * quant
    (names free); Fraction division = exact rational division in lowest
    terms with a positive denominator = Qred (Qdiv ..) of the model."""
    fn = next((n for n in tree.body if isinstance(n, ast.FunctionDef)
               and n.name == '_quantize_fraction'), None)
    if fn is None:
        raise Unsupported("_quantize_fraction not found")
    args = [a.arg for a in fn.args.args]
    if args != ['self', 'quant', 'rounding'] or fn.decorator_list:
        raise Unsupported(f"unexpected signature {args}")
    stmts = [s for s in fn.body
             if not (isinstance(s, ast.Expr) and isinstance(s.value, ast.Constant)
                     and isinstance(s.value.value, str))]
    if len(stmts) != 3:
        raise Unsupported("_quantize_fraction: expected 3 statements")
    s1, s2, s3 = stmts
    # quot = self / quant
    if isinstance(s1, ast.AnnAssign):
        tgt, val = s1.target, s1.value
    elif isinstance(s1, ast.Assign) and len(s1.targets) == 1:
        tgt, val = s1.targets[0], s1.value
    else:
        fail(s1, "statement 1")
    if not (isinstance(tgt, ast.Name) and isinstance(val, ast.BinOp)
            and isinstance(val.op, ast.Div)
            and isinstance(val.left, ast.Name) and val.left.id == 'self'
            and isinstance(val.right, ast.Name) and val.right.id == 'quant'):
        fail(s1, "statement 1 must be  <q> = self / quant")
    qn = tgt.id
    # mult = _floordiv_rounded(q.numerator, q.denominator, rounding=rounding)
    if not (isinstance(s2, ast.Assign) and len(s2.targets) == 1
            and isinstance(s2.targets[0], ast.Name)
            and isinstance(s2.value, ast.Call)
            and isinstance(s2.value.func, ast.Name)
            and s2.value.func.id == '_floordiv_rounded'):
        fail(s2, "statement 2")
    call = s2.value
    a = [ast.unparse(x) for x in call.args]
    k = {kw.arg: ast.unparse(kw.value) for kw in call.keywords}
    if not ((a == [f'{qn}.numerator', f'{qn}.denominator']
             and k == {'rounding': 'rounding'})
            or (a == [f'{qn}.numerator', f'{qn}.denominator', 'rounding']
                and k == {})):
        fail(s2, "arguments of _floordiv_rounded")
    mn = s2.targets[0].id
    # return mult * quant
    if not (isinstance(s3, ast.Return) and isinstance(s3.value, ast.BinOp)
            and isinstance(s3.value.op, ast.Mult)
            and {ast.unparse(s3.value.left), ast.unparse(s3.value.right)}
            == {mn, 'quant'}):
        fail(s3, "statement 3 must be  return <mult> * quant")
    return (
        "Definition quantize_fraction (self quant : Q) (m : mode) : option Q :=\n"
        f"let {qn} := qdiv self quant in\n"
        f"match floordiv_rounded (Qnum {qn}) (Zpos (Qden {qn})) m with\n"
        f"| Some {mn} => Some (qmul (qz {mn}) quant)\n"
        "| None => None\nend.\n")


def generate(src_path):
    src = open(src_path, encoding='utf-8').read()
    tree = ast.parse(src)
    out = ["(* GENERATED by /verif/translate/rounding.py from",
           "   src/quantity/__init__.py (_floordiv_rounded, _quantize_fraction).",
           "   Do not edit; rewritten on every run. *)",
           "From QV Require Import Model.Num.",
           "Open Scope Z_scope.", "",
           translate_floordiv_rounded(tree), "",
           translate_quantize_fraction(tree)]
    return "\n".join(out)


if __name__ == '__main__':
    import sys
    try:
        print(generate(sys.argv[1] if len(sys.argv) > 1
                       else '/repo/src/quantity/__init__.py'))
    except Unsupported as e:
        print("TRANSLATION FAILED (fail-closed):", e, file=sys.stderr)
        sys.exit(2)
