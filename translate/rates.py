"""Fail-closed translation of the exchange-rate arithmetic of
src/quantity/money/__init__.py — ExchangeRate.__init__ (from the identity test of
the two currencies on), the properties rate / inverse_rate / quotation,
inverted, __eq__, and the rate-by-rate branches of __mul__ and __truediv__ — to
Gallina over the types of Model/Rates.v.

Output: coq/Gen/RatesImpl.v.  Proofs/GenRatesEq.v proves every generated function
equal, on all inputs, to the hand-written `mk_rate`, `rate_of`, `inverse_rate`,
`inverted`, `rate_eqb`, `rate_mul`, `rate_div` that the theorems of C09 are about.

Typed: currencies are ids (N; `is` on them is id equality, `isinstance(x,
Currency)` is true, so the resolution of currency *codes* in __init__ is outside
this translation — it stays hand-modelled in Model/RatesExt.v), numbers are exact
rationals (Q), exponents are integers (Z).

Trusted representation (DESIGN.md section 4):
  * `Decimal(x).adjusted()` keeps the value; `d.precision > 0` says "d is not an
    integer"; a unit multiple that is no decimal number raises ValueError in
    `Decimal(x)` already — the same exception the next test raises;
  * `d.magnitude` and `int(math.floor(math.log10(x)))` are both floor(log10 x):
    the model's exact `magnitude` (the float log10 is a documented limit, section 9);
    an `if isinstance(x, Decimal)` whose two branches translate to the same term is
    that term;
  * `Decimal(10) ** k` is `pow10 k`, `Decimal("<literal>")` its exact value,
    `Decimal(x, 6)` is `round6 dm x` (decimalfp rounding, default mode);
  * converting a non-Decimal term amount to a Fraction changes the representation
    only (and cannot fail for a number);
  * tuple equality of quotations is component-wise.
"""
import ast
from fractions import Fraction


class Unsupported(Exception):
    pass


def fail(node, why):
    raise Unsupported(f"line {getattr(node, 'lineno', '?')}: {why}: "
                      f"{ast.unparse(node)[:160] if isinstance(node, ast.AST) else node}")


CUR_ATTR = {'unit_currency': 'r_unit', '_unit_currency': 'r_unit',
            'term_currency': 'r_term', '_term_currency': 'r_term'}
NUM_ATTR = {'_term_amount': 'r_amt', '_unit_multiple': 'r_mult'}
PROP = {'rate': 'rate_of_impl', 'inverse_rate': 'inverse_rate_impl'}


def qlit(fr):
    return f"({fr.numerator} # {fr.denominator})" if fr.denominator != 1 else \
        ("0" if fr.numerator == 0 else "1" if fr.numerator == 1 else f"(qz ({fr.numerator}))")


class Tr:
    def typ(self, e, env, t):
        return isinstance(e, ast.Name) and env.get(e.id, (None,))[0] == t

    def cur(self, e, env):
        if self.typ(e, env, 'cur'):
            return env[e.id][1]
        if isinstance(e, ast.Attribute) and e.attr in CUR_ATTR and self.typ(e.value, env, 'rate'):
            return f"({CUR_ATTR[e.attr]} {env[e.value.id][1]})"
        if isinstance(e, ast.Attribute) and e.attr in ('_unit_currency', '_term_currency') \
                and isinstance(e.value, ast.Name) and e.value.id == 'self' \
                and ('self.' + e.attr) in env:
            return env['self.' + e.attr][1]
        return None

    def z(self, e, env):
        if isinstance(e, ast.Constant) and type(e.value) is int:
            return f"({e.value})"
        if self.typ(e, env, 'z'):
            return env[e.id][1]
        if isinstance(e, ast.Attribute) and e.attr == 'magnitude':
            q = self.q(e.value, env)
            if q:
                return f"(magnitude {q})"
        if isinstance(e, ast.BinOp) and isinstance(e.op, (ast.Add, ast.Sub)):
            a, b = self.z(e.left, env), self.z(e.right, env)
            if a and b:
                return f"({a} {'+' if isinstance(e.op, ast.Add) else '-'} {b})"
        if isinstance(e, ast.Call) and isinstance(e.func, ast.Name) and e.func.id in ('min', 'max') \
                and len(e.args) == 2 and not e.keywords:
            a, b = self.z(e.args[0], env), self.z(e.args[1], env)
            if a and b:
                return f"(Z.{e.func.id} {a} {b})"
        # int(math.floor(math.log10(x)))
        if isinstance(e, ast.Call) and ast.unparse(e.func) == 'int' and len(e.args) == 1:
            f = e.args[0]
            if isinstance(f, ast.Call) and ast.unparse(f.func) == 'math.floor' and len(f.args) == 1:
                g = f.args[0]
                if isinstance(g, ast.Call) and ast.unparse(g.func) == 'math.log10' and len(g.args) == 1:
                    q = self.q(g.args[0], env)
                    if q:
                        return f"(magnitude {q})"
        return None

    def q(self, e, env):
        if self.typ(e, env, 'q'):
            return env[e.id][1]
        if isinstance(e, ast.Name) and e.id == 'ONE':
            return "1"
        if isinstance(e, ast.Attribute) and self.typ(e.value, env, 'rate'):
            r = env[e.value.id][1]
            if e.attr in NUM_ATTR:
                return f"({NUM_ATTR[e.attr]} {r})"
            if e.attr in PROP:
                return f"({PROP[e.attr]} {r})"
        if isinstance(e, ast.BinOp):
            ops = {ast.Add: 'qadd', ast.Sub: 'qsub', ast.Mult: 'qmul', ast.Div: 'qdiv'}
            if type(e.op) in ops:
                a, b = self.q(e.left, env), self.q(e.right, env)
                if a and b:
                    return f"({ops[type(e.op)]} {a} {b})"
            # Decimal(10) ** k
            if isinstance(e.op, ast.Pow) and ast.unparse(e.left) == 'Decimal(10)':
                k = self.z(e.right, env)
                if k:
                    return f"(pow10 {k})"
        if isinstance(e, ast.Call) and isinstance(e.func, ast.Name) and e.func.id == 'Decimal' \
                and not e.keywords:
            if len(e.args) == 1 and isinstance(e.args[0], ast.Constant) \
                    and isinstance(e.args[0].value, str):
                try:
                    return qlit(Fraction(e.args[0].value))
                except ValueError:
                    fail(e, "Decimal literal")
            if len(e.args) == 2 and isinstance(e.args[1], ast.Constant) \
                    and type(e.args[1].value) is int:
                x = self.q(e.args[0], env)
                if x:
                    return f"(dec_round dm {x} ({e.args[1].value}))"
        # Decimal(x).adjusted(): same value
        if isinstance(e, ast.Call) and isinstance(e.func, ast.Attribute) and e.func.attr == 'adjusted' \
                and not e.args and isinstance(e.func.value, ast.Call) \
                and ast.unparse(e.func.value.func) == 'Decimal' and len(e.func.value.args) == 1:
            return self.q(e.func.value.args[0], env)
        return None

    def cond(self, e, env):
        if isinstance(e, ast.UnaryOp) and isinstance(e.op, ast.Not):
            c = self.cond(e.operand, env)
            return {'true': 'false', 'false': 'true'}.get(c, f"(negb {c})")
        if isinstance(e, ast.Call) and ast.unparse(e.func) == 'isinstance' and len(e.args) == 2:
            x, t = e.args
            if ast.unparse(t) == 'Currency' and self.cur(x, env):
                return 'true'
            if ast.unparse(t) == 'ExchangeRate' and self.typ(x, env, 'rate'):
                return 'true'
            fail(e, "isinstance")
        if isinstance(e, ast.Compare) and len(e.ops) == 1:
            op, a, b = e.ops[0], e.left, e.comparators[0]
            if isinstance(op, (ast.Is, ast.IsNot)):
                ca, cb = self.cur(a, env), self.cur(b, env)
                if ca and cb:
                    t = f"(N.eqb {ca} {cb})"
                    return f"(negb {t})" if isinstance(op, ast.IsNot) else t
            # d.precision > 0: d is not an integer
            if isinstance(op, ast.Gt) and isinstance(a, ast.Attribute) and a.attr == 'precision' \
                    and ast.unparse(b) == '0':
                x = self.q(a.value, env)
                if x:
                    return f"(negb (is_integral {x}))"
            qa, qb = self.q(a, env), self.q(b, env)
            if qa is None and isinstance(a, ast.Constant) and type(a.value) is int:
                qa = qlit(Fraction(a.value))
            if qb is None and isinstance(b, ast.Constant) and type(b.value) is int:
                qb = qlit(Fraction(b.value))
            if qa and qb:
                t = {ast.Lt: f"(qltb {qa} {qb})", ast.LtE: f"(qleb {qa} {qb})",
                     ast.Gt: f"(qltb {qb} {qa})", ast.GtE: f"(qleb {qb} {qa})",
                     ast.Eq: f"(qeqb {qa} {qb})", ast.NotEq: f"(negb (qeqb {qa} {qb}))"}.get(type(op))
                if t:
                    return t
            # quotation == quotation
            if isinstance(op, ast.Eq) and all(isinstance(x, ast.Attribute) and x.attr == 'quotation'
                                              and self.typ(x.value, env, 'rate') for x in (a, b)):
                return (f"(quot_eqb (quotation_impl {env[a.value.id][1]}) "
                        f"(quotation_impl {env[b.value.id][1]}))")
        fail(e, "condition")

    # ------------------------------------------------------------ rate-valued code
    def new_rate(self, e, env):
        """ExchangeRate(cur, number, cur, number)"""
        if isinstance(e, ast.Call) and ast.unparse(e.func) == 'ExchangeRate' and len(e.args) == 4 \
                and not e.keywords:
            u, m, t, a = (self.cur(e.args[0], env), self.q(e.args[1], env),
                          self.cur(e.args[2], env), self.q(e.args[3], env))
            if u and m and t and a:
                return f"mk_rate_impl dm {u} {m} {t} {a}"
        fail(e, "ExchangeRate(...)")

    def rate_block(self, stmts, env):
        """if / elif / else of `is` tests ending in `return ExchangeRate(...)` / `raise ValueError`"""
        stmts = [s for s in stmts if not (isinstance(s, ast.Expr) and isinstance(s.value, ast.Constant))]
        if not stmts:
            fail('?', "fall-through")
        s, rest = stmts[0], stmts[1:]
        if isinstance(s, ast.Return):
            if ast.unparse(s.value) == 'NotImplemented':
                return "Err ETypeError"
            return self.new_rate(s.value, env)
        if isinstance(s, ast.Raise):
            n = s.exc.func.id if isinstance(s.exc, ast.Call) and isinstance(s.exc.func, ast.Name) else None
            if n == 'ValueError':
                return "Err EValueError"
            if n == 'TypeError':
                return "Err ETypeError"
            fail(s, "exception")
        if isinstance(s, ast.If):
            c = self.cond(s.test, env)
            els = (s.orelse or []) + ([] if self.ends(s.body) else [])
            if not self.ends(s.body):
                fail(s, "branch falls through")
            other = self.rate_block((s.orelse or []) + rest, env)
            then = self.rate_block(s.body, env)
            if c == 'true':
                return then
            if c == 'false':
                return other
            return f"if {c} then {then} else\n{other}"
        fail(s, "statement")

    def ends(self, stmts):
        if not stmts:
            return False
        last = stmts[-1]
        if isinstance(last, (ast.Return, ast.Raise)):
            return True
        if isinstance(last, ast.If):
            return bool(last.orelse) and self.ends(last.body) and self.ends(last.orelse)
        return False

    # ------------------------------------------------------------ __init__
    def init_block(self, stmts, env):
        if not stmts:
            need = ['self._unit_currency', 'self._term_currency', 'self._unit_multiple',
                    'self._term_amount']
            for n in need:
                if n not in env:
                    raise Unsupported(f"__init__: {n} is never assigned")
            return "Ok (mkRate " + " ".join(env[n][1] for n in need) + ")"
        s, rest = stmts[0], stmts[1:]
        if isinstance(s, ast.Expr) and isinstance(s.value, ast.Constant):
            return self.init_block(rest, env)
        if isinstance(s, ast.Assert):
            # assert isinstance(mult, Decimal): true of every power of ten
            t = s.test
            if isinstance(t, ast.Call) and ast.unparse(t.func) == 'isinstance' and len(t.args) == 2 \
                    and ast.unparse(t.args[1]) == 'Decimal' and isinstance(t.args[0], ast.Name) \
                    and env.get(t.args[0].id, ('', ''))[1] in self.powers_of_ten:
                return self.init_block(rest, env)
            fail(s, "assert")
        if isinstance(s, ast.If):
            src = ast.unparse(s.test)
            # resolution of currency codes: dead for a Currency argument
            if src in ('not isinstance(unit_currency, Currency)',
                       'not isinstance(term_currency, Currency)'):
                if self.cond(s.test, env) != 'false' or s.orelse:
                    fail(s, "currency resolution")
                return self.init_block(rest, env)
            # representation only: a number that is no Decimal becomes a Fraction
            if src == 'not isinstance(term_amount, Decimal)':
                want = ("try:\n    term_amount = Fraction(term_amount)\n"
                        "except (ValueError, OverflowError):\n    raise ValueError(M) from None\n"
                        "except TypeError:\n    raise TypeError(M)")
                b = s.body
                ok = len(b) == 1 and isinstance(b[0], ast.Try) and not s.orelse \
                    and len(b[0].body) == 1 and ast.unparse(b[0].body[0]) == 'term_amount = Fraction(term_amount)' \
                    and not b[0].orelse and not b[0].finalbody \
                    and all(len(h.body) == 1 and isinstance(h.body[0], ast.Raise) for h in b[0].handlers)
                if not ok:
                    fail(s, f"expected the conversion {want!r}")
                return self.init_block(rest, env)
            # if isinstance(x, Decimal): v = A else: v = B  with A and B the same term
            if src.startswith('isinstance(') and src.endswith(', Decimal)') and len(s.body) == 1 \
                    and len(s.orelse) == 1 and all(isinstance(x, ast.Assign) and len(x.targets) == 1
                                                   and isinstance(x.targets[0], ast.Name)
                                                   for x in (s.body[0], s.orelse[0])) \
                    and s.body[0].targets[0].id == s.orelse[0].targets[0].id:
                a, b = self.z(s.body[0].value, env), self.z(s.orelse[0].value, env)
                if a and b and a == b:
                    return self.init_block([s.body[0]] + rest, env)
                fail(s, "the two representations are treated differently")
            if s.orelse or not (len(s.body) == 1 and isinstance(s.body[0], ast.Raise)):
                fail(s, "if")
            c = self.cond(s.test, env)
            n = s.body[0].exc.func.id if isinstance(s.body[0].exc, ast.Call) \
                and isinstance(s.body[0].exc.func, ast.Name) else None
            if n != 'ValueError':
                fail(s, "exception")
            return f"if {c} then Err EValueError else\n{self.init_block(rest, env)}"
        if isinstance(s, ast.Assign) and len(s.targets) == 1:
            t = s.targets[0]
            if isinstance(t, ast.Attribute) and isinstance(t.value, ast.Name) and t.value.id == 'self':
                key = 'self.' + t.attr
                if t.attr in ('_unit_currency', '_term_currency'):
                    c = self.cur(s.value, env) or fail(s, "currency")
                    return self.init_block(rest, dict(env, **{key: ('cur', c)}))
                if t.attr in ('_unit_multiple', '_term_amount'):
                    q = self.q(s.value, env) or fail(s, "number")
                    return self.init_block(rest, dict(env, **{key: ('q', q)}))
                fail(s, "attribute")
            if isinstance(t, ast.Name):
                q = self.q(s.value, env)
                if q:
                    v = self.fresh(t.id)
                    if q.startswith('(pow10 '):
                        self.powers_of_ten.add(v)       # a Decimal whatever its name
                    return (f"let {v} := {q} in\n"
                            f"{self.init_block(rest, dict(env, **{t.id: ('q', v)}))}")
                z = self.z(s.value, env)
                if z:
                    v = self.fresh(t.id)
                    return (f"let {v} := {z} in\n"
                            f"{self.init_block(rest, dict(env, **{t.id: ('z', v)}))}")
        fail(s, "statement")

    n = 0
    powers_of_ten = set()

    def fresh(self, base):
        self.n += 1
        return f"{base}{self.n}"


PRELUDE = '''(* GENERATED by /verif/translate/rates.py from src/quantity/money/__init__.py
   (ExchangeRate.__init__, rate, inverse_rate, quotation, inverted, __eq__ and the
   rate-by-rate branches of __mul__ / __truediv__).  Do not edit; rewritten on every run. *)
From QV Require Import Model.Num Model.Rounding Model.Quantity Model.Rates.
Open Scope Z_scope.

(* Decimal(x, n): decimalfp rounding to n fractional digits, default mode *)
Definition dec_round (dm : mode) (x : Q) (n : Z) : Q := round_to_quantum dm x (pow10 (- n)).
(* == on tuples (currency, currency, number) *)
Definition quot_eqb (a b : N * N * Q) : bool :=
  N.eqb (fst (fst a)) (fst (fst b)) && N.eqb (snd (fst a)) (snd (fst b)) && qeqb (snd a) (snd b).
'''


def find(tree, name, decorated=None):
    for n in tree.body:
        if isinstance(n, ast.ClassDef) and n.name == 'ExchangeRate':
            ms = [m for m in n.body if isinstance(m, ast.FunctionDef) and m.name == name
                  and not any(ast.unparse(d) == 'overload' for d in m.decorator_list)]
            if len(ms) != 1:
                raise Unsupported(f"ExchangeRate.{name}: {len(ms)} definitions")
            decs = [ast.unparse(d) for d in ms[0].decorator_list]
            if decs != ([decorated] if decorated else []):
                raise Unsupported(f"ExchangeRate.{name}: decorators {decs}")
            return ms[0]
    raise Unsupported("class ExchangeRate not found")


def body_of(m):
    return [s for s in m.body if not (isinstance(s, ast.Expr) and isinstance(s.value, ast.Constant))]


def args_of(m, want):
    names = [a.arg for a in m.args.args]
    if names != want or m.args.vararg or m.args.kwarg or m.args.kwonlyargs or m.args.defaults:
        raise Unsupported(f"ExchangeRate.{m.name}: signature {names}")


def generate(path):
    tree = ast.parse(open(path, encoding='utf-8').read())
    tr = Tr()
    tr.powers_of_ten = set()
    out = [PRELUDE]
    # properties
    for name, coq, typ in (('rate', 'rate_of_impl', 'Q'), ('inverse_rate', 'inverse_rate_impl', 'Q')):
        m = find(tree, name, 'property')
        args_of(m, ['self'])
        b = body_of(m)
        if len(b) != 1 or not isinstance(b[0], ast.Return):
            fail(m, "property body")
        q = tr.q(b[0].value, {'self': ('rate', 'self')}) or fail(b[0], "number")
        out.append(f"(* ExchangeRate.{name} *)\nDefinition {coq} (self : rate) : {typ} :=\n{q}.\n")
    m = find(tree, 'quotation', 'property')
    args_of(m, ['self'])
    b = body_of(m)
    env = {'self': ('rate', 'self')}
    if len(b) != 1 or not isinstance(b[0], ast.Return) or not isinstance(b[0].value, ast.Tuple) \
            or len(b[0].value.elts) != 3:
        fail(m, "quotation")
    e = b[0].value.elts
    parts = (tr.cur(e[0], env), tr.cur(e[1], env), tr.q(e[2], env))
    if not all(parts):
        fail(m, "quotation")
    out.append(f"(* ExchangeRate.quotation *)\nDefinition quotation_impl (self : rate) : N * N * Q :=\n"
               f"({parts[0]}, {parts[1]}, {parts[2]}).\n")
    # __eq__
    m = find(tree, '__eq__')
    args_of(m, ['self', 'other'])
    b = body_of(m)
    env2 = {'self': ('rate', 'self'), 'other': ('rate', 'other')}
    if not (len(b) == 2 and isinstance(b[0], ast.If) and not b[0].orelse
            and tr.cond(b[0].test, env2) == 'true' and len(b[0].body) == 1
            and isinstance(b[0].body[0], ast.Return) and ast.unparse(b[1]) == 'return False'):
        fail(m, "__eq__")
    out.append(f"(* ExchangeRate.__eq__ (another ExchangeRate) *)\n"
               f"Definition rate_eqb_impl (self other : rate) : bool :=\n"
               f"{tr.cond(b[0].body[0].value, env2)}.\n")
    # __init__
    m = find(tree, '__init__')
    args_of(m, ['self', 'unit_currency', 'unit_multiple', 'term_currency', 'term_amount'])
    env = {'unit_currency': ('cur', 'unit_currency'), 'unit_multiple': ('q', 'unit_multiple'),
           'term_currency': ('cur', 'term_currency'), 'term_amount': ('q', 'term_amount')}
    out.append("(* ExchangeRate.__init__ for currencies and exact numbers *)\n"
               "Definition mk_rate_impl (dm : mode) (unit_currency : N) (unit_multiple : Q)\n"
               "    (term_currency : N) (term_amount : Q) : res rate :=\n"
               f"{tr.init_block(m.body, env)}.\n")
    # inverted
    m = find(tree, 'inverted')
    args_of(m, ['self'])
    out.append("(* ExchangeRate.inverted *)\nDefinition inverted_impl (dm : mode) (self : rate) : res rate :=\n"
               f"{tr.rate_block(m.body, {'self': ('rate', 'self')})}.\n")
    # __mul__ / __truediv__ : the ExchangeRate branch
    for name, coq in (('__mul__', 'rate_mul_impl'), ('__truediv__', 'rate_div_impl')):
        m = find(tree, name)
        args_of(m, ['self', 'other'])
        br = [s for s in body_of(m) if isinstance(s, ast.If)
              and ast.unparse(s.test) == 'isinstance(other, ExchangeRate)']
        if len(br) != 1 or br[0].orelse:
            fail(m, f"{name}: the branch `if isinstance(other, ExchangeRate):`")
        out.append(f"(* ExchangeRate.{name} (another ExchangeRate) *)\n"
                   f"Definition {coq} (dm : mode) (self other : rate) : res rate :=\n"
                   f"{tr.rate_block(br[0].body, env2)}.\n")
    return "\n".join(out)


if __name__ == '__main__':
    import sys
    print(generate(sys.argv[1] if len(sys.argv) > 1 else '/repo/src/quantity/money/__init__.py'))
