"""Generators of coq/Gen/*.v — each returns the file's text or raises
(fail-closed).  Run on every check against /repo's working tree."""
import os

REPO = (os.environ.get('QUANTITY_REPO') or '/repo')


def _rounding():
    from . import rounding
    return rounding.generate(os.path.join(REPO, 'src/quantity/__init__.py'))


def _qlayer():
    from . import qlayer
    return qlayer.generate(os.path.join(REPO, 'src/quantity/__init__.py'))


def _alloc():
    from . import alloc
    return alloc.generate(os.path.join(REPO, 'src/quantity/__init__.py'))


def _rates():
    from . import rates
    return rates.generate(os.path.join(REPO, 'src/quantity/money/__init__.py'))


def _fraction():
    from . import fraction
    return fraction.generate(os.path.join(REPO, 'src/quantity/money/__init__.py'))


def _termops():
    from . import termops
    return termops.generate(os.path.join(REPO, 'src/quantity/term.py'))


def _oplayer():
    from . import oplayer
    return oplayer.generate(os.path.join(REPO, 'src/quantity/__init__.py'))


def _mconv():
    from . import mconv
    return mconv.generate(os.path.join(REPO, 'src/quantity/money/__init__.py'))


def _cstack():
    from . import cstack
    return cstack.generate(os.path.join(REPO, 'src/quantity/__init__.py'))


def _effects():
    from . import effects
    return effects.generate(os.path.join(REPO, 'src/quantity/__init__.py'))


def _hashes():
    from . import hashes
    return hashes.generate(os.path.join(REPO, 'src/quantity/__init__.py'))


def _inventory():
    from . import inventory
    return inventory.generate(os.path.join(REPO, 'src/quantity/__init__.py'))


def _temptable():
    from . import temptable
    return temptable.generate(os.path.join(REPO, 'src/quantity/predefined.py'))


def _isotable():
    from . import isotable
    return isotable.generate()


def _catalogue():
    from . import catalogue
    return catalogue.generate_catalogue()


def _prefixes():
    from . import catalogue
    return catalogue.generate_prefixes()


def _doctables():
    from . import catalogue
    return catalogue.generate_doctables()


GENERATORS = [
    ('RoundingImpl', _rounding),
    ('QuantityImpl', _qlayer),
    ('AllocImpl', _alloc),
    ('RatesImpl', _rates),
    ('FractionImpl', _fraction),
    ('TermOpsImpl', _termops),
    ('OpsImpl', _oplayer),
    ('MoneyConvImpl', _mconv),
    ('ConvStackImpl', _cstack),
    ('EffectsImpl', _effects),
    ('HashImpl', _hashes),
    ('StateInventory', _inventory),
    ('TempTable', _temptable),
    ('IsoTable', _isotable),
    ('Catalogue', _catalogue),
    ('Prefixes', _prefixes),
    ('DocTables', _doctables),
]
