"""Fail-closed translation of the operator layer of src/quantity/term.py —
Term.__mul__ (by a term / by a number; `__rmul__ = __mul__` checked), __truediv__,
__rtruediv__, __pow__, reciprocal and the helper _reciprocal — to Gallina over the
primitives of Model/Term.v.

Output: coq/Gen/TermOpsImpl.v.  Proofs/GenTermOpsEq.v proves the generated functions
equal, on all inputs, to `mul`, `mul_num`, `div`, `div_num`, `rdiv_num`, `pow`,
`reciprocal` of Model/Term.v, the operations the group theorems of C07 are about.

What is translated: which item lists are chained in which order, which operand is
inverted, the item a number contributes (`(other, 1)` / `(other, -1)`), the length
handed to `_reduce_items`, the exponent arithmetic of `__pow__`, and whether the
constructor is asked to reduce again.  What stays hand-modelled (Model/Term.v,
validated by C07's correspondence): `Term._reduce_items` itself, `Term.__init__`
(`mk_term sized reduce`), normalisation, equality and hash.

Trusted representation: a term is its item list; `chain(a, b)` is `a ++ b` and is
an iterator (`lazy`), a generator expression is not Sized; `len(t)` is the number of
items; `_reduce_items`' parameter `keep_item_order` defaults to True (checked in
the signature); the element table `E` (which
elements are base elements, conversion factors) is a parameter; the `isinstance`
chain on the second operand is decided by the
operand's kind, in source order.
"""
import ast


class Unsupported(Exception):
    pass


def fail(node, why):
    raise Unsupported(f"line {getattr(node, 'lineno', '?')}: {why}: "
                      f"{ast.unparse(node)[:160] if isinstance(node, ast.AST) else node}")


class Tr:
    N_ITEMS_KW = 'n_items'

    def __init__(self, kinds):
        self.kinds = kinds          # name -> 'term' | 'num' | 'int'
        self.vars = {}              # local name -> (type, Gallina)

    def n(self, e):
        """length expression -> Gallina N"""
        if isinstance(e, ast.Constant) and type(e.value) is int and e.value >= 0:
            return f"{e.value}"
        if isinstance(e, ast.Name) and self.vars.get(e.id, ('',))[0] == 'n':
            return self.vars[e.id][1]
        if isinstance(e, ast.Call) and ast.unparse(e.func) == 'len' and len(e.args) == 1 \
                and isinstance(e.args[0], ast.Name) and self.kinds.get(e.args[0].id) == 'term':
            return f"nlen {e.args[0].id}"
        if isinstance(e, ast.BinOp) and isinstance(e.op, ast.Add):
            a, b = self.n(e.left), self.n(e.right)
            if a and b:
                return f"({a} + {b})"
        return None

    def items(self, e):
        """iterable of items -> (Gallina list item, lazy?)"""
        if isinstance(e, ast.Name) and self.kinds.get(e.id) == 'term':
            return e.id, False
        if isinstance(e, ast.Name) and self.vars.get(e.id, ('',))[0] == 'items':
            return self.vars[e.id][1], False
        if isinstance(e, ast.Call) and ast.unparse(e.func) == 'chain' and len(e.args) == 2:
            a, b = self.items(e.args[0]), self.items(e.args[1])
            if a and b:
                return f"({a[0]} ++ {b[0]})", True
        if isinstance(e, ast.Call) and ast.unparse(e.func) == '_reciprocal' and len(e.args) == 1:
            a = self.items(e.args[0])
            if a:
                return f"(recip_items_impl {a[0]})", True
        # ((other, k),)
        if isinstance(e, ast.Tuple) and len(e.elts) == 1 and isinstance(e.elts[0], ast.Tuple) \
                and len(e.elts[0].elts) == 2:
            x, k = e.elts[0].elts
            if isinstance(x, ast.Name) and self.kinds.get(x.id) == 'num':
                kk = self.z(k)
                if kk:
                    return f"[(Num {x.id}, {kk})]", False
        return None

    def z(self, e):
        if isinstance(e, ast.Constant) and type(e.value) is int:
            return f"({e.value})"
        if isinstance(e, ast.UnaryOp) and isinstance(e.op, ast.USub):
            x = self.z(e.operand)
            return f"(- {x})" if x else None
        if isinstance(e, ast.Name) and (self.kinds.get(e.id) == 'int'
                                        or self.vars.get(e.id, ('',))[0] == 'z'):
            return self.vars[e.id][1] if e.id in self.vars else e.id
        if isinstance(e, ast.BinOp) and isinstance(e.op, (ast.Mult, ast.Add, ast.Sub)):
            a, b = self.z(e.left), self.z(e.right)
            if a and b:
                return f"({a} {'*' if isinstance(e.op, ast.Mult) else '+' if isinstance(e.op, ast.Add) else '-'} {b})"
        return None

    def genexp(self, e):
        """((elem, <exp expr>) for (elem, exp) in <items>) -> map"""
        if not (isinstance(e, ast.GeneratorExp) and len(e.generators) == 1):
            return None
        g = e.generators[0]
        if g.ifs or g.is_async or not (isinstance(g.target, ast.Tuple) and len(g.target.elts) == 2
                                       and all(isinstance(x, ast.Name) for x in g.target.elts)):
            return None
        src = self.items(g.iter)
        if not src:
            return None
        xe, xk = (x.id for x in g.target.elts)
        if not (isinstance(e.elt, ast.Tuple) and len(e.elt.elts) == 2
                and isinstance(e.elt.elts[0], ast.Name) and e.elt.elts[0].id == xe):
            return None
        save = dict(self.vars)
        self.vars[xk] = ('z', '(snd it)')
        k = self.z(e.elt.elts[1])
        self.vars = save
        if not k:
            return None
        return f"(map (fun it => (fst it, {k})) {src[0]})"

    def new_term(self, e):
        """cls(<items>, reduce_items=<bool>) / self.__class__(...)"""
        if not (isinstance(e, ast.Call) and (ast.unparse(e.func) == 'self.__class__'
                                             or (isinstance(e.func, ast.Name)
                                                 and self.vars.get(e.func.id, ('',))[0] == 'cls'))
                and len(e.args) == 1 and len(e.keywords) <= 1):
            fail(e, "constructor call")
        red = 'true'
        if e.keywords:
            k = e.keywords[0]
            if k.arg != 'reduce_items' or not (isinstance(k.value, ast.Constant)
                                               and isinstance(k.value.value, bool)):
                fail(e, "constructor keyword")
            red = 'true' if k.value.value else 'false'
        g = self.genexp(e.args[0])
        if g:
            return f"mk_term E false {red} {g}"            # a generator is not Sized
        a = self.items(e.args[0])
        if a:
            return f"mk_term E {'false' if a[1] else 'true'} {red} {a[0]}"
        fail(e, "constructor argument")

    def block(self, stmts, other):
        """statements for the given kind of `other` -> Gallina term of type option term
        (None = NotImplemented)"""
        stmts = [s for s in stmts if not (isinstance(s, ast.Expr) and isinstance(s.value, ast.Constant))]
        if not stmts:
            fail('?', "fall-through")
        s, rest = stmts[0], stmts[1:]
        if isinstance(s, ast.Return):
            if ast.unparse(s.value) == 'NotImplemented':
                return "None"
            return f"Some ({self.new_term(s.value)})"
        if isinstance(s, ast.Assign) and len(s.targets) == 1 and isinstance(s.targets[0], ast.Name):
            name, v = s.targets[0].id, s.value
            if ast.unparse(v) == 'self.__class__':
                self.vars[name] = ('cls', '')
                return self.block(rest, other)
            n = self.n(v)
            if n:
                self.vars[name] = ('n', n)
                return self.block(rest, other)
            # items = self._reduce_items(<iter>, n_items=<n>)
            if isinstance(v, ast.Call) and ast.unparse(v.func) == 'self._reduce_items' \
                    and len(v.args) == 1 and len(v.keywords) == 1 and v.keywords[0].arg == self.N_ITEMS_KW:
                a, nn = self.items(v.args[0]), self.n(v.keywords[0].value)
                if a and nn:
                    self.vars[name] = ('items', f"(reduce_items E {'true' if a[1] else 'false'} "
                                                f"(Some ({nn})%N) true {a[0]})")
                    return self.block(rest, other)
            fail(s, "assignment")
        if isinstance(s, ast.If):
            t = s.test
            if isinstance(t, ast.Call) and ast.unparse(t.func) == 'isinstance' and len(t.args) == 2 \
                    and ast.unparse(t.args[0]) == 'other':
                ty = ast.unparse(t.args[1])
                is_cls = ty == 'cls' and self.vars.get('cls', ('',))[0] == 'cls' or ty == 'self.__class__'
                if is_cls:
                    dec = other == 'term'
                elif ty == 'Rational':
                    dec = other == 'num'
                else:
                    fail(t, "isinstance")
                return self.block((s.body if dec else (s.orelse or [])) + rest, other)
            fail(s, "condition")
        fail(s, "statement")


PRELUDE = '''(* GENERATED by /verif/translate/termops.py from src/quantity/term.py
   (Term.__mul__, __truediv__, __rtruediv__, __pow__, reciprocal, _reciprocal).
   Do not edit; rewritten on every run. *)
From QV Require Import Model.Num Model.Dim Model.Term.
Open Scope Z_scope.
'''


def find(tree, name):
    for n in tree.body:
        if isinstance(n, ast.ClassDef) and n.name == 'Term':
            ms = [m for m in n.body if isinstance(m, ast.FunctionDef) and m.name == name
                  and not any(ast.unparse(d) == 'overload' for d in m.decorator_list)]
            if len(ms) != 1 or ms[0].decorator_list:
                raise Unsupported(f"Term.{name}: {len(ms)} definitions / decorated")
            return ms[0], n
    raise Unsupported("class Term not found")


def generate(path):
    tree = ast.parse(open(path, encoding='utf-8').read())
    out = [PRELUDE]
    # _reduce_items: keep_item_order defaults to True
    ri, cls = find(tree, '_reduce_items')
    ri_names = [a.arg for a in ri.args.args]
    if len(ri_names) != 4 or ri_names[0] != 'self' \
            or [ast.unparse(d) for d in ri.args.defaults] != ['None', 'True'] \
            or ri.args.vararg or ri.args.kwarg or ri.args.kwonlyargs:
        raise Unsupported("Term._reduce_items: signature / defaults")
    Tr.N_ITEMS_KW = ri_names[2]        # the keyword the callers must use for the length
    # module-level helper _reciprocal
    rs = [n for n in tree.body if isinstance(n, ast.FunctionDef) and n.name == '_reciprocal']
    if len(rs) != 1 or [a.arg for a in rs[0].args.args] != ['items']:
        raise Unsupported("_reciprocal not found")
    rb = [s for s in rs[0].body if not (isinstance(s, ast.Expr) and isinstance(s.value, ast.Constant))]
    tr = Tr({'items': 'term'})
    g = tr.genexp(rb[0].value) if len(rb) == 1 and isinstance(rb[0], ast.Return) else None
    if not g:
        fail(rs[0], "_reciprocal")
    out.append(f"(* _reciprocal *)\nDefinition recip_items_impl (items : list item) : list item :=\n{g}.\n")
    # __rmul__ = __mul__
    if not any(isinstance(s, ast.Assign) and ast.unparse(s) == '__rmul__ = __mul__' for s in cls.body):
        raise Unsupported("Term.__rmul__ is not __mul__")
    specs = [('__mul__', 'term', 'term_mul_impl', '(self other : term)'),
             ('__mul__', 'num', 'term_mul_num_impl', '(self : term) (other : Q)'),
             ('__truediv__', 'term', 'term_div_impl', '(self other : term)'),
             ('__truediv__', 'num', 'term_div_num_impl', '(self : term) (other : Q)'),
             ('__rtruediv__', 'num', 'term_rdiv_num_impl', '(self : term) (other : Q)')]
    for name, kind, coq, params in specs:
        m, _ = find(tree, name)
        if [a.arg for a in m.args.args] != ['self', 'other'] or m.args.defaults:
            raise Unsupported(f"Term.{name}: signature")
        body = Tr({'self': 'term', 'other': kind}).block(m.body, kind)
        out.append(f"(* Term.{name}, other: {kind} *)\nDefinition {coq} (E : env) {params} : option term :=\n{body}.\n")
    m, _ = find(tree, '__pow__')
    if [a.arg for a in m.args.args] != ['self', 'exp'] or m.args.defaults:
        raise Unsupported("Term.__pow__: signature")
    body = Tr({'self': 'term', 'exp': 'int'}).block(m.body, 'int')
    out.append(f"(* Term.__pow__ *)\nDefinition term_pow_impl (E : env) (self : term) (exp : Z) : option term :=\n{body}.\n")
    m, _ = find(tree, 'reciprocal')
    if [a.arg for a in m.args.args] != ['self']:
        raise Unsupported("Term.reciprocal: signature")
    body = Tr({'self': 'term'}).block(m.body, None)
    out.append(f"(* Term.reciprocal *)\nDefinition term_reciprocal_impl (E : env) (self : term) : option term :=\n{body}.\n")
    return "\n".join(out)


if __name__ == '__main__':
    import sys
    print(generate(sys.argv[1] if len(sys.argv) > 1 else '/repo/src/quantity/term.py'))
