"""Fail-closed translation of Quantity.quantize, Quantity.__round__, the unary
operators __abs__ / __neg__ / __pos__, the end of Quantity.__new__ and
Quantity.allocate (src/quantity/__init__.py) to Gallina over the types of
Model/Quantity.v and Model/Alloc.v.

Output: coq/Gen/AllocImpl.v.  Proofs/GenAllocEq.v proves the generated functions
equal, on all inputs, to the hand-written `quantize`, `qty_round`, `alloc_core`
and `allocate` that the theorems of C05, C06 and C13 are about.

quantize and __round__ go through the typed statement translator of qlayer.py
(extended here by number assignments, integer constants, `return self`, an
optional rounding mode and the representation test `isinstance(amnt, Decimal)`).
allocate is read statement by statement against the skeleton spelled out in
`Alloc.generate`; every *expression* of the skeleton (the conditions
`rem_amount != 0`, `rem_amount < 0`, `reverse=…`, the error term of the sort key,
the two updates of the loop and its exit test, the final remainder) is translated
generically, so that a changed comparison, operand, sign or statement order yields
a different model rather than a refusal.

Trusted representation (stated in DESIGN.md section 4):
  * whether an amount is held as a Decimal or a Fraction is the model's `is_dec`
    flag; `isinstance(num_quant, (Decimal, Fraction))` is true for every number
    `equiv_amount` returns;
  * `Decimal.quantize(q, rounding=r)` is `dec_quantize` (decimalfp, modelled by the
    reference rounding; zero quantum -> ZeroDivisionError), `_quantize_fraction` is
    the GENERATED `quantize_fraction` of Gen/RoundingImpl.v, builtin
    `round(amount, n)` is `py_round` (Decimal: default mode; Fraction: half-even);
  * `sum(...)` is `quantity.utils.sum` (left fold of `+` from the first item, 0
    for an empty collection), `self * <number>` is `qty_mul_num`, `<number> *
    self.unit` the constructor, `ratio / total` is `ratio_div`;
  * `sorted(..., reverse=b)` on pairwise different tuples is `sort_errors b`;
    `portions[idx]._amount += d` is `bump idx d`;
  * forcing a numeric total to a Decimal changes the representation only.
"""
import ast

from . import qlayer
from .qlayer import Unsupported, fail, src, Fn, find_method


class Tr(qlayer.Tr):
    """qlayer's translator + what quantize / __round__ / allocate need"""

    def q_of(self, e, env):
        if isinstance(e, ast.Constant) and type(e.value) is int:
            return "0" if e.value == 0 else f"(qz ({e.value}))"
        if isinstance(e, ast.UnaryOp) and isinstance(e.op, ast.USub):
            q = self.q_of(e.operand, env)
            return f"(qneg {q})" if q else None
        if isinstance(e, ast.Name) and env.get(e.id, (None,))[0] == 'q':
            return env[e.id][1]
        if isinstance(e, ast.Call) and isinstance(e.func, ast.Name) and e.func.id == 'abs' \
                and len(e.args) == 1 and not e.keywords:
            q = self.q_of(e.args[0], env)
            return f"(qabs {q})" if q else None
        # Decimal(x, 0): decimalfp rounding to an integer, default mode
        if isinstance(e, ast.Call) and isinstance(e.func, ast.Name) and e.func.id == 'Decimal' \
                and len(e.args) == 2 and not e.keywords and isinstance(e.args[1], ast.Constant) \
                and type(e.args[1].value) is int and e.args[1].value == 0:
            x = self.q_of(e.args[0], env)
            return f"(dec_round0 dm {x})" if x else None
        # builtin round(<amount of the receiver>, n_digits)
        if isinstance(e, ast.Call) and isinstance(e.func, ast.Name) and e.func.id == 'round' \
                and len(e.args) == 2 and not e.keywords \
                and isinstance(e.args[0], ast.Attribute) and e.args[0].attr in ('amount', '_amount') \
                and isinstance(e.args[0].value, ast.Name) and e.args[0].value.id == 'self' \
                and isinstance(e.args[1], ast.Name) and env.get(e.args[1].id, (None,))[0] == 'z':
            return f"(py_round dm is_dec {self.q_of(e.args[0], env)} {env[e.args[1].id][1]})"
        return super().q_of(e, env)

    def cond(self, e, env):
        # representation of a number
        if isinstance(e, ast.Call) and isinstance(e.func, ast.Name) and e.func.id == 'isinstance' \
                and len(e.args) == 2:
            x, t = e.args
            tn = sorted(n.id for n in t.elts) if isinstance(t, ast.Tuple) and \
                all(isinstance(n, ast.Name) for n in t.elts) else \
                [t.id] if isinstance(t, ast.Name) else None
            if isinstance(x, ast.Name) and env.get(x.id, (None,))[0] == 'q' and tn:
                if tn == ['Decimal', 'Fraction']:
                    return 'true'
                if env[x.id][1] == '(q_amt self)' and tn == ['Decimal']:
                    return 'is_dec'
                if env[x.id][1] == '(q_amt self)' and tn == ['Fraction']:
                    return '(negb is_dec)'
        if isinstance(e, ast.Compare) and len(e.ops) == 1 \
                and isinstance(e.ops[0], (ast.Lt, ast.LtE, ast.Gt, ast.GtE)):
            qa, qb = self.q_of(e.left, env), self.q_of(e.comparators[0], env)
            if qa and qb:
                return {ast.Lt: f"(qltb {qa} {qb})", ast.LtE: f"(qleb {qa} {qb})",
                        ast.Gt: f"(qltb {qb} {qa})", ast.GtE: f"(qleb {qb} {qa})"}[type(e.ops[0])]
        if isinstance(e, ast.Name) and env.get(e.id, (None,))[0] == 'bool':
            return env[e.id][1]
        return super().cond(e, env)

    def ret(self, e, env):
        if self.fn.rtype == 'qty' and isinstance(e, ast.Name) \
                and env.get(e.id, (None,))[0] == 'qty':
            return f"Ok {env[e.id][1]}"
        return super().ret(e, env)

    def mode_arg(self, call, pos, env):
        """the rounding argument of a quantising callee: `rounding` passed on"""
        a = None
        if len(call.args) > pos:
            a = call.args[pos]
        for k in call.keywords:
            if k.arg == 'rounding' and a is None:
                a = k.value
            else:
                fail(call, "keyword")
        if isinstance(a, ast.Name) and env.get(a.id, (None,))[0] == 'optmode':
            return env[a.id][1]
        fail(call, "rounding argument")

    def block(self, stmts, env):
        if stmts and isinstance(stmts[0], ast.Assign) and len(stmts[0].targets) == 1 \
                and isinstance(stmts[0].targets[0], ast.Name):
            s, rest = stmts[0], stmts[1:]
            name, v = s.targets[0].id, s.value
            # x = <Decimal amount>.quantize(<number>, rounding=<mode>)
            if isinstance(v, ast.Call) and isinstance(v.func, ast.Attribute) \
                    and v.func.attr == 'quantize' and isinstance(v.func.value, ast.Name) \
                    and env.get(v.func.value.id, (None,))[0] == 'q' and len(v.args) >= 1:
                a, nq = env[v.func.value.id][1], self.q_of(v.args[0], env)
                if nq:
                    m = self.mode_arg(v, 1, env)
                    x = self.new(name)
                    return (f"bind (dec_quantize dm {a} {nq} {m}) (fun {x} =>\n"
                            f"{self.block(rest, dict(env, **{name: ('q', x)}))})")
            # x = _quantize_fraction(<number>, <number>, <mode>)
            if isinstance(v, ast.Call) and isinstance(v.func, ast.Name) \
                    and v.func.id == '_quantize_fraction' and len(v.args) >= 2:
                a, nq = self.q_of(v.args[0], env), self.q_of(v.args[1], env)
                if a and nq:
                    m = self.mode_arg(v, 2, env)
                    x = self.new(name)
                    return (f"bind (frac_quantize dm {a} {nq} {m}) (fun {x} =>\n"
                            f"{self.block(rest, dict(env, **{name: ('q', x)}))})")
            if not (isinstance(v, ast.Call) and isinstance(v.func, ast.Attribute)
                    and v.func.attr in ('equiv_amount', '_get_factor')):
                q = self.q_of(v, env)
                if q and not self.class_unit(v, env):
                    return self.block(rest, dict(env, **{name: ('q', q)}))
        return super().block(stmts, env)


FUNCS = [
    (Fn('Quantity', 'quantize', [('self', 'qty'), ('quant', 'qty'), ('rounding', 'optmode')],
        'qty', 'quantize_impl'), [None]),
    (Fn('Quantity', '__round__', [('self', 'qty'), ('n_digits', 'z')], 'qty', 'qty_round_impl'),
     [0]),
    (Fn('Quantity', '__abs__', [('self', 'qty')], 'qty', 'qty_abs_impl'), []),
    (Fn('Quantity', '__neg__', [('self', 'qty')], 'qty', 'qty_neg_impl'), []),
    (Fn('Quantity', '__pos__', [('self', 'qty')], 'qty', 'qty_pos_impl'), []),
]
COQTYPE = dict(qlayer.COQTYPE, optmode='option mode', z='Z')

PRELUDE = '''(* GENERATED by /verif/translate/alloc.py from src/quantity/__init__.py
   (Quantity.quantize, Quantity.__round__, Quantity.allocate).
   Do not edit; rewritten on every run. *)
From QV Require Import Model.Num Model.Rounding Gen.RoundingImpl Model.Quantity
  Gen.QuantityImpl Model.Alloc.
Open Scope Z_scope.

(* callees outside the translated code (see the translator's header) *)
Definition resolve_mode (dm : mode) (rm : option mode) : mode :=
  match rm with Some m => m | None => dm end.
Definition dec_quantize (dm : mode) (a nq : Q) (rm : option mode) : res Q :=
  if qzero nq then Err EZeroDivision else Ok (round_to_quantum (resolve_mode dm rm) a nq).
Definition frac_quantize (dm : mode) (a nq : Q) (rm : option mode) : res Q :=
  if qzero nq then Err EZeroDivision else
  match quantize_fraction a nq (resolve_mode dm rm) with
  | Some r => Ok r
  | None => Err EValueError
  end.
Definition dec_round0 (dm : mode) (x : Q) : Q := qz (rnd_ref dm x).
Definition py_round (dm : mode) (is_dec : bool) (a : Q) (nd : Z) : Q :=
  round_to_quantum (if is_dec then dm else MHEVEN) a (pow10 (- nd)).
(* quantity.utils.sum over quantities, adding with the TRANSLATED __add__ *)
Fixpoint qty_sum_from_impl (ce : convenv) (dm : mode) (acc : qty) (l : list qty) : res qty :=
  match l with
  | [] => Ok acc
  | x :: r => bind (qty_add_impl ce dm acc x) (fun a => qty_sum_from_impl ce dm a r)
  end.
'''


def _is(node, text):
    return ast.dump(node) == ast.dump(ast.parse(text).body[0])


def _is_expr(node, text):
    # compared by their canonical source text (independent of Load / Store context)
    return ast.unparse(node) == ast.unparse(ast.parse(text, mode='eval').body)


class Alloc:
    """Quantity.allocate against its skeleton:

        n_portions = len(ratios)
        total = sum(ratios)
        if isinstance(total, Rational): try: total = Decimal(total) except ValueError: pass
        fractions = [ratio / total for ratio in ratios]
        portions = [self * fraction for fraction in fractions]
        remainder = self - sum(portions)
        rem_amount = remainder.amount
        if <C1>:
            assert self.unit.quantum is not None
            quantum = self.unit.quantum
            if disperse_rounding_error:
                if <C2>: quantum = <E1>
                errors = sorted(map(lambda portion, fraction, idx: (<E2>, idx),
                                    portions, fractions, range(n_portions)), reverse=(<C3>))
                for error, idx in errors:
                    <loop statements: portions[idx]._amount +=/-= <E>, rem_amount +=/-= <E>,
                     if <C>: break — in the order of the source>
                remainder = <E3> * self.unit
        return portions, remainder
    """

    def __init__(self, m):
        self.m = m
        self.tr = Tr(Fn('Quantity', 'allocate', [], 'qty', 'allocate_impl'))

    LOCALS = ['n_portions', 'total', 'fractions', 'portions', 'remainder', 'rem_amount',
              'quantum', 'errors']

    def canonical_locals(self):
        """rename the method's local variables, in the order of their first assignment, to the
        names the skeleton is written with (a renamed local is a harmless rewrite); loop,
        comprehension and lambda variables are handled generically and left alone"""
        order = []

        def targets(stmts):
            for s in stmts:
                if isinstance(s, (ast.Assign, ast.AnnAssign, ast.AugAssign)):
                    for t in (s.targets if isinstance(s, ast.Assign) else [s.target]):
                        if isinstance(t, ast.Name) and t.id not in order:
                            order.append(t.id)
                for f in ('body', 'orelse', 'handlers', 'finalbody'):
                    sub = getattr(s, f, None)
                    if isinstance(sub, list) and not isinstance(s, (ast.Lambda,)):
                        targets([x for x in sub if isinstance(x, ast.stmt)]
                                + [y for x in sub if isinstance(x, ast.ExceptHandler) for y in x.body])
        targets(self.m.body)
        if len(order) != len(self.LOCALS) or order == self.LOCALS:
            return
        params = {a.arg for a in self.m.args.args}
        if set(order) & params or (set(self.LOCALS) - set(order)) & \
                {n.id for n in ast.walk(self.m) if isinstance(n, ast.Name)}:
            return              # a clash: leave the text as it is (the strict check decides)
        ren = dict(zip(order, self.LOCALS))
        for n in ast.walk(self.m):
            if isinstance(n, ast.Name) and n.id in ren:
                n.id = ren[n.id]

    def generate(self):
        self.canonical_locals()
        m = self.m
        names = [a.arg for a in m.args.args]
        if names != ['self', 'ratios', 'disperse_rounding_error'] or m.args.vararg or m.args.kwarg \
                or m.args.kwonlyargs or len(m.args.defaults) != 1 \
                or not _is_expr(m.args.defaults[0], 'True'):
            raise Unsupported(f"Quantity.allocate: signature {names}")
        body = [s for s in m.body
                if not (isinstance(s, ast.Expr) and isinstance(s.value, ast.Constant))]
        if len(body) != 9:
            raise Unsupported(f"Quantity.allocate: {len(body)} statements, expected 9")
        s = body
        head = ["n_portions = len(ratios)", "total = sum(ratios)",
                "if isinstance(total, Rational):\n try:\n  total = Decimal(total)\n"
                " except ValueError:\n  pass",
                "fractions = [ratio / total for ratio in ratios]", None,
                "remainder = self - sum(portions)", "rem_amount = remainder.amount"]
        for i, t in enumerate(head):
            if t is None:
                continue
            x = s[i]
            if isinstance(x, ast.AnnAssign) and x.simple and x.value is not None:
                x = ast.Assign(targets=[x.target], value=x.value, lineno=x.lineno)
            if not _is(x, t):
                fail(s[i], f"allocate: statement {i + 1} is not `{t}`")
        p = s[4]
        if isinstance(p, ast.AnnAssign) and p.value is not None:
            p = ast.Assign(targets=[p.target], value=p.value, lineno=p.lineno)
        if not (isinstance(p, ast.Assign) and isinstance(p.targets[0], ast.Name)
                and p.targets[0].id == 'portions' and isinstance(p.value, ast.ListComp)
                and len(p.value.generators) == 1
                and _is_expr(p.value.generators[0].iter, 'fractions')
                and isinstance(p.value.generators[0].target, ast.Name)
                and not p.value.generators[0].ifs and not p.value.generators[0].is_async):
            fail(s[4], "allocate: portions")
        fvar = p.value.generators[0].target.id
        portion = self.portion_expr(p.value.elt, fvar)
        if not _is(s[8], "return portions, remainder"):
            fail(s[8], "allocate: return")
        env = {'self': ('qty', 'self'), 'rem_amount': ('q', 'rem_amount'),
               'disperse_rounding_error': ('bool', 'disperse')}
        tail, defs = self.remainder_block(s[7], env)
        core = (f"Definition alloc_core_impl (ce : convenv) (dm : mode) (self : qty) (fractions : list Q)\n"
                f"    (disperse : bool) : res (list qty * qty) :=\n"
                f"let portions := map (fun {fvar} => {portion}) fractions in\n"
                f"match portions with\n| [] => Err ETypeError\n| p0 :: pr =>\n"
                f"bind (qty_sum_from_impl ce dm p0 pr) (fun s =>\n"
                f"bind (qty_sub_impl ce dm self s) (fun remainder =>\n"
                f"let rem_amount := q_amt remainder in\n{tail}))\nend.\n")
        top = ("Definition allocate_impl (ce : convenv) (dm : mode) (self : qty) (ratios : list ratio)\n"
               "    (disperse : bool) : res (list qty * qty) :=\n"
               "bind (sum_ratios ce dm ratios) (fun total =>\n"
               "bind (fractions_of ce ratios total) (fun fractions =>\n"
               "alloc_core_impl ce dm self fractions disperse)).\n")
        return "\n".join(defs + [core, top])

    def portion_expr(self, e, fvar):
        # self * fraction   (Quantity.__mul__ by a number)
        if isinstance(e, ast.BinOp) and isinstance(e.op, ast.Mult):
            for a, b in ((e.left, e.right), (e.right, e.left)):
                if _is_expr(a, 'self') and isinstance(b, ast.Name) and b.id == fvar:
                    return f"qty_mul_num dm self {fvar}"
        fail(e, "allocate: portion")

    def remainder_block(self, s, env):
        tr = self.tr
        if not (isinstance(s, ast.If) and not s.orelse):
            fail(s, "allocate: `if rem_amount != 0:`")
        c1 = tr.cond(s.test, env)
        b = [x for x in s.body if not (isinstance(x, ast.Expr) and isinstance(x.value, ast.Constant))]
        if len(b) != 3 or not (isinstance(b[0], ast.Assert)
                               and _is_expr(b[0].test, 'self.unit.quantum is not None')) \
                or not _is(b[1], "quantum = self.unit.quantum"):
            fail(s, "allocate: quantum of the unit")
        d = b[2]
        if not (isinstance(d, ast.If) and not d.orelse):
            fail(d, "allocate: `if disperse_rounding_error:`")
        cd = tr.cond(d.test, env)
        db = d.body
        if len(db) != 4:
            fail(d, "allocate: dispersal block")
        env2 = dict(env, quantum=('q', 'quantum'))
        # if <C2>: quantum = <E1>
        neg = db[0]
        if not (isinstance(neg, ast.If) and not neg.orelse and len(neg.body) == 1
                and isinstance(neg.body[0], ast.Assign) and _is_expr(neg.body[0].targets[0], 'quantum')):
            fail(neg, "allocate: sign of the quantum")
        c2 = tr.cond(neg.test, env2)
        e1 = tr.q_of(neg.body[0].value, env2) or fail(neg, "allocate: signed quantum")
        # errors = sorted(map(lambda ...), reverse=...)
        er = db[1]
        if not (isinstance(er, ast.Assign) and _is_expr(er.targets[0], 'errors')
                and isinstance(er.value, ast.Call) and _is_expr(er.value.func, 'sorted')
                and len(er.value.args) == 1 and len(er.value.keywords) == 1
                and er.value.keywords[0].arg == 'reverse'):
            fail(er, "allocate: errors = sorted(..., reverse=...)")
        c3 = tr.cond(er.value.keywords[0].value, env2)
        mp = er.value.args[0]
        if not (isinstance(mp, ast.Call) and _is_expr(mp.func, 'map') and len(mp.args) == 4
                and not mp.keywords and isinstance(mp.args[0], ast.Lambda)
                and _is_expr(mp.args[1], 'portions') and _is_expr(mp.args[2], 'fractions')
                and _is_expr(mp.args[3], 'range(n_portions)')):
            fail(mp, "allocate: map(lambda portion, fraction, idx: ..., portions, fractions, range(n))")
        lam = mp.args[0]
        la = [a.arg for a in lam.args.args]
        if len(la) != 3 or lam.args.defaults or lam.args.vararg or lam.args.kwarg \
                or not (isinstance(lam.body, ast.Tuple) and len(lam.body.elts) == 2
                        and isinstance(lam.body.elts[1], ast.Name) and lam.body.elts[1].id == la[2]):
            fail(lam, "allocate: sort key (error, idx)")
        lenv = {'self': ('qty', 'self'), la[0]: ('qty', la[0]), la[1]: ('q', la[1])}
        e2 = tr.q_of(lam.body.elts[0], lenv) or fail(lam, "allocate: error term")
        # the loop
        lp = db[2]
        if not (isinstance(lp, ast.For) and not lp.orelse and _is_expr(lp.iter, 'errors')
                and isinstance(lp.target, ast.Tuple) and len(lp.target.elts) == 2
                and all(isinstance(x, ast.Name) for x in lp.target.elts)):
            fail(lp, "allocate: for error, idx in errors")
        evar, ivar = (x.id for x in lp.target.elts)
        loop_body = self.loop_stmts(lp.body, dict(env2), ivar)
        # remainder = <E3> * self.unit
        rm = db[3]
        if not (isinstance(rm, ast.Assign) and _is_expr(rm.targets[0], 'remainder')
                and isinstance(rm.value, ast.BinOp) and isinstance(rm.value.op, ast.Mult)
                and _is_expr(rm.value.right, 'self.unit')):
            fail(rm, "allocate: remainder = rem_amount * self.unit")
        e3 = tr.q_of(rm.value.left, env2) or fail(rm, "allocate: remainder amount")
        defs = [
            f"(* the sort key of the dispersal: (error, index) *)\n"
            f"Fixpoint errors_from_impl (i : nat) (self : qty) (ps : list qty) (fs : list Q)"
            f" : list (Q * nat) :=\n"
            f"match ps, fs with\n| {la[0]} :: pr, {la[1]} :: fr =>\n"
            f"  ({e2}, i) :: errors_from_impl (S i) self pr fr\n| _, _ => []\nend.\n",
            f"(* for {evar}, {ivar} in errors: ... *)\n"
            f"Fixpoint disperse_loop_impl (quantum : Q) (errs : list (Q * nat)) (portions : list qty)\n"
            f"    (rem_amount : Q) : list qty * Q :=\n"
            f"match errs with\n| [] => (portions, rem_amount)\n| ({evar}, {ivar}) :: errs' =>\n"
            f"{loop_body}\nend.\n"]
        tail = (f"if {c1} then\n"
                f"  match u_quantum (q_unit self) with\n  | None => Err EAssertion\n  | Some quantum =>\n"
                f"    if {cd} then\n"
                f"      let quantum := if {c2} then {e1} else quantum in\n"
                f"      let errors := sort_errors {c3} (errors_from_impl 0 self portions fractions) in\n"
                f"      let '(portions, rem_amount) := disperse_loop_impl quantum errors portions rem_amount in\n"
                f"      Ok (portions, mk_qty dm {e3} (q_unit self))\n"
                f"    else Ok (portions, remainder)\n  end\n"
                f"else Ok (portions, remainder)")
        return tail, defs

    def loop_stmts(self, stmts, env, ivar):
        tr = self.tr
        if not stmts:
            return "disperse_loop_impl quantum errs' portions rem_amount"
        s, rest = stmts[0], stmts[1:]
        if isinstance(s, ast.AugAssign) and isinstance(s.op, (ast.Add, ast.Sub)):
            v = tr.q_of(s.value, env) or fail(s, "allocate: loop update value")
            sub = isinstance(s.op, ast.Sub)
            if _is_expr(s.target, f'portions[{ivar}]._amount'):
                d = f"(qneg {v})" if sub else v
                return (f"let portions := bump {ivar} {d} portions in\n"
                        f"{self.loop_stmts(rest, env, ivar)}")
            if _is_expr(s.target, 'rem_amount'):
                f = 'qsub' if sub else 'qadd'
                return (f"let rem_amount := {f} rem_amount {v} in\n"
                        f"{self.loop_stmts(rest, env, ivar)}")
        if isinstance(s, ast.If) and not s.orelse and len(s.body) == 1 \
                and isinstance(s.body[0], ast.Break):
            c = tr.cond(s.test, env)
            return (f"if {c} then (portions, rem_amount) else\n"
                    f"{self.loop_stmts(rest, env, ivar)}")
        fail(s, "allocate: loop statement")


def gen_new(tree):
    """the end of Quantity.__new__, after the raw instance has been made:
           quantum = unit.quantum
           if quantum is not None:
               amnt = <E>
           qty._amount = amnt
           qty._unit = unit
           return qty
    -> the constructor's quantisation, the single choke point of C05"""
    m = find_method(tree, 'Quantity', '__new__')
    idx = [i for i, s in enumerate(m.body)
           if ast.unparse(s).split('#')[0].strip() == 'qty = super().__new__(cls)']
    if len(idx) != 1:
        raise Unsupported("Quantity.__new__: `qty = super().__new__(cls)` not found once")
    tail = m.body[idx[0] + 1:]
    if len(tail) != 5 or ast.unparse(tail[0]) != 'quantum = unit.quantum' \
            or [ast.unparse(x) for x in tail[2:]] != ['qty._amount = amnt', 'qty._unit = unit',
                                                      'return qty']:
        raise Unsupported("Quantity.__new__: the statements after the raw instance is made are not "
                          "`quantum = unit.quantum; if ...; qty._amount = amnt; qty._unit = unit; "
                          "return qty`: " + '; '.join(ast.unparse(x) for x in tail)[:200])
    c = tail[1]
    if not (isinstance(c, ast.If) and not c.orelse and len(c.body) == 1
            and isinstance(c.body[0], ast.Assign) and ast.unparse(c.body[0].targets[0]) == 'amnt'):
        fail(c, "__new__: quantisation")
    tr = Tr(Fn('Quantity', '__new__', [], 'qty', 'mk_qty_impl'))
    env = {'amnt': ('q', 'amnt'), 'unit': ('unit', 'unit'), 'quantum': ('optq', '(u_quantum unit)')}

    def then_k(e2):
        q = tr.q_of(c.body[0].value, dict(e2, quantum=e2['quantum'])) or fail(c, "__new__: amount")
        return f"mkQty {q} unit"
    body = tr.branch(c.test, env, then_k, lambda e2: "mkQty amnt unit")
    return ("(* Quantity.__new__, after the raw instance has been made *)\n"
            "Definition mk_qty_impl (dm : mode) (amnt : Q) (unit : unit) : qty :=\n" + body + ".\n")


def gen_unit_quantum(tree):
    """the property Unit.quantum: the quantum of the unit's type (an optional number, given as
    a parameter) divided by the unit's scale"""
    ms = [m for n in tree.body if isinstance(n, ast.ClassDef) and n.name == 'Unit'
          for m in n.body if isinstance(m, ast.FunctionDef) and m.name == 'quantum']
    if len(ms) != 1 or [ast.unparse(d) for d in ms[0].decorator_list] != ['property'] \
            or [a.arg for a in ms[0].args.args] != ['self']:
        raise Unsupported("Unit.quantum: not a single read-only property")
    fn = Fn('Unit', 'quantum', [('self', 'unit')], 'optq', 'unit_quantum_impl')
    tr = Tr(fn)
    env = {'self': ('unit', 'self'), 'cls.quantum': ('optq', 'cls_quantum')}
    body = tr.block(ms[0].body, env)
    return ("(* Unit.quantum; [cls_quantum] is the quantum of the unit's type *)\n"
            "Definition unit_quantum_impl (cls_quantum : option Q) (self : unit) : res (option Q) :=\n"
            + body + ".\n")


def generate(path):
    tree = ast.parse(open(path, encoding='utf-8').read())
    out = [PRELUDE, gen_new(tree), gen_unit_quantum(tree)]
    for fn, defaults in FUNCS:
        m = find_method(tree, fn.cls, fn.name)
        names = [a.arg for a in m.args.args]
        dflt = [d.value if isinstance(d, ast.Constant) else '?' for d in m.args.defaults]
        if names != [p for p, _ in fn.params] or m.args.vararg or m.args.kwarg \
                or m.args.kwonlyargs or dflt != defaults:
            raise Unsupported(f"{fn.cls}.{fn.name}: signature {names} defaults {dflt}")
        tr = Tr(fn)
        env = {p: (t, p) for p, t in fn.params}
        body = tr.block(m.body, env)
        params = ' '.join(f"({p} : {COQTYPE[t]})" for p, t in fn.params)
        pre = '(ce : convenv) ' if ' ce ' in body else ''
        out.append(f"(* {fn.cls}.{fn.name} *)\nDefinition {fn.coqname} {pre}(dm : mode) "
                   f"(is_dec : bool) {params} : res ({COQTYPE[fn.rtype]}) :=\n{body}.\n")
    out.append(Alloc(find_method(tree, 'Quantity', 'allocate')).generate())
    return "\n".join(out)


if __name__ == '__main__':
    import sys
    print(generate(sys.argv[1] if len(sys.argv) > 1 else '/repo/src/quantity/__init__.py'))
