"""Fail-closed extraction of the predefined temperature conversion table
(`_temp_conv` in src/quantity/predefined.py) to Gallina.

Output: coq/Gen/TempTable.v (`temp_table`, `temp_units`, `temp_convs`).

Only the syntax tree is read (python `ast`); the module is never imported.
What is accepted:

* `class Temperature(Quantity)` without keywords (no reference unit, no
  quantum, not derived) and a body that is a docstring only;
* exactly three module-level assignments `NAME = Temperature.new_unit(<str>,
  <str>)` (units without definition), NAME in CELSIUS / FAHRENHEIT / KELVIN;
* exactly one module-level assignment `_temp_conv = [ (U, V, num, num), ... ]`
  where U, V are those names and num is an exact rational literal expression:
  int, `Decimal(int|str)`, `Fraction(int[, int])`, `Fraction(str)`, unary +/-,
  and + - * / ** of such (int / int and int ** negative are floats in Python
  and are rejected);
* exactly one statement `Temperature.register_converter(TableConverter(
  _temp_conv))` and no other use of `_temp_conv`, no other converter
  registered on Temperature;
* `Decimal`, `Fraction`, `TableConverter`, `Quantity` bound only by the
  expected imports.

Anything else raises Unsupported: the obligation "model regenerated" is then
reported as broken instead of a stale table being used.
"""
import ast
import os
import re
from fractions import Fraction

REPO = (os.environ.get('QUANTITY_REPO') or '/repo')
SOURCE = 'src/quantity/predefined.py'

# fixed identities of the units in the generated file
UNIT_IDS = {'CELSIUS': 1, 'FAHRENHEIT': 2, 'KELVIN': 3}
COQ_NAME = {'CELSIUS': 'celsius', 'FAHRENHEIT': 'fahrenheit', 'KELVIN': 'kelvin'}
TEMP_CLS_ID = 1
EXPECTED_IMPORTS = {'Decimal': ('decimalfp', 'Decimal'),
                    'Fraction': ('fractions', 'Fraction'),
                    'TableConverter': ('', 'TableConverter'),
                    'Quantity': ('', 'Quantity')}
_DEC = re.compile(r'^[+-]?(\d+\.?\d*|\.\d+)([eE][+-]?\d+)?$')
_RAT = re.compile(r'^[+-]?\d+(/\d+)?$')


class Unsupported(Exception):
    pass


def fail(node, why):
    raise Unsupported(f"{SOURCE} line {getattr(node, 'lineno', '?')}: {why}: "
                      f"{ast.dump(node)[:200] if isinstance(node, ast.AST) else node}")


# ------------------------------------------------------------ numbers

def _int_const(e):
    return isinstance(e, ast.Constant) and type(e.value) is int


def _str_const(e):
    return isinstance(e, ast.Constant) and type(e.value) is str


def number(e):
    """Exact value of a rational literal expression -> (kind, Fraction);
    kind 'int' for Python ints (whose / and negative ** are inexact)."""
    if _int_const(e):
        return 'int', Fraction(e.value)
    if isinstance(e, ast.UnaryOp) and isinstance(e.op, (ast.USub, ast.UAdd)):
        k, v = number(e.operand)
        return k, (-v if isinstance(e.op, ast.USub) else v)
    if isinstance(e, ast.Call) and isinstance(e.func, ast.Name) and not e.keywords:
        if e.func.id == 'Decimal' and len(e.args) == 1:
            a = e.args[0]
            if _int_const(a):
                return 'dec', Fraction(a.value)
            if _str_const(a) and _DEC.match(a.value.strip()):
                return 'dec', Fraction(a.value.strip())
            fail(e, "Decimal literal")
        if e.func.id == 'Fraction' and len(e.args) == 1:
            a = e.args[0]
            if _int_const(a):
                return 'frac', Fraction(a.value)
            if _str_const(a) and (_DEC.match(a.value.strip())
                                  or _RAT.match(a.value.strip())):
                return 'frac', Fraction(a.value.strip())
            if isinstance(a, ast.UnaryOp) and _int_const(a.operand):
                return 'frac', number(a)[1]
            fail(e, "Fraction literal")
        if e.func.id == 'Fraction' and len(e.args) == 2:
            n, d = (number(x) for x in e.args)
            if n[0] != 'int' or d[0] != 'int':
                fail(e, "Fraction(n, d) with non-integer literals")
            if d[1] == 0:
                fail(e, "Fraction with zero denominator")
            return 'frac', n[1] / d[1]
        fail(e, "call in a number")
    if isinstance(e, ast.BinOp):
        (kl, l), (kr, r) = number(e.left), number(e.right)
        both_int = kl == 'int' and kr == 'int'
        kind = 'int' if both_int else 'exact'
        if isinstance(e.op, ast.Add):
            return kind, l + r
        if isinstance(e.op, ast.Sub):
            return kind, l - r
        if isinstance(e.op, ast.Mult):
            return kind, l * r
        if isinstance(e.op, ast.Div):
            if both_int:
                fail(e, "int / int is a float")
            if r == 0:
                fail(e, "division by zero")
            return kind, l / r
        if isinstance(e.op, ast.Pow):
            if kr != 'int':
                fail(e, "non-integer exponent")
            if r < 0 and (kl == 'int' or l == 0):
                fail(e, "negative power of an int or of zero")
            if abs(r) > 64:
                fail(e, "exponent too large")
            return kind, l ** int(r)
        fail(e, "operator in a number")
    fail(e, "number")


# ------------------------------------------------------------ module scan

def _bound_names(tree):
    """module-level name -> list of binding statements (imports, assignments,
    defs, classes; fail on anything that could bind names in a way not
    understood: star imports, global deletes, augmented assignments are
    checked by the callers for the names that matter)."""
    out = {}
    for n in ast.walk(tree):
        if isinstance(n, (ast.NamedExpr, ast.Global, ast.Nonlocal, ast.Delete)):
            fail(n, "name binding construct not understood")
    for st in tree.body:
        if isinstance(st, ast.Import):
            for a in st.names:
                out.setdefault((a.asname or a.name).split('.')[0], []).append(st)
        elif isinstance(st, ast.ImportFrom):
            for a in st.names:
                if a.name == '*':
                    fail(st, "star import")
                out.setdefault(a.asname or a.name, []).append(st)
        elif isinstance(st, (ast.FunctionDef, ast.AsyncFunctionDef, ast.ClassDef)):
            out.setdefault(st.name, []).append(st)
        elif isinstance(st, (ast.Assign, ast.AnnAssign, ast.AugAssign)):
            tgts = st.targets if isinstance(st, ast.Assign) else [st.target]
            for t in tgts:
                for n in ast.walk(t):
                    if isinstance(n, ast.Name):
                        out.setdefault(n.id, []).append(st)
        elif isinstance(st, (ast.Expr, ast.Assert)):
            pass        # cannot bind a name (walrus is rejected below)
        else:
            # control flow / with / try / del at module level could rebind
            # anything: not understood
            fail(st, "module-level statement kind")
    return out


def _check_import(bound, name):
    sts = bound.get(name, [])
    mod, orig = EXPECTED_IMPORTS[name]
    if len(sts) != 1 or not isinstance(sts[0], ast.ImportFrom):
        fail(sts[0] if sts else name, f"'{name}' is not bound by exactly one import")
    st = sts[0]
    if (st.module or '') != mod or (mod == '' and st.level != 1) \
            or (mod != '' and st.level != 0):
        fail(st, f"'{name}' imported from an unexpected module")
    for a in st.names:
        if (a.asname or a.name) == name and a.name != orig:
            fail(st, f"'{name}' is an alias of something else")


def extract(path=None):
    """-> dict(units={NAME: symbol}, rows=[(from, to, Fraction, Fraction)...])
    rows with dict semantics applied (a later row for the same pair replaces
    the earlier one, position of the first occurrence kept)."""
    path = path or os.path.join(REPO, SOURCE)
    with open(path, encoding='utf-8') as f:
        tree = ast.parse(f.read(), filename=path)
    bound = _bound_names(tree)
    for nm in EXPECTED_IMPORTS:
        _check_import(bound, nm)

    # the class
    cls = bound.get('Temperature', [])
    if len(cls) != 1 or not isinstance(cls[0], ast.ClassDef):
        fail(cls[0] if cls else 'Temperature', "Temperature is not defined by exactly one class statement")
    c = cls[0]
    if c.keywords or c.decorator_list or len(c.bases) != 1 \
            or not (isinstance(c.bases[0], ast.Name) and c.bases[0].id == 'Quantity'):
        fail(c, "Temperature is not a plain `class Temperature(Quantity)`")
    if not (len(c.body) == 1 and isinstance(c.body[0], ast.Expr)
            and _str_const(c.body[0].value)):
        fail(c, "Temperature has a class body other than a docstring")

    # the units
    units = {}
    for nm in UNIT_IDS:
        sts = bound.get(nm, [])
        if len(sts) != 1 or not isinstance(sts[0], ast.Assign) \
                or len(sts[0].targets) != 1 or not isinstance(sts[0].targets[0], ast.Name):
            fail(sts[0] if sts else nm, f"{nm} is not bound by exactly one simple assignment")
        v = sts[0].value
        ok = (isinstance(v, ast.Call) and not v.keywords
              and isinstance(v.func, ast.Attribute) and v.func.attr == 'new_unit'
              and isinstance(v.func.value, ast.Name) and v.func.value.id == 'Temperature'
              and len(v.args) == 2 and all(_str_const(a) for a in v.args))
        if not ok:
            fail(sts[0], f"{nm} is not `Temperature.new_unit(<symbol>, <name>)` "
                         "(a unit without definition)")
        units[nm] = v.args[0].value
    if len(set(units.values())) != 3:
        fail(c, "temperature unit symbols are not distinct")

    # every other use of Temperature / new_unit on it
    for n in ast.walk(tree):
        if isinstance(n, ast.Attribute) and isinstance(n.value, ast.Name) \
                and n.value.id == 'Temperature' \
                and n.attr not in ('new_unit', 'register_converter'):
            fail(n, "unexpected attribute of Temperature")
    n_new = sum(1 for n in ast.walk(tree)
                if isinstance(n, ast.Attribute) and isinstance(n.value, ast.Name)
                and n.value.id == 'Temperature' and n.attr == 'new_unit')
    if n_new != 3:
        fail(c, f"{n_new} Temperature.new_unit calls, expected 3")

    # the table
    sts = bound.get('_temp_conv', [])
    if len(sts) != 1 or not isinstance(sts[0], ast.Assign) or len(sts[0].targets) != 1 \
            or not isinstance(sts[0].targets[0], ast.Name):
        fail(sts[0] if sts else '_temp_conv', "_temp_conv is not bound by exactly one simple assignment")
    lit = sts[0].value
    if not isinstance(lit, (ast.List, ast.Tuple)):
        fail(lit, "_temp_conv is not a list/tuple literal")
    rows = {}
    for row in lit.elts:
        if not isinstance(row, ast.Tuple) or len(row.elts) != 4:
            fail(row, "table row is not a 4-tuple literal")
        a, b, f, o = row.elts
        for x in (a, b):
            if not (isinstance(x, ast.Name) and x.id in UNIT_IDS):
                fail(x, "table row unit is not CELSIUS / FAHRENHEIT / KELVIN")
        rows[(a.id, b.id)] = (number(f)[1], number(o)[1])
    if not rows:
        fail(lit, "empty conversion table")

    # uses of _temp_conv: the assignment and one registration
    uses = [n for n in ast.walk(tree) if isinstance(n, ast.Name) and n.id == '_temp_conv']
    regs = []
    for st in tree.body:
        if isinstance(st, ast.Expr) and isinstance(st.value, ast.Call):
            v = st.value
            if isinstance(v.func, ast.Attribute) and v.func.attr == 'register_converter' \
                    and isinstance(v.func.value, ast.Name) and v.func.value.id == 'Temperature':
                regs.append(v)
    n_reg = sum(1 for n in ast.walk(tree)
                if isinstance(n, ast.Attribute) and n.attr in ('register_converter', 'remove_converter'))
    if len(regs) != 1 or n_reg != 1:
        fail(c, "expected exactly one register_converter statement in the module (on Temperature)")
    r = regs[0]
    ok = (len(r.args) == 1 and not r.keywords and isinstance(r.args[0], ast.Call)
          and isinstance(r.args[0].func, ast.Name) and r.args[0].func.id == 'TableConverter'
          and len(r.args[0].args) == 1 and not r.args[0].keywords
          and isinstance(r.args[0].args[0], ast.Name) and r.args[0].args[0].id == '_temp_conv')
    if not ok:
        fail(r, "registration is not Temperature.register_converter(TableConverter(_temp_conv))")
    if len(uses) != 2:
        fail(sts[0], f"_temp_conv is used {len(uses)} times, expected definition + registration")
    if r.lineno < sts[0].lineno:
        fail(r, "registration precedes the table")
    return {'units': units,
            'rows': [(a, b, f, o) for (a, b), (f, o) in rows.items()]}


# ------------------------------------------------------------ emission

def _cq(x):
    return f"(({x.numerator})%Z # {x.denominator})"


def generate(path=None):
    d = extract(path)
    L = ["(* GENERATED by /verif/translate/temptable.py from",
         "   src/quantity/predefined.py (_temp_conv, Temperature units).",
         "   Do not edit; rewritten on every run. *)",
         "From QV Require Import Model.Num Model.Quantity.",
         "Open Scope Z_scope.",
         "",
         f"Definition temp_cls : N := {TEMP_CLS_ID}%N.   (* class Temperature(Quantity): no reference unit *)"]
    for nm, i in UNIT_IDS.items():
        L.append(f"Definition uid_{COQ_NAME[nm]} : N := {i}%N.   (* {nm}, symbol code points "
                 f"{[ord(ch) for ch in d['units'][nm]]} *)")
    L.append("")
    for nm in UNIT_IDS:
        L.append(f"Definition u_{COQ_NAME[nm]} : unit := mkUnit uid_{COQ_NAME[nm]} temp_cls false None None.")
    L.append("Definition temp_units : list unit := ["
             + "; ".join(f"u_{COQ_NAME[nm]}" for nm in UNIT_IDS) + "].")
    L.append("")
    L.append("(* (from, to) |-> (factor, offset); later rows of the source list that")
    L.append("   repeat a pair have already replaced the earlier ones (dict semantics) *)")
    L.append("Definition temp_table : table := [")
    L.append(";\n".join(
        f"  ((uid_{COQ_NAME[a]}, uid_{COQ_NAME[b]}), ({_cq(f)}, {_cq(o)}))"
        for a, b, f, o in d['rows']))
    L.append("].")
    L.append("")
    L.append("(* Temperature.register_converter(TableConverter(_temp_conv)): the only")
    L.append("   converter of the class *)")
    L.append("Definition temp_convs : list table := [temp_table].")
    L.append("Definition temp_env : convenv := fun c => if N.eqb c temp_cls then temp_convs else [].")
    return "\n".join(L) + "\n"


if __name__ == '__main__':
    import sys
    sys.stdout.write(generate(sys.argv[1] if len(sys.argv) > 1 else None))
