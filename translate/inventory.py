"""Inventory of the package's process-global and per-object MUTABLE state, taken from
the source on every run and compared with what the models know about (fail closed).

The models' state is: the class registry, the symbol / definition / per-class unit
directories, the unit-operation cache, the converter stacks, the converter tables,
decimalfp's default rounding mode, the ISO table read once at import, and per object
the slots listed below (Term's `_normalized` / `_hash` are per-object memos, modelled
by C07 as "normalisation and hashing are functions of the items").  Any further
module-level, class-level or per-instance mutable container, any function cache decorator
(functools.cache / lru_cache / cached_property), any `global` statement, any mutable
default argument and any new slot is state the models do not have: results could
then depend on the history in ways no theorem here covers (C17: "results do not
depend on evaluation history"; C16: "rejected declarations leave no trace").  The
generator refuses such a source; the properties that depend on it (GEN_DEPS) then
report the broken obligation and search for a failing input.

Written to coq/Gen/StateInventory.v (the inventory as data, for the record).
"""
import ast
import glob
import os
import sys


class Unsupported(Exception):
    pass


MUT_CALLS = {'dict', 'set', 'list', 'defaultdict', 'OrderedDict', 'WeakValueDictionary',
             'WeakKeyDictionary', 'WeakSet', 'deque', 'Counter', 'ChainMap', 'bytearray'}

# what the models account for: (file, scope, name) -> model counterpart
EXPECTED = {
    ('__init__.py', '<module>', '_UNIT_OP_CACHE'): 'st_cache (Model/Registry.v)',
    ('__init__.py', '<module>', '_SYMBOL_UNIT_MAP'): 'st_units by symbol (Model/Registry.v)',
    ('__init__.py', '<module>', '_TERM_UNIT_MAP'): 'st_termmap (Model/Registry.v)',
    ('__init__.py', 'QuantityMeta', '_registry'): 'st_classes by dimension (Model/Registry.v)',
    ('__init__.py', 'Unit', '__slots__'): "['_qty_cls', '_symbol', '_name', '_equiv', '_definition']",
    ('__init__.py', 'Quantity', '__slots__'): "['_amount', '_unit']",
    ('money/__init__.py', 'Currency', '__slots__'): "['_smallest_fraction']",
    ('money/__init__.py', 'MoneyConverter', '_date2validity'): 'constant table (translate/mconv.py checks it)',
    ('money/currencies.py', '<module>', '_currency_dict'): 'ISO table, filled once at import (Gen/IsoTable.v)',
    ('exceptions.py', 'UndefinedResultError', '_op_syms'): 'constant table of operator symbols',
    ('predefined.py', '<module>', '_temp_conv'): 'constant table (Gen/TempTable.v)',
    ('si_prefixes.py', '<module>', 'SI_PREFIXES'): 'constant list (Gen/Prefixes.v)',
    ('si_prefixes.py', '<module>', 'SI_PREFIX_MAP'): 'constant map (Gen/Prefixes.v)',
    ('term.py', '<module>', '_SUPERSCRIPT_CHARS'): 'constant list',
    ('term.py', 'Term', '__slots__'): "['_items', '_normalized', '_hash']",
}
# per-instance containers (assigned to an attribute of self / cls in a method)
EXPECTED_ATTRS = {
    ('__init__.py', 'QuantityMeta', '_unit_map'): 'rc_units / units of the class (Model/Registry.v)',
    ('__init__.py', 'QuantityMeta', '_converters'): 'the converter stack (Model/ConvStack.v)',
    ('money/__init__.py', 'MoneyConverter', '_rate_dict'): 'cv_table (Model/MoneyConv.v)',
    ('registry.py', 'DefinedItemRegistry', '_item_def_map'): 'st_termmap / classes by dimension',
    ('registry.py', 'DefinedItemRegistry', '_item_list'): 'registration order (ids)',
}
EXPECTED_DEFAULTS = {('__init__.py', '__mul__', '_UNIT_OP_CACHE'), ('__init__.py', '__truediv__', '_UNIT_OP_CACHE'),
                     ('__init__.py', '__new__', 'MappingProxyType({})'), ('__init__.py', '__init__', 'MappingProxyType({})'),
                     ('term.py', 'split', 'ONE')}
IGNORED_NAMES = {'__all__'}


def callee(v):
    f = v.func
    if isinstance(f, ast.Name):
        return f.id
    if isinstance(f, ast.Attribute):
        return f.attr
    if isinstance(f, ast.Subscript) and isinstance(f.value, ast.Name):
        return f.value.id
    return None


def mutable(v):
    if isinstance(v, (ast.Dict, ast.List, ast.Set, ast.ListComp, ast.DictComp, ast.SetComp)):
        return True
    if isinstance(v, ast.Call):
        name = callee(v)
        return bool(name) and (name in MUT_CALLS or any(k in name for k in ('Registry', 'Map', 'Cache')))
    return False


def scan(root):
    found, defaults, other, attrs = {}, set(), [], set()
    for fp in sorted(glob.glob(os.path.join(root, '**', '*.py'), recursive=True)):
        rel = os.path.relpath(fp, root)
        if rel == 'version.py':
            continue                                  # written by the build, not part of the sources
        tree = ast.parse(open(fp, encoding='utf-8').read())
        for n in tree.body:
            items = [(n, '<module>')] if not isinstance(n, ast.ClassDef) else [(m, n.name) for m in n.body]
            for m, scope in items:
                tgt = val = None
                if isinstance(m, ast.Assign) and len(m.targets) == 1:
                    tgt, val = m.targets[0], m.value
                elif isinstance(m, ast.AnnAssign) and m.value is not None:
                    tgt, val = m.target, m.value
                if tgt is not None and isinstance(tgt, ast.Name) and mutable(val) \
                        and tgt.id not in IGNORED_NAMES:
                    found[(rel, scope, tgt.id)] = ast.unparse(val)
        for cls in [n for n in tree.body if isinstance(n, ast.ClassDef)]:
            for m in [x for x in cls.body if isinstance(x, ast.FunctionDef)]:
                for n in ast.walk(m):
                    tgt = val = None
                    if isinstance(n, ast.Assign) and len(n.targets) == 1:
                        tgt, val = n.targets[0], n.value
                    elif isinstance(n, ast.AnnAssign) and n.value is not None:
                        tgt, val = n.target, n.value
                    if tgt is not None and isinstance(tgt, ast.Attribute) \
                            and isinstance(tgt.value, ast.Name) and tgt.value.id in ('self', 'cls') \
                            and mutable(val):
                        attrs.add((rel, cls.name, tgt.attr))
        for n in ast.walk(tree):
            if isinstance(n, (ast.FunctionDef, ast.AsyncFunctionDef, ast.ClassDef)):
                for d in n.decorator_list:
                    if 'cache' in ast.unparse(d).lower():
                        other.append(f"{rel}: {n.name} is decorated with {ast.unparse(d)}")
            if isinstance(n, (ast.Global, ast.Nonlocal)):
                other.append(f"{rel}: `{'global' if isinstance(n, ast.Global) else 'nonlocal'} "
                             f"{', '.join(n.names)}`")
            if isinstance(n, (ast.FunctionDef, ast.AsyncFunctionDef)):
                for d in n.args.defaults + [k for k in n.args.kw_defaults if k is not None]:
                    if mutable(d) or (isinstance(d, ast.Name) and d.id.isupper()) \
                            or (isinstance(d, ast.Call) and callee(d) == 'MappingProxyType'):
                        defaults.add((rel, n.name, ast.unparse(d)))
    return found, defaults, other, attrs


def generate(init_path):
    root = os.path.dirname(init_path)
    found, defaults, other, attrs = scan(root)
    problems = list(other)
    for k, v in found.items():
        if k not in EXPECTED:
            problems.append(f"{k[0]}: {k[1]}.{k[2]} = {v[:60]} is mutable state the models do not have")
        elif k[2] == '__slots__' and v != EXPECTED[k]:
            problems.append(f"{k[0]}: {k[1]}.__slots__ = {v} (modelled: {EXPECTED[k]})")
    for k in EXPECTED:
        if k not in found:
            problems.append(f"{k[0]}: {k[1]}.{k[2]} (modelled as {EXPECTED[k]}) is gone")
    for a in sorted(attrs - set(EXPECTED_ATTRS)):
        problems.append(f"{a[0]}: {a[1]} instances get a mutable container {a[2]} the models do not have")
    for a in sorted(set(EXPECTED_ATTRS) - attrs):
        problems.append(f"{a[0]}: {a[1]}.{a[2]} (modelled as {EXPECTED_ATTRS[a]}) is gone")
    for d in defaults - EXPECTED_DEFAULTS:
        problems.append(f"{d[0]}: default argument {d[2]} of {d[1]} is shared between calls")
    if problems:
        raise Unsupported("; ".join(problems))
    lines = [f'  ("{k[0]}", "{k[1]}", "{k[2]}")' for k in sorted(found)] + \
        [f'  ("{k[0]}", "{k[1]} instance", "{k[2]}")' for k in sorted(attrs)]
    return ("(* GENERATED by /verif/translate/inventory.py: the package's process-global and\n"
            "   per-object mutable state found in the source, all of it accounted for by the\n"
            "   models (see the generator for the counterparts).  Do not edit. *)\n"
            "From Coq Require Import String List.\nImport ListNotations.\nOpen Scope string_scope.\n\n"
            "Definition state_inventory : list (string * string * string) :=\n  [\n"
            + ";\n".join(lines) + "\n  ].\n")


if __name__ == '__main__':
    try:
        sys.stdout.write(generate(sys.argv[1]))
    except Unsupported as e:
        sys.stderr.write(f"Unsupported: {e}\n")
        sys.exit(2)
