"""Fail-closed translation of the validation part of MoneyMeta.new_unit
(src/quantity/money/__init__.py): which smallest fraction a new currency gets from
`minor_unit` and `smallest_fraction`, and which combinations are rejected.

Output: coq/Gen/FractionImpl.v (`resolve_fraction_impl`).  Proofs/GenFractionEq.v
proves it equal, on all inputs, to `resolve_fraction` of Model/MoneyOps.v that the
theorems of C08 are about.

The statements from the top of the method down to (not including) the call
`curr = super().new_unit(symbol, name)` are executed symbolically once for each
kind of the two arguments, as the model classifies them:
    minor_unit         None | an Integral z | something else
    smallest_fraction  None | convertible to a Decimal of value v with p fractional
                       digits | `Decimal(...)` raises e
Tests that the kind decides (`x is None`, `isinstance(minor_unit, Integral)`) are
evaluated; the others (`minor_unit < 0`, `smallest_fraction <= 0`, the test on
`1 / smallest_fraction`, `minor_unit != smallest_fraction.precision`) are
translated.  Trusted representation: `Decimal('0.01')` is its exact value,
`Decimal(10) ** -z` is `pow10 (-z)`, `.precision` of the converted fraction is p,
`.numerator` / `.denominator` are those of the reduced quotient.
"""
import ast
from fractions import Fraction


class Unsupported(Exception):
    pass


def fail(node, why):
    raise Unsupported(f"line {getattr(node, 'lineno', '?')}: {why}: "
                      f"{ast.unparse(node)[:160] if isinstance(node, ast.AST) else node}")


class Raised(Exception):
    def __init__(self, term):
        self.term = term


class Sym:
    """symbolic execution of straight-line code with branches; state: kinds + terms"""

    def __init__(self, mu, sf):
        # kinds: mu in none/int/other ; sf in none/dec/bad ; after conversion 'decv'
        self.kind = {'minor_unit': mu, 'smallest_fraction': sf}
        self.q = {}        # name -> Gallina Q term
        if sf == 'dec':
            self.pending_dec = True     # value available only after Decimal(smallest_fraction)

    # ---- expressions
    def z(self, e):
        if isinstance(e, ast.Name) and e.id == 'minor_unit' and self.kind['minor_unit'] == 'int':
            return 'z'
        if isinstance(e, ast.Constant) and type(e.value) is int:
            return f"({e.value})"
        if isinstance(e, ast.UnaryOp) and isinstance(e.op, ast.USub):
            x = self.z(e.operand)
            return f"(- {x})" if x else None
        if isinstance(e, ast.Attribute) and e.attr == 'precision' and isinstance(e.value, ast.Name) \
                and e.value.id == 'smallest_fraction' and self.kind['smallest_fraction'] == 'decv':
            return 'p'
        if isinstance(e, ast.Attribute) and e.attr in ('numerator', 'denominator') \
                and isinstance(e.value, ast.Name) and e.value.id in self.q:
            t = self.q[e.value.id]
            return f"(Qnum {t})" if e.attr == 'numerator' else f"(Zpos (Qden {t}))"
        return None

    def qv(self, e):
        if isinstance(e, ast.Name) and e.id in self.q:
            return self.q[e.id]
        if isinstance(e, ast.Name) and e.id == 'smallest_fraction' \
                and self.kind['smallest_fraction'] == 'decv':
            return 'v'
        if isinstance(e, ast.Constant) and type(e.value) is int:
            return {0: '0', 1: '1'}.get(e.value, f"(qz ({e.value}))")
        if isinstance(e, ast.Call) and ast.unparse(e.func) == 'Decimal' and len(e.args) == 1 \
                and isinstance(e.args[0], ast.Constant) and isinstance(e.args[0].value, str):
            f = Fraction(e.args[0].value)
            return f"({f.numerator} # {f.denominator})"
        if isinstance(e, ast.BinOp) and isinstance(e.op, ast.Pow) \
                and ast.unparse(e.left) == 'Decimal(10)':
            k = self.z(e.right)
            return f"(pow10 {k})" if k else None
        if isinstance(e, ast.BinOp) and isinstance(e.op, ast.Div):
            a, b = self.qv(e.left), self.qv(e.right)
            return f"(qdiv {a} {b})" if a and b else None
        return None

    def cond(self, e):
        """-> True / False (decided by the kinds) or a Gallina bool term"""
        if isinstance(e, ast.UnaryOp) and isinstance(e.op, ast.Not):
            c = self.cond(e.operand)
            return (not c) if isinstance(c, bool) else f"(negb {c})"
        if isinstance(e, ast.BoolOp):
            cs = [self.cond(v) for v in e.values]
            isand = isinstance(e.op, ast.And)
            out = []
            for c in cs:
                if isinstance(c, bool):
                    if c != isand:
                        return c            # False in an `and`, True in an `or`
                    continue
                out.append(c)
            if not out:
                return isand
            return '(' + (' && ' if isand else ' || ').join(out) + ')'
        if isinstance(e, ast.Call) and ast.unparse(e.func) == 'isinstance' and len(e.args) == 2:
            x, t = e.args
            if ast.unparse(x) == 'minor_unit' and ast.unparse(t) == 'Integral' \
                    and self.kind['minor_unit'] in ('int', 'other'):
                return self.kind['minor_unit'] == 'int'
            if ast.unparse(x) == 'smallest_fraction' and ast.unparse(t) == 'Decimal' \
                    and self.kind['smallest_fraction'] in ('decv', 'dflt'):
                return True
            fail(e, "isinstance")
        if isinstance(e, ast.Compare) and len(e.ops) == 1:
            op, a, b = e.ops[0], e.left, e.comparators[0]
            if isinstance(op, (ast.Is, ast.IsNot)) and isinstance(b, ast.Constant) and b.value is None \
                    and isinstance(a, ast.Name) and a.id in self.kind:
                isnone = self.kind[a.id] == 'none'
                return isnone if isinstance(op, ast.Is) else not isnone
            za, zb = self.z(a), self.z(b)
            if za and zb:
                t = {ast.Lt: f"({za} <? {zb})", ast.Gt: f"({zb} <? {za})",
                     ast.LtE: f"({za} <=? {zb})", ast.GtE: f"({zb} <=? {za})",
                     ast.Eq: f"({za} =? {zb})", ast.NotEq: f"(negb ({za} =? {zb}))"}.get(type(op))
                if t:
                    return t
            qa, qb = self.qv(a), self.qv(b)
            if qa and qb:
                t = {ast.Lt: f"(qltb {qa} {qb})", ast.Gt: f"(qltb {qb} {qa})",
                     ast.LtE: f"(qleb {qa} {qb})", ast.GtE: f"(qleb {qb} {qa})"}.get(type(op))
                if t:
                    return t
        fail(e, "condition")

    # ---- statements: returns the Gallina term of type res Q for `stmts` then `k()`
    def run(self, stmts, k):
        if not stmts:
            return k(self)
        s, rest = stmts[0], stmts[1:]
        if isinstance(s, ast.Expr) and isinstance(s.value, ast.Constant):
            return self.run(rest, k)
        if isinstance(s, ast.Raise):
            n = s.exc.func.id if isinstance(s.exc, ast.Call) and isinstance(s.exc.func, ast.Name) else None
            if n == 'ValueError':
                return "Err EValueError"
            if n == 'TypeError':
                return "Err ETypeError"
            fail(s, "exception")
        if isinstance(s, ast.Assert):
            c = self.cond(s.test)
            if c is True:
                return self.run(rest, k)
            fail(s, "assert that the kinds do not decide")
        if isinstance(s, ast.If):
            c = self.cond(s.test)
            if c is True:
                return self.run(s.body + rest, k)
            if c is False:
                return self.run((s.orelse or []) + rest, k)
            a = self.fork().run(s.body + rest, k)
            b = self.fork().run((s.orelse or []) + rest, k)
            return f"if {c} then {a} else {b}"
        if isinstance(s, ast.Assign) and len(s.targets) == 1 and isinstance(s.targets[0], ast.Name):
            name, v = s.targets[0].id, s.value
            if name == 'smallest_fraction':
                if ast.unparse(v) == 'Decimal(smallest_fraction)':
                    kd = self.kind['smallest_fraction']
                    if kd == 'bad':
                        return "Err e"
                    if kd == 'dec':
                        self.kind['smallest_fraction'] = 'decv'
                        return self.run(rest, k)
                    fail(s, "conversion of a missing fraction")
                q = self.qv(v)
                if q and self.kind['smallest_fraction'] == 'none':
                    self.kind['smallest_fraction'] = 'dflt'
                    self.q['smallest_fraction'] = q
                    return self.run(rest, k)
                fail(s, "smallest_fraction")
            q = self.qv(v)
            if q:
                self.q[name] = q
                return self.run(rest, k)
        fail(s, "statement")

    def fork(self):
        o = Sym.__new__(Sym)
        o.kind, o.q = dict(self.kind), dict(self.q)
        return o

    def result(self):
        kd = self.kind['smallest_fraction']
        if kd == 'dflt':
            return f"Ok {self.q['smallest_fraction']}"
        if kd == 'decv':
            return "Ok v"
        raise Unsupported(f"no smallest fraction at the end (kind {kd})")


PRELUDE = '''(* GENERATED by /verif/translate/fraction.py from src/quantity/money/__init__.py
   (MoneyMeta.new_unit: the validation of minor_unit / smallest_fraction).
   Do not edit; rewritten on every run. *)
From QV Require Import Model.Num Model.Rounding Model.Quantity Model.MoneyOps.
Open Scope Z_scope.
'''

PAT = {('none', 'none'): 'MinNone, SfNone', ('none', 'dec'): 'MinNone, SfDec v p',
       ('none', 'bad'): 'MinNone, SfBad e', ('int', 'none'): 'MinInt z, SfNone',
       ('int', 'dec'): 'MinInt z, SfDec v p', ('int', 'bad'): 'MinInt z, SfBad e',
       ('other', 'none'): 'MinOther, SfNone', ('other', 'dec'): 'MinOther, SfDec v p',
       ('other', 'bad'): 'MinOther, SfBad e'}


def generate(path):
    tree = ast.parse(open(path, encoding='utf-8').read())
    ms = [m for n in tree.body if isinstance(n, ast.ClassDef) and n.name == 'MoneyMeta'
          for m in n.body if isinstance(m, ast.FunctionDef) and m.name == 'new_unit']
    if len(ms) != 1 or ms[0].decorator_list:
        raise Unsupported("MoneyMeta.new_unit not found once")
    m = ms[0]
    names = [a.arg for a in m.args.args]
    dfl = [ast.unparse(d) for d in m.args.defaults]
    if names != ['cls', 'symbol', 'name', 'minor_unit', 'smallest_fraction'] or dfl != ['None'] * 3:
        raise Unsupported(f"MoneyMeta.new_unit: signature {names} {dfl}")
    idx = [i for i, s in enumerate(m.body) if ast.unparse(s) == 'curr = super().new_unit(symbol, name)']
    if len(idx) != 1:
        raise Unsupported("MoneyMeta.new_unit: `curr = super().new_unit(symbol, name)` not found once")
    head, tail = m.body[:idx[0]], m.body[idx[0] + 1:]
    # the fraction that was validated is the one the currency gets
    if not any(ast.unparse(s) == 'curr._smallest_fraction = smallest_fraction' for s in tail):
        raise Unsupported("MoneyMeta.new_unit: `curr._smallest_fraction = smallest_fraction` missing")
    rows = []
    for (mu, sf), pat in PAT.items():
        term = Sym(mu, sf).run(list(head), lambda st: st.result())
        rows.append(f"| {pat} => {term}")
    return (PRELUDE + "\n(* MoneyMeta.new_unit, down to the call of QuantityMeta.new_unit *)\n"
            "Definition resolve_fraction_impl (mu : minor_arg) (sf : sf_arg) : res Q :=\n"
            "match mu, sf with\n" + "\n".join(rows) + "\nend.\n")


if __name__ == '__main__':
    import sys
    print(generate(sys.argv[1] if len(sys.argv) > 1 else '/repo/src/quantity/money/__init__.py'))
