"""Fail-closed extractors for property C20 (DESIGN.md 3.7).

  generate_catalogue()  -> coq/Gen/Catalogue.v   declaration data of
                           quantity.predefined (types, units with their
                           DECLARED un-normalised definitions, temperature
                           converter table)
  generate_prefixes()   -> coq/Gen/Prefixes.v    SI prefixes of si_prefixes.py
  generate_doctables()  -> coq/Gen/DocTables.v   rows of predefined.__doc__

The catalogue is read twice, by two independent routes, and the two readings
must agree item by item:
  (a) /repo/src/quantity/predefined.py is imported in a SUBPROCESS and only
      public declaration data is dumped (cls.definition, cls.ref_unit,
      cls.quantum, cls.units(), unit.symbol/name/definition/is_base_unit);
  (b) the module source is scanned with `ast`; every declaration statement
      must have one of the known shapes and its literal constants (numeric
      factors, prefixes, component names, exponents) must reappear in (a).
No scale (`Unit._equiv`) is ever read: the Coq model recomputes all scales.
Anything unexpected raises Unsupported.
"""
import ast
import functools
import json
import os
import re
import subprocess
import sys
from fractions import Fraction

REPO = (os.environ.get('QUANTITY_REPO') or '/repo')


class Unsupported(Exception):
    pass


def fail(why, node=None):
    where = f"line {node.lineno}: " if node is not None and hasattr(node, 'lineno') else ''
    raise Unsupported(where + why)


def _src(name):
    return os.path.join(REPO, 'src', 'quantity', name)


# ===================================================================== dump

_DUMP = r'''
import json, sys
from fractions import Fraction
from numbers import Rational
import quantity
from quantity import Unit, Quantity
import quantity.predefined as pd

def num(x):
    if isinstance(x, float) or not isinstance(x, Rational):
        raise SystemExit("non-exact number %r" % (x,))
    f = Fraction(x)
    return [f.numerator, f.denominator]

types, units, names = [], [], {}
pub = list(pd.__all__)
if len(set(pub)) != len(pub):
    raise SystemExit("duplicate names in __all__")
seen_units = {}
for name, o in vars(pd).items():
    if isinstance(o, type) and issubclass(o, Quantity) and o is not Quantity \
            and o.__module__ == pd.__name__:
        if name != o.__name__ or name not in pub:
            raise SystemExit("class %s not exported under its own name" % name)
        if o.is_base_cls() == o.is_derived_cls():
            raise SystemExit("class %s neither base nor derived" % name)
        d = None
        if o.is_derived_cls():
            d = []
            for c, e in o.definition:
                if not (isinstance(c, type) and issubclass(c, Quantity)) or not isinstance(e, int):
                    raise SystemExit("class definition item of %s" % name)
                d.append([c.__name__, e])
        ref = o.ref_unit
        types.append({'name': name, 'def': d,
                      'ref': None if ref is None else ref.symbol,
                      'quantum': None if o.quantum is None else num(o.quantum),
                      'units': [u.symbol for u in o.units()]})
    elif isinstance(o, Unit):
        if name not in pub:
            raise SystemExit("unit %s not exported" % name)
        if o.symbol in seen_units:
            raise SystemExit("unit %s bound twice" % o.symbol)
        seen_units[o.symbol] = name
        names[name] = o.symbol
        items = None
        if not o.is_base_unit():
            items = []
            for el, e in o.definition:
                if not isinstance(e, int) or isinstance(e, bool):
                    raise SystemExit("exponent of %s" % o.symbol)
                if isinstance(el, Unit):
                    items.append(['u', el.symbol, e])
                else:
                    items.append(['n', num(el), e])
        if Unit(o.symbol) is not o:
            raise SystemExit("symbol %s does not resolve to its unit" % o.symbol)
        units.append({'var': name, 'sym': o.symbol, 'name': o.name,
                      'cls': o.qty_cls.__name__, 'is_ref': bool(o.is_ref_unit()),
                      'def': items})
for n in pub:
    if n not in names and n not in [t['name'] for t in types]:
        raise SystemExit("exported name %s is neither a type nor a unit" % n)
json.dump({'types': types, 'units': units, 'names': names,
           'doc': pd.__doc__}, sys.stdout, ensure_ascii=True)
'''


@functools.lru_cache(maxsize=None)
def _dump_cached(key):
    env = dict(os.environ)
    env['DECIMALFP_FORCE_PYTHON_IMPL'] = '1'
    env['PYTHONPATH'] = os.path.join(REPO, 'src')
    env['PYTHONHASHSEED'] = '0'
    env['PYTHONDONTWRITEBYTECODE'] = '1'
    py = sys.executable or '/venv/bin/python'
    p = subprocess.run([py, '-c', _DUMP], env=env, stdout=subprocess.PIPE,
                       stderr=subprocess.PIPE, text=True, timeout=120)
    if p.returncode != 0:
        fail("dump of quantity.predefined failed: " + (p.stderr or p.stdout)[-400:])
    d = json.loads(p.stdout)
    _check_dump(d)
    return d


def _stamp():
    out = []
    for fn in ('predefined.py', 'si_prefixes.py', '__init__.py', 'term.py'):
        st = os.stat(_src(fn))
        out.append((fn, st.st_mtime_ns, st.st_size))
    return tuple(out)


def dump():
    """Public declaration data of quantity.predefined (cached per source state)."""
    return _dump_cached(_stamp())


def _check_dump(d):
    tnames = [t['name'] for t in d['types']]
    if len(set(tnames)) != len(tnames) or not tnames:
        fail("type names not unique")
    syms = [u['sym'] for u in d['units']]
    if len(set(syms)) != len(syms):
        fail("unit symbols not unique")
    by_sym = {u['sym']: u for u in d['units']}
    for t in d['types']:
        if sorted(t['units']) != sorted(u['sym'] for u in d['units'] if u['cls'] == t['name']):
            fail(f"units() of {t['name']} differ from the module's unit objects")
        if t['ref'] is not None and t['ref'] not in t['units']:
            fail(f"reference unit of {t['name']} is not one of its units")
        for c, _ in t['def'] or []:
            if c not in tnames:
                fail(f"{t['name']} defined by unknown type {c}")
    for u in d['units']:
        if u['cls'] not in tnames:
            fail(f"unit {u['sym']} of unknown type")
        t = d['types'][tnames.index(u['cls'])]
        if u['is_ref'] != (t['ref'] == u['sym']):
            fail(f"is_ref_unit() of {u['sym']} disagrees with {u['cls']}.ref_unit")
        for it in u['def'] or []:
            if it[0] == 'u' and it[1] not in by_sym:
                fail(f"{u['sym']} defined by unknown unit {it[1]}")


# ===================================================================== ast: prefixes

def scan_prefixes(path=None):
    """[(var, name, abbr, exp)], base — from the source text of si_prefixes.py."""
    path = path or _src('si_prefixes.py')
    tree = ast.parse(open(path, encoding='utf-8').read())
    prefixes, listed, base = [], None, None
    for st in tree.body:
        if isinstance(st, ast.Expr) and isinstance(st.value, ast.Constant) \
                and isinstance(st.value.value, str):
            continue
        if isinstance(st, (ast.Import, ast.ImportFrom)):
            continue
        if isinstance(st, ast.ClassDef) and st.name == 'SIPrefix':
            base = _prefix_class(st)
            continue
        if isinstance(st, ast.Assign) and len(st.targets) == 1 \
                and isinstance(st.targets[0], ast.Name):
            tgt, v = st.targets[0].id, st.value
            if isinstance(v, ast.Call) and isinstance(v.func, ast.Name) \
                    and v.func.id == 'SIPrefix' and not v.keywords and len(v.args) == 3:
                a = [_const(x) for x in v.args]
                if not (isinstance(a[0], str) and isinstance(a[1], str)
                        and isinstance(a[2], int) and not isinstance(a[2], bool)):
                    fail("SIPrefix arguments", st)
                prefixes.append((tgt, a[0], a[1], a[2]))
                continue
            if tgt == 'SI_PREFIXES' and isinstance(v, ast.List) \
                    and all(isinstance(e, ast.Name) for e in v.elts):
                listed = [e.id for e in v.elts]
                continue
            if tgt == 'SI_PREFIX_MAP' and isinstance(v, ast.DictComp):
                continue
        fail("statement not understood in si_prefixes.py: " + ast.dump(st)[:120], st)
    if base is None or listed is None or not prefixes:
        fail("si_prefixes.py: class SIPrefix / SI_PREFIXES / prefixes missing")
    vars_ = [p[0] for p in prefixes]
    if len(set(vars_)) != len(vars_) or listed != vars_:
        fail("SI_PREFIXES does not list exactly the defined prefixes in order")
    return prefixes, base


def _const(e):
    if isinstance(e, ast.Constant):
        return e.value
    if isinstance(e, ast.UnaryOp) and isinstance(e.op, ast.USub) \
            and isinstance(e.operand, ast.Constant) and isinstance(e.operand.value, int):
        return -e.operand.value
    fail("constant expected: " + ast.dump(e)[:80], e)


def _prefix_class(cls):
    """SIPrefix must store (name, abbr, exp) and have factor = Decimal(B) ** self.exp."""
    base = None
    init_ok = False
    for st in cls.body:
        if isinstance(st, ast.Expr) and isinstance(st.value, ast.Constant):
            continue
        if isinstance(st, ast.FunctionDef) and st.name == '__init__':
            args = [a.arg for a in st.args.args]
            body = [s for s in st.body if not (isinstance(s, ast.Expr)
                                               and isinstance(s.value, ast.Constant))]
            want = {'name', 'abbr', 'exp'}
            got = set()
            for s in body:
                if isinstance(s, ast.Assign) and len(s.targets) == 1 \
                        and isinstance(s.targets[0], ast.Attribute) \
                        and isinstance(s.targets[0].value, ast.Name) \
                        and s.targets[0].value.id == 'self' \
                        and isinstance(s.value, ast.Name) \
                        and s.value.id == s.targets[0].attr:
                    got.add(s.value.id)
                else:
                    fail("SIPrefix.__init__ body", s)
            if args != ['self', 'name', 'abbr', 'exp'] or got != want:
                fail("SIPrefix.__init__ signature", st)
            init_ok = True
            continue
        if isinstance(st, ast.FunctionDef) and st.name == 'factor':
            body = [s for s in st.body if not (isinstance(s, ast.Expr)
                                               and isinstance(s.value, ast.Constant))]
            if len(body) != 1 or not isinstance(body[0], ast.Return):
                fail("SIPrefix.factor body", st)
            e = body[0].value
            ok = (isinstance(e, ast.BinOp) and isinstance(e.op, ast.Pow)
                  and isinstance(e.left, ast.Call) and isinstance(e.left.func, ast.Name)
                  and e.left.func.id == 'Decimal' and len(e.left.args) == 1
                  and not e.left.keywords
                  and isinstance(e.left.args[0], ast.Constant)
                  and isinstance(e.left.args[0].value, int)
                  and not isinstance(e.left.args[0].value, bool)
                  and isinstance(e.right, ast.Attribute) and e.right.attr == 'exp'
                  and isinstance(e.right.value, ast.Name) and e.right.value.id == 'self')
            if not ok:
                fail("SIPrefix.factor is not `Decimal(<int>) ** self.exp`", st)
            base = e.left.args[0].value
            continue
        fail("SIPrefix member not understood", st)
    if not init_ok or base is None:
        fail("SIPrefix: __init__ or factor missing", cls)
    return base


# ===================================================================== ast: predefined.py

def _numexpr(e, prefixes):
    """Exact value of the numeric part of a unit definition as written."""
    if isinstance(e, ast.Name):
        if e.id in prefixes:
            base, exp = prefixes[e.id]
            return Fraction(base) ** exp
        fail(f"name {e.id} is not an SI prefix", e)
    if isinstance(e, ast.Call) and isinstance(e.func, ast.Name) and not e.keywords:
        if e.func.id == 'Decimal' and len(e.args) == 1:
            v = _const(e.args[0])
            if isinstance(v, bool) or not isinstance(v, (int, str)):
                fail("Decimal argument", e)
            if isinstance(v, str) and not re.fullmatch(r'-?\d+(\.\d+)?', v):
                fail("Decimal literal " + v, e)
            return Fraction(v)
        if e.func.id == 'Fraction' and len(e.args) == 2:
            a, b = _const(e.args[0]), _const(e.args[1])
            if not all(isinstance(x, int) and not isinstance(x, bool) for x in (a, b)) or b == 0:
                fail("Fraction arguments", e)
            return Fraction(a, b)
    if isinstance(e, ast.BinOp) and isinstance(e.op, ast.Pow):
        b = _numexpr(e.left, prefixes)
        x = _const(e.right)
        if not isinstance(x, int) or isinstance(x, bool) or (b == 0 and x < 0):
            fail("exponent", e)
        return b ** x
    fail("numeric expression not understood: " + ast.dump(e)[:100], e)


def _defexpr(e, prefixes):
    """Definition argument of new_unit -> [('n', Fraction, 1) | ('u', var, exp)]."""
    if isinstance(e, ast.BinOp) and isinstance(e.op, ast.Mult) \
            and isinstance(e.right, ast.Name):
        return [('n', _numexpr(e.left, prefixes), 1), ('u', e.right.id, 1)]
    if isinstance(e, ast.Call) and isinstance(e.func, ast.Name) and e.func.id == 'Term' \
            and len(e.args) == 1 and not e.keywords and isinstance(e.args[0], ast.Tuple):
        items = []
        for it in e.args[0].elts:
            if not (isinstance(it, ast.Tuple) and len(it.elts) == 2
                    and isinstance(it.elts[0], ast.Name)):
                fail("Term item", it)
            x = _const(it.elts[1])
            if not isinstance(x, int) or isinstance(x, bool):
                fail("Term exponent", it)
            items.append(('u', it.elts[0].id, x))
        return items
    fail("unit definition not understood: " + ast.dump(e)[:100], e)


def _clsexpr(e):
    """define_as of a class: product/quotient/power of class names -> [(name, exp)]."""
    if isinstance(e, ast.Name):
        return [(e.id, 1)]
    if isinstance(e, ast.BinOp) and isinstance(e.op, ast.Pow):
        x = _const(e.right)
        if not isinstance(x, int) or isinstance(x, bool):
            fail("class exponent", e)
        return [(n, k * x) for n, k in _clsexpr(e.left)]
    if isinstance(e, ast.BinOp) and isinstance(e.op, ast.Mult):
        return _clsexpr(e.left) + _clsexpr(e.right)
    if isinstance(e, ast.BinOp) and isinstance(e.op, ast.Div):
        return _clsexpr(e.left) + [(n, -k) for n, k in _clsexpr(e.right)]
    fail("class definition not understood: " + ast.dump(e)[:100], e)


def scan_predefined(path=None):
    """Declaration statements of predefined.py, read from the source text."""
    path = path or _src('predefined.py')
    tree = ast.parse(open(path, encoding='utf-8').read())
    pre, base = scan_prefixes()
    prefixes = {v: (base, exp) for v, _, _, exp in pre}
    imported_prefixes = set()
    classes, decls, temp, registered, exported = {}, [], None, [], None
    for idx, st in enumerate(tree.body):
        if idx == 0 and isinstance(st, ast.Expr) and isinstance(st.value, ast.Constant) \
                and isinstance(st.value.value, str):
            continue
        if isinstance(st, ast.ImportFrom):
            if st.module == 'si_prefixes' and st.level == 1:
                for a in st.names:
                    if a.asname or a.name not in prefixes:
                        fail("import from si_prefixes", st)
                    imported_prefixes.add(a.name)
            continue
        if isinstance(st, ast.Import):
            continue
        if isinstance(st, ast.ClassDef):
            if [ast.dump(b) for b in st.bases] != [ast.dump(ast.Name('Quantity', ast.Load()))]:
                fail("class base", st)
            kw = {}
            for k in st.keywords:
                if k.arg == 'define_as':
                    kw['def'] = _clsexpr(k.value)
                elif k.arg in ('ref_unit_name', 'ref_unit_symbol'):
                    v = _const(k.value)
                    if not isinstance(v, str):
                        fail("class keyword " + k.arg, st)
                    kw[k.arg] = v
                elif k.arg == 'quantum':
                    kw['quantum'] = _numexpr(k.value, {})
                else:
                    fail(f"class keyword {k.arg}", st)
            for b in st.body:
                if not (isinstance(b, ast.Expr) and isinstance(b.value, ast.Constant)) \
                        and not isinstance(b, ast.Pass):
                    fail("class body must be empty", b)
            if st.name in classes:
                fail("class declared twice", st)
            classes[st.name] = kw
            continue
        if isinstance(st, ast.Assert):
            t = st.test
            ok = (isinstance(t, ast.Compare) and len(t.ops) == 1
                  and isinstance(t.ops[0], ast.IsNot)
                  and isinstance(t.left, ast.Attribute) and t.left.attr == 'ref_unit'
                  and isinstance(t.comparators[0], ast.Constant)
                  and t.comparators[0].value is None)
            if not ok:
                fail("assert", st)
            continue
        if isinstance(st, ast.Assign) and len(st.targets) == 1 \
                and isinstance(st.targets[0], ast.Name):
            tgt, v = st.targets[0].id, st.value
            if tgt == '__all__' and isinstance(v, ast.List):
                exported = [_const(x) for x in v.elts]
                continue
            if tgt == '_temp_conv' and isinstance(v, ast.List):
                temp = []
                for row in v.elts:
                    if not (isinstance(row, ast.Tuple) and len(row.elts) == 4
                            and isinstance(row.elts[0], ast.Name)
                            and isinstance(row.elts[1], ast.Name)):
                        fail("_temp_conv row", row)
                    temp.append((row.elts[0].id, row.elts[1].id,
                                 _numexpr(row.elts[2], {}), _numexpr(row.elts[3], {})))
                continue
            if isinstance(v, ast.Attribute) and v.attr == 'ref_unit' \
                    and isinstance(v.value, ast.Name):
                decls.append({'kind': 'ref', 'var': tgt, 'cls': v.value.id})
                continue
            if isinstance(v, ast.Call) and isinstance(v.func, ast.Attribute) \
                    and isinstance(v.func.value, ast.Name):
                cls, meth = v.func.value.id, v.func.attr
                if meth == 'new_unit' and not v.keywords and len(v.args) in (2, 3):
                    sym, name = _const(v.args[0]), _const(v.args[1])
                    if not isinstance(sym, str) or not isinstance(name, str):
                        fail("new_unit symbol/name", st)
                    d = _defexpr(v.args[2], {p: prefixes[p] for p in imported_prefixes}) \
                        if len(v.args) == 3 else None
                    decls.append({'kind': 'new', 'var': tgt, 'cls': cls, 'sym': sym,
                                  'name': name, 'def': d})
                    continue
                if meth == 'derive_unit_from' and v.args \
                        and all(isinstance(a, ast.Name) for a in v.args):
                    kw = {}
                    for k in v.keywords:
                        if k.arg not in ('symbol', 'name') or not isinstance(_const(k.value), str):
                            fail("derive_unit_from keyword", st)
                        kw[k.arg] = _const(k.value)
                    decls.append({'kind': 'derive', 'var': tgt, 'cls': cls,
                                  'args': [a.id for a in v.args], **kw})
                    continue
        if isinstance(st, ast.Expr) and isinstance(st.value, ast.Call):
            c = st.value
            ok = (isinstance(c.func, ast.Attribute) and c.func.attr == 'register_converter'
                  and isinstance(c.func.value, ast.Name) and len(c.args) == 1
                  and not c.keywords and isinstance(c.args[0], ast.Call)
                  and isinstance(c.args[0].func, ast.Name)
                  and c.args[0].func.id == 'TableConverter'
                  and len(c.args[0].args) == 1 and not c.args[0].keywords
                  and isinstance(c.args[0].args[0], ast.Name)
                  and c.args[0].args[0].id == '_temp_conv')
            if ok:
                registered.append(c.func.value.id)
                continue
        fail("statement not understood in predefined.py: " + ast.dump(st)[:140], st)
    if exported is None:
        fail("__all__ missing")
    return {'classes': classes, 'decls': decls, 'temp': temp,
            'registered': registered, 'exported': exported}


def cross_check(d=None, s=None):
    """Every declaration read from the source text reappears, constant by
    constant, in the data dumped from the imported module — and vice versa."""
    d = d or dump()
    s = s or scan_predefined()
    names = d['names']                      # variable -> symbol
    by_sym = {u['sym']: u for u in d['units']}
    types = {t['name']: t for t in d['types']}
    if sorted(s['exported']) != sorted(list(names) + list(types)):
        fail("__all__ in the source differs from the dumped public names")
    if sorted(s['classes']) != sorted(types):
        fail("classes in the source differ from the dumped types")
    order = [t['name'] for t in d['types']]
    if order != list(s['classes']):
        fail("declaration order of the types differs")
    for cn_, kw in s['classes'].items():
        t = types[cn_]
        want = None if 'def' not in kw else [[n, e] for n, e in kw['def']]
        if want != t['def']:
            fail(f"definition of type {cn_}: source {want}, dump {t['def']}")
        if 'ref_unit_symbol' in kw and kw['ref_unit_symbol'] != t['ref']:
            fail(f"reference symbol of {cn_}")
        q = kw.get('quantum')
        if (None if q is None else [q.numerator, q.denominator]) != t['quantum']:
            fail(f"quantum of {cn_}")
    seen = set()
    for dc in s['decls']:
        var = dc['var']
        if var not in names or var in seen:
            fail(f"source declares {var}, not (uniquely) found in the dump")
        seen.add(var)
        u = by_sym[names[var]]
        if u['cls'] != dc['cls']:
            fail(f"{var}: declared on {dc['cls']}, dump says {u['cls']}")
        if dc['kind'] == 'ref':
            if not u['is_ref']:
                fail(f"{var} = {dc['cls']}.ref_unit is not the reference unit in the dump")
            kw = s['classes'][dc['cls']]
            if kw.get('ref_unit_name') is not None and kw['ref_unit_name'] != u['name']:
                fail(f"name of reference unit {var}")
            continue
        if u['is_ref']:
            fail(f"{var} is a reference unit but was declared by {dc['kind']}")
        if dc['kind'] == 'new':
            if dc['sym'] != u['sym'] or dc['name'] != u['name']:
                fail(f"{var}: symbol/name differ between source and dump")
            if dc['def'] is None:
                want = None
            else:
                want = []
                for it in dc['def']:
                    if it[0] == 'n':
                        want.append(['n', [it[1].numerator, it[1].denominator], it[2]])
                    else:
                        if it[1] not in names:
                            fail(f"{var}: component {it[1]} unknown")
                        want.append(['u', names[it[1]], it[2]])
            if want != u['def']:
                fail(f"{var}: declared definition {want} but the module holds {u['def']}")
        else:                                   # derive_unit_from
            cdef = types[dc['cls']]['def']
            if cdef is None or len(cdef) != len(dc['args']):
                fail(f"{var}: derive_unit_from arity")
            want = []
            for (cn_, e), a in zip(cdef, dc['args']):
                if a not in names or by_sym[names[a]]['cls'] != cn_:
                    fail(f"{var}: component {a} is not a {cn_} unit")
                want.append(['u', names[a], e])
            if want != u['def']:
                fail(f"{var}: derived definition {want} but the module holds {u['def']}")
            if 'symbol' in dc and dc['symbol'] != u['sym']:
                fail(f"{var}: symbol")
            if 'name' in dc and dc['name'] != u['name']:
                fail(f"{var}: name")
    if seen != set(names):
        fail("units in the dump without a declaration in the source: "
             + ", ".join(sorted(set(names) - seen)))
    # temperature table
    temp = []
    if s['temp'] is not None:
        if len(s['registered']) != 1:
            fail("_temp_conv must be registered exactly once")
        tcls = s['registered'][0]
        if tcls not in types or types[tcls]['ref'] is not None:
            fail("table converter registered on a type with a reference unit")
        for a, b, f, o in s['temp']:
            if a not in names or b not in names:
                fail("_temp_conv names")
            if by_sym[names[a]]['cls'] != tcls or by_sym[names[b]]['cls'] != tcls:
                fail("_temp_conv unit of another type")
            temp.append((names[a], names[b], f, o))
        keys = [(a, b) for a, b, _, _ in temp]
        if len(set(keys)) != len(keys):
            fail("_temp_conv duplicate key")
        return tcls, temp
    if s['registered']:
        fail("converter registered without table")
    return None, temp


# ===================================================================== Coq text

def cstring(s):
    if not isinstance(s, str) or any(ord(c) < 32 for c in s):
        fail(f"string {s!r}")
    return '"' + s.replace('"', '""') + '"'


def cq(n, dd=None):
    f = Fraction(n) if dd is None else Fraction(n, dd)
    return f"(Qmake ({f.numerator})%Z {f.denominator}%positive)"


def cz(n):
    return f"({int(n)})%Z"


def copt(x, f):
    return 'None' if x is None else f"(Some {f(x)})"


def clist(items, sep=';\n  '):
    return '[' + sep.join(items) + ']'


_HEAD = """(* GENERATED by /verif/translate/catalogue.py from {src}.
   Do not edit; rewritten on every run. *)
From Coq Require Import String.
From QV Require Import Model.Num Model.Catalogue.
Open Scope string_scope.
"""


def generate_catalogue():
    d = dump()
    tcls, temp = cross_check(d)
    out = [_HEAD.format(src="src/quantity/predefined.py (imported in a subprocess: "
                            "public declaration data only; cross-checked against an "
                            "ast scan of the source)")]
    ts = []
    for t in d['types']:
        df = copt(t['def'], lambda l: clist([f"({cstring(n)}, {cz(e)})" for n, e in l], '; '))
        ts.append(f"mkCType {cstring(t['name'])} {df} {copt(t['ref'], cstring)} "
                  f"{copt(t['quantum'], lambda q: cq(q[0], q[1]))}")
    out.append("Definition cat_types : list ctype :=\n  " + clist(ts) + ".\n")
    us = []
    for u in d['units']:
        def item(it):
            if it[0] == 'n':
                return f"DNum {cq(it[1][0], it[1][1])} {cz(it[2])}"
            return f"DUnit {cstring(it[1])} {cz(it[2])}"
        df = copt(u['def'], lambda l: clist([item(i) for i in l], '; '))
        us.append(f"mkCUnit {cstring(u['sym'])} {cstring(u['name'])} "
                  f"{cstring(u['cls'])} {df}")
    out.append("Definition cat_units : list cunit :=\n  " + clist(us) + ".\n")
    rows = [f"(({cstring(a)}, {cstring(b)}), ({cq(f)}, {cq(o)}))" for a, b, f, o in temp]
    out.append("(* TableConverter(_temp_conv): (from, to) -> (factor, offset) *)\n"
               "Definition cat_temp : list ((string * string) * (Q * Q)) :=\n  "
               + clist(rows) + ".\n")
    out.append(f"Definition cat_temp_cls : option string := {copt(tcls, cstring)}.\n")
    out.append("Definition the_catalogue : catalogue :=\n"
               "  mkCatalogue cat_types cat_units cat_temp_cls cat_temp.\n")
    return "\n".join(out)


def generate_prefixes():
    pre, base = scan_prefixes()
    out = [_HEAD.format(src="src/quantity/si_prefixes.py (ast)")]
    out.append("(* SIPrefix.factor = Decimal(prefix_base) ** exp *)")
    out.append(f"Definition prefix_base : Z := {cz(base)}.\n")
    rows = [f"mkPrefix {cstring(v)} {cstring(n)} {cstring(a)} {cz(e)}" for v, n, a, e in pre]
    out.append("Definition si_prefixes : list prefix :=\n  " + clist(rows) + ".\n")
    return "\n".join(out)


# ===================================================================== doc tables

_NUM = r'-?\d+(?:[.,]\d+)?'


def _split_cols(marker, line, lineno):
    """Cut `line` at the column boundaries of the rst table marker line."""
    spans = [(m.start(), m.end()) for m in re.finditer(r'=+', marker)]
    cells = []
    for k, (a, b) in enumerate(spans):
        if a > 0 and line[a - 1:a] not in ('', ' '):
            fail(f"doc line {lineno}: text crosses a column boundary: {line!r}")
        end = b if k + 1 < len(spans) else None
        cells.append(line[a:end].strip())
    return cells


def _amount(txt, lineno, allow_comma=False):
    """'0.001', '5/18', '-17.778' (',' as decimal mark only where allowed)
    -> (Fraction, number of decimals)."""
    m = re.fullmatch(r'(-?\d+)/(\d+)', txt)
    if m and int(m.group(2)) != 0:
        return Fraction(int(m.group(1)), int(m.group(2))), 0
    if re.fullmatch(_NUM, txt) and (allow_comma or ',' not in txt):
        t = txt.replace(',', '.')
        return Fraction(t), (len(t.split('.')[1]) if '.' in t else 0)
    fail(f"doc line {lineno}: amount not understood: {txt!r}")


def parse_doc(doc):
    """Sections of quantity.predefined.__doc__ ->
    {'sections': [{type, definition, ref_name, ref_sym, ref_equivs, rows:
        [{sym, name, def, equiv(Fraction)}]}],
     'temp_rows': [{sym, name, entries:[(amount, unit, rel)]}],
     'temp_formulas': [(from_name, to_name, to_sym, from_sym, pre, factor, post)]}"""
    lines = doc.split('\n')
    n = len(lines)
    i = 0
    # title line
    while i < n and not (i + 1 < n and re.fullmatch(r'\^+', lines[i + 1]) and lines[i].strip()):
        i += 1
    sections, temp_rows, formulas = [], [], []
    while i < n:
        if not (i + 1 < n and re.fullmatch(r'\^+', lines[i + 1])
                and len(lines[i + 1]) == len(lines[i])):
            fail(f"doc line {i + 1}: section header expected: {lines[i]!r}")
        sec = {'type': lines[i].strip(), 'definition': None, 'ref_name': None,
               'ref_sym': None, 'ref_equivs': [], 'rows': []}
        i += 2
        tables = []
        while i < n and not (i + 1 < n and re.fullmatch(r'\^+', lines[i + 1]) and lines[i].strip()):
            ln = lines[i]
            if not ln.strip():
                i += 1
                continue
            m = re.fullmatch(r'Definition: (\S+)', ln)
            if m:
                sec['definition'] = m.group(1)
                i += 1
                continue
            m = re.fullmatch(r"Reference unit: (.+?) \('([^']+)'((?: = '[^']+')*)\)", ln)
            if m:
                sec['ref_name'], sec['ref_sym'] = m.group(1), m.group(2)
                sec['ref_equivs'] = re.findall(r"= '([^']+)'", m.group(3))
                i += 1
                continue
            if ln in ('Predefined units:',
                      'Temperature units are converted using the following formulas:'):
                i += 1
                continue
            if re.fullmatch(r'=+( =+)+', ln):
                marker = ln
                head = _split_cols(marker, lines[i + 1], i + 2)
                if lines[i + 2] != marker:
                    fail(f"doc line {i + 3}: table header not closed")
                j = i + 3
                body = []
                while j < n and lines[j] != marker:
                    if not lines[j].strip():
                        fail(f"doc line {j + 1}: blank line inside a table")
                    body.append((j + 1, _split_cols(marker, lines[j], j + 1)))
                    j += 1
                if j >= n:
                    fail(f"doc line {i + 1}: table not closed")
                tables.append((head, body))
                i = j + 1
                continue
            fail(f"doc line {i + 1}: not understood: {ln!r}")
        for head, body in tables:
            if head[:3] == ['Symbol', 'Name', 'Definition'] and len(head) == 4:
                m = re.fullmatch(r"Equivalent in '([^']+)'", head[3])
                if not m or m.group(1) != sec['ref_sym']:
                    fail(f"section {sec['type']}: equivalent column header {head[3]!r} "
                         f"does not name the reference unit {sec['ref_sym']!r}")
                for ln_, c in body:
                    if not c[0] or not c[3]:
                        fail(f"doc line {ln_}: empty symbol or equivalent")
                    sec['rows'].append({'sym': c[0], 'name': c[1], 'def': c[2],
                                        'equiv': _amount(c[3], ln_)[0], 'line': ln_})
            elif head == ['Symbol', 'Name', 'Equivalents']:
                for ln_, c in body:
                    parts = re.split(r' (=|≅) ', c[2])
                    ents, rel = [], '='
                    for k in range(0, len(parts), 2):
                        m = re.fullmatch(r'(' + _NUM + r') (\S+)', parts[k])
                        if not m:
                            fail(f"doc line {ln_}: equivalent not understood: {parts[k]!r}")
                        a, dec = _amount(m.group(1), ln_, allow_comma=True)
                        ents.append({'amount': a, 'decimals': dec, 'unit': m.group(2),
                                     'rel': rel if k else None, 'text': parts[k]})
                        if k + 1 < len(parts):
                            rel = parts[k + 1]
                    if len(ents) < 2 or ents[0]['unit'] != c[0]:
                        fail(f"doc line {ln_}: row must start with its own unit")
                    temp_rows.append({'sym': c[0], 'name': c[1], 'entries': ents,
                                      'type': sec['type'], 'line': ln_})
            elif head[0] == 'from \\ to':
                for ln_, c in body:
                    for k in range(1, len(head)):
                        if c[k] == '-':
                            continue
                        formulas.append(_formula(c[k], c[0], head[k], ln_)
                                        + (sec['type'],))
            else:
                fail(f"section {sec['type']}: unknown table {head}")
        sections.append(sec)
    if not sections:
        fail("no sections found in the module documentation")
    return {'sections': sections, 'temp_rows': temp_rows, 'temp_formulas': formulas}


def _formula(txt, from_name, to_name, lineno):
    """'[°F] = [°C] * 9/5 + 32' | '[°C] = ([°F] - 32) * 5/9' | '[K] = [°C] + 273.15'
    -> (from_name, to_name, to_sym, from_sym, pre, factor, post):
       y = (x + pre) * factor + post."""
    num = r'\d+(?:\.\d+)?(?:/\d+)?'
    m = re.fullmatch(r'\[(\S+)\] = \(\[(\S+)\] ([+-]) (' + num + r')\) \* (' + num + r')', txt)
    if m:
        pre = _fr(m.group(4)) * (1 if m.group(3) == '+' else -1)
        return (from_name, to_name, m.group(1), m.group(2), pre, _fr(m.group(5)), Fraction(0))
    m = re.fullmatch(r'\[(\S+)\] = \[(\S+)\](?: \* (' + num + r'))?(?: ([+-]) (' + num + r'))?', txt)
    if m:
        f = _fr(m.group(3)) if m.group(3) else Fraction(1)
        post = _fr(m.group(5)) * (1 if m.group(4) == '+' else -1) if m.group(5) else Fraction(0)
        return (from_name, to_name, m.group(1), m.group(2), Fraction(0), f, post)
    fail(f"doc line {lineno}: formula not understood: {txt!r}")


def _fr(t):
    if '/' in t:
        a, b = t.split('/')
        return Fraction(a) / Fraction(b)
    return Fraction(t)


def doc_tables():
    return parse_doc(dump()['doc'])


def generate_doctables():
    p = doc_tables()
    out = [_HEAD.format(src="quantity.predefined.__doc__ (rows of the rst tables)")]
    secs = []
    for s in p['sections']:
        rows = clist([f"mkDocRow {cstring(r['sym'])} {cstring(r['name'])} "
                      f"{cstring(r['def'])} {cq(r['equiv'])}" for r in s['rows']], ';\n     ')
        secs.append(f"mkDocSection {cstring(s['type'])} {copt(s['definition'], cstring)} "
                    f"{copt(s['ref_sym'], cstring)}\n    {rows}")
    out.append("Definition doc_sections : list doc_section :=\n  " + clist(secs) + ".\n")
    nl = [f"(({cstring(r['type'])}, {cstring(r['sym'])}), {cstring(r['name'])})"
          for r in p['temp_rows']]
    out.append("(* rows of the tables of types without reference unit: (type, symbol, name) *)\n"
               "Definition doc_nonlinear_rows : list (string * string * string) :=\n  "
               + clist(nl) + ".\n")
    ents = []
    for r in p['temp_rows']:
        a0 = r['entries'][0]
        for e in r['entries'][1:]:
            ents.append(f"mkDocEquiv {cstring(a0['unit'])} {cq(a0['amount'])} "
                        f"{cstring(e['unit'])} {cq(e['amount'])} "
                        f"{'true' if e['rel'] == '=' else 'false'} {cz(e['decimals'])}")
    out.append("(* fixed points of the non-linear type: `x u = y v` (exact) or\n"
               "   `x u ≅ y v` (y given to [decimals] places) *)\n"
               "Definition doc_equivs : list doc_equiv :=\n  " + clist(ents) + ".\n")
    fs = []
    for fn, tn, ts, fs_, pre, f, post, _ in p['temp_formulas']:
        fs.append(f"mkDocFormula {cstring(fs_)} {cstring(ts)} {cq(pre)} {cq(f)} {cq(post)}")
    out.append("(* conversion formulas: [to] = ([from] + pre) * factor + post *)\n"
               "Definition doc_formulas : list doc_formula :=\n  " + clist(fs) + ".\n")
    return "\n".join(out)
