"""Fail-closed translator of the three __hash__ methods (Unit, Quantity in
src/quantity/__init__.py; ExchangeRate with its `quotation` property in
src/quantity/money/__init__.py) into the hash KEYS of coq/Model/Hash.v.

Written to coq/Gen/HashImpl.v on every run; Proofs/GenHashEq.v proves the
generated functions equal to unit_hash / qty_hash / rate_hash, the functions
C19's theorems are about (for views whose scale exists only in types with a
reference unit: ViewInv / fix 452c543).

What is hashed is a key; Python hashes equal keys equally (C19's sampled
assumption).  The translator recognises exactly these key shapes (anything else
is refused):
  hash(self._symbol)                           HUnitSym (id of the unit)
  hash((self._qty_cls, self._equiv))           HUnitScale class scale
  hash((self.amount, self.unit))               HQtyUnit amount (id of the unit)
  hash((self.amount * equiv, self.__class__))  HQtyRef class (amount * scale)
  hash(self.quotation), quotation = (self._unit_currency, self._term_currency,
                                     self.rate)   HRate unit term rate
and the tests `self._equiv is None`, `equiv is None` after `equiv = self.unit._equiv`.
"""
import ast
import os
import sys


class Unsupported(Exception):
    pass


def fail(node, why):
    raise Unsupported(f"line {getattr(node, 'lineno', '?')}: {why}: {ast.dump(node)[:200]}")


def is_name(e, n):
    return isinstance(e, ast.Name) and e.id == n


def is_self_attr(e, *names):
    return isinstance(e, ast.Attribute) and e.attr in names and is_name(e.value, 'self')


def body_of(m):
    return [x for x in m.body if not (isinstance(x, ast.Expr) and isinstance(x.value, ast.Constant))]


def find_method(tree, cls, name, prop=False):
    for n in tree.body:
        if isinstance(n, ast.ClassDef) and n.name == cls:
            ms = [m for m in n.body if isinstance(m, ast.FunctionDef) and m.name == name]
            if len(ms) != 1:
                raise Unsupported(f"{cls}.{name}: {len(ms)} definitions")
            decs = [ast.dump(d) for d in ms[0].decorator_list]
            want = [ast.dump(ast.Name(id='property', ctx=ast.Load()))] if prop else []
            if decs != want:
                raise Unsupported(f"{cls}.{name}: decorators")
            if [a.arg for a in ms[0].args.args] != ['self']:
                raise Unsupported(f"{cls}.{name}: signature")
            return ms[0]
    raise Unsupported(f"class {cls} not found")


def hashed(st):
    """argument of `return hash(<arg>)`"""
    if isinstance(st, ast.Return) and isinstance(st.value, ast.Call) and is_name(st.value.func, 'hash') \
            and len(st.value.args) == 1 and not st.value.keywords:
        return st.value.args[0]
    fail(st, "return hash(...)")


def is_none_test(t, what):
    return isinstance(t, ast.Compare) and len(t.ops) == 1 and isinstance(t.ops[0], ast.Is) \
        and isinstance(t.comparators[0], ast.Constant) and t.comparators[0].value is None \
        and what(t.left)


def unit_hash(m):
    b = body_of(m)
    if not (len(b) == 2 and isinstance(b[0], ast.If) and not b[0].orelse and len(b[0].body) == 1
            and is_none_test(b[0].test, lambda e: is_self_attr(e, '_equiv'))):
        fail(m, "Unit.__hash__ shape")
    k0, k1 = hashed(b[0].body[0]), hashed(b[1])
    if not is_self_attr(k0, '_symbol', 'symbol'):
        fail(k0, "key of a unit without scale")
    if not (isinstance(k1, ast.Tuple) and len(k1.elts) == 2 and is_self_attr(k1.elts[0], '_qty_cls', 'qty_cls')
            and is_self_attr(k1.elts[1], '_equiv')):
        fail(k1, "key of a unit with a scale")
    return ("Definition unit_hash_impl (u : unit) : hkey :=\n"
            "  match u_scale u with\n  | None => HUnitSym (u_id u)\n"
            "  | Some e => HUnitScale (u_cls u) e\n  end.\n")


def qty_hash(m):
    b = body_of(m)
    ok = (len(b) == 3 and isinstance(b[0], ast.Assign) and len(b[0].targets) == 1
          and isinstance(b[0].targets[0], ast.Name)
          and isinstance(b[0].value, ast.Attribute) and b[0].value.attr == '_equiv'
          and is_self_attr(b[0].value.value, 'unit', '_unit')
          and isinstance(b[1], ast.If) and not b[1].orelse and len(b[1].body) == 1)
    if not ok:
        fail(m, "Quantity.__hash__ shape")
    var = b[0].targets[0].id                    # the local holding the unit's scale
    if not is_none_test(b[1].test, lambda e: is_name(e, var)):
        fail(b[1].test, "test of the scale")
    k0, k1 = hashed(b[1].body[0]), hashed(b[2])
    if not (isinstance(k0, ast.Tuple) and len(k0.elts) == 2 and is_self_attr(k0.elts[0], 'amount', '_amount')
            and is_self_attr(k0.elts[1], 'unit', '_unit')):
        fail(k0, "key of a quantity whose unit has no scale")
    if not (isinstance(k1, ast.Tuple) and len(k1.elts) == 2 and isinstance(k1.elts[0], ast.BinOp)
            and isinstance(k1.elts[0].op, ast.Mult) and is_self_attr(k1.elts[0].left, 'amount', '_amount')
            and is_name(k1.elts[0].right, var) and is_self_attr(k1.elts[1], '__class__')):
        fail(k1, "key of a quantity whose unit has a scale")
    return ("Definition qty_hash_impl (p : qty) : hkey :=\n"
            "  match u_scale (q_unit p) with\n  | None => HQtyUnit (q_amt p) (u_id (q_unit p))\n"
            "  | Some e => HQtyRef (u_cls (q_unit p)) (qmul (q_amt p) e)\n  end.\n")


def rate_hash(mh, mq, mr):
    b = body_of(mh)
    if not (len(b) == 1 and is_self_attr(hashed(b[0]), 'quotation')):
        fail(mh, "ExchangeRate.__hash__ shape")
    q = body_of(mq)
    if not (len(q) == 1 and isinstance(q[0], ast.Return) and isinstance(q[0].value, ast.Tuple)
            and len(q[0].value.elts) == 3
            and is_self_attr(q[0].value.elts[0], '_unit_currency', 'unit_currency')
            and is_self_attr(q[0].value.elts[1], '_term_currency', 'term_currency')
            and is_self_attr(q[0].value.elts[2], 'rate')):
        fail(mq, "ExchangeRate.quotation shape")
    r = body_of(mr)
    want = ast.dump(ast.parse("self._term_amount / self._unit_multiple").body[0].value)
    if not (len(r) == 1 and isinstance(r[0], ast.Return) and ast.dump(r[0].value) == want):
        fail(mr, "ExchangeRate.rate shape")
    return ("Definition rate_hash_impl (r : rate) : hkey :=\n"
            "  HRate (r_unit r) (r_term r) (qdiv (r_amt r) (r_mult r)).\n")


PRELUDE = '''(* GENERATED by /verif/translate/hashes.py from Unit.__hash__, Quantity.__hash__
   (src/quantity/__init__.py) and ExchangeRate.__hash__ / quotation / rate
   (src/quantity/money/__init__.py).  Do not edit; rewritten on every run. *)
From QV Require Import Model.Num Model.Rounding Model.Quantity Model.Rates Model.Hash.

'''


def generate(init_path):
    t = ast.parse(open(init_path, encoding='utf-8').read())
    mt = ast.parse(open(os.path.join(os.path.dirname(init_path), 'money', '__init__.py'),
                        encoding='utf-8').read())
    return PRELUDE + "\n".join([
        "(* Unit.__hash__ *)\n" + unit_hash(find_method(t, 'Unit', '__hash__')),
        "(* Quantity.__hash__ *)\n" + qty_hash(find_method(t, 'Quantity', '__hash__')),
        "(* ExchangeRate.__hash__ = hash(self.quotation) *)\n"
        + rate_hash(find_method(mt, 'ExchangeRate', '__hash__'),
                    find_method(mt, 'ExchangeRate', 'quotation', prop=True),
                    find_method(mt, 'ExchangeRate', 'rate', prop=True))])


if __name__ == '__main__':
    try:
        sys.stdout.write(generate(sys.argv[1]))
    except Unsupported as e:
        sys.stderr.write(f"Unsupported: {e}\n")
        sys.exit(2)
