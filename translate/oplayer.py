"""Fail-closed translator of the OPERATOR LAYER of src/quantity/__init__.py into Coq.

Unit.__mul__ / __rmul__ / __truediv__ / __rtruediv__ / _pow / __pow__ and
Quantity.__mul__ / __rmul__ / __truediv__ / __rtruediv__ / __pow__ are re-read
from /repo on every run and written to coq/Gen/OpsImpl.v as functions over the
directory model's state (Model/Registry.v).  Proofs/GenOpsEq.v proves them equal
to op_mul / op_div / op_pow / unit_mul / unit_div / unit_pow, the functions the
theorems of C02, C05, C17 are about; a change of the source that alters the
behaviour breaks that proof (or this translator refuses it: fail-closed).

Every Python method is translated once per KIND of its second operand
(`isinstance` tests are decided statically by the kind, in source order):
  num  - a Rational (int, Fraction, Decimal)        -> Q
  real - a Real that is not a Rational (float)       -> Q (its exact value; only
         `Decimal(other)` may touch it, plain float arithmetic is refused)
  unit - a Unit (a `runit` of the state)
  qty  - a Quantity (amount : Q, unit : runit)
  int  - an int exponent (Z)

What is NOT read from the source but fixed here (trusted, stated in DESIGN.md):
  * `_amnt_and_unit_from_term(t)` is `resolve s (denotation of t)` and raises
    KeyError when it is None (Term normalisation is C07's model, the look-up is
    RegistryProofs.resolve_sound);
  * `_op_cache` is the state's cache (cache_get / cache_add);
  * `number * unit` and `cls(number, unit)` are the constructor (mk_result /
    mk_qty with the view of the unit); `number * None` does not occur (the
    model's mk_result gives the plain number there);
  * `/` on numbers raises ZeroDivisionError iff the divisor is zero, `**` iff
    the base is zero and the exponent negative; unit scales (`_equiv`) are never
    zero (UInv), so their quotient carries no check;
  * Python's binary-operator dispatch (x*y -> type(x).__mul__, then the reflected
    method) is written by hand in Proofs/GenOpsEq.v.
"""
import ast
import os
import sys


class Unsupported(Exception):
    pass


def fail(node, why):
    raise Unsupported(f"line {getattr(node, 'lineno', '?')}: {why}: {ast.dump(node)[:220]}")


ISA = {   # kind of the operand -> truth value of isinstance(operand, T)
    'num':  {'Rational': True, 'Real': True, 'SIPrefix': False, 'Unit': False, 'Quantity': False},
    'real': {'Rational': False, 'Real': True, 'SIPrefix': False, 'Unit': False, 'Quantity': False},
    'unit': {'Rational': False, 'Real': False, 'SIPrefix': False, 'Unit': True, 'Quantity': False},
    'qty':  {'Rational': False, 'Real': False, 'SIPrefix': False, 'Unit': False, 'Quantity': True},
    'int':  {'int': True},
    # operands of an exchange rate: a Money amount, a quantity of another type
    'money': {'Money': True, 'ExchangeRate': False, 'Quantity': True},
    'pqty':  {'Money': False, 'ExchangeRate': False, 'Quantity': True},
}
OPK = {'mul': 'KMul', 'truediv': 'KDiv'}


class Fn:
    def __init__(self, cls, meth, selfk, otherk, coqname, level, file='__init__.py'):
        self.cls, self.meth, self.selfk, self.otherk = cls, meth, selfk, otherk
        self.coqname, self.level = coqname, level      # level: 'pair' | 'mres'
        self.file = file


FUNCS = [
    Fn('Unit', '__mul__', 'unit', 'unit', 'unit_mul_impl', 'pair'),
    Fn('Unit', '__truediv__', 'unit', 'unit', 'unit_div_impl', 'pair'),
    Fn('Unit', '_pow', 'unit', 'int', 'unit_pow_impl', 'pair'),
    Fn('Unit', '__mul__', 'unit', 'num', 'U_mul_num', 'mres'),
    Fn('Unit', '__mul__', 'unit', 'real', 'U_mul_real', 'mres'),
    Fn('Unit', '__mul__', 'unit', 'qty', 'U_mul_qty', 'mres'),
    Fn('Unit', '__truediv__', 'unit', 'num', 'U_div_num', 'mres'),
    Fn('Unit', '__truediv__', 'unit', 'real', 'U_div_real', 'mres'),
    Fn('Unit', '__truediv__', 'unit', 'qty', 'U_div_qty', 'mres'),
    Fn('Unit', '__rtruediv__', 'unit', 'num', 'U_rdiv_num', 'mres'),
    Fn('Unit', '__rtruediv__', 'unit', 'real', 'U_rdiv_real', 'mres'),
    Fn('Unit', '__pow__', 'unit', 'int', 'U_pow', 'mres'),
    Fn('Quantity', '__mul__', 'qty', 'num', 'Q_mul_num', 'mres'),
    Fn('Quantity', '__mul__', 'qty', 'real', 'Q_mul_real', 'mres'),
    Fn('Quantity', '__mul__', 'qty', 'qty', 'Q_mul_qty', 'mres'),
    Fn('Quantity', '__mul__', 'qty', 'unit', 'Q_mul_unit', 'mres'),
    Fn('Quantity', '__truediv__', 'qty', 'num', 'Q_div_num', 'mres'),
    Fn('Quantity', '__truediv__', 'qty', 'real', 'Q_div_real', 'mres'),
    Fn('Quantity', '__truediv__', 'qty', 'qty', 'Q_div_qty', 'mres'),
    Fn('Quantity', '__truediv__', 'qty', 'unit', 'Q_div_unit', 'mres'),
    Fn('Quantity', '__rtruediv__', 'qty', 'num', 'Q_rdiv_num', 'mres'),
    Fn('Quantity', '__rtruediv__', 'qty', 'real', 'Q_rdiv_real', 'mres'),
    Fn('Quantity', '__pow__', 'qty', 'int', 'Q_pow', 'mres'),
]

# money/__init__.py: an exchange rate applied to money and to money-per-quantity values
MONEY_FUNCS = [
    Fn('ExchangeRate', '__mul__', 'rate', 'money', 'R_mul_money', 'mres', 'money/__init__.py'),
    Fn('ExchangeRate', '__mul__', 'rate', 'pqty', 'R_mul_qty', 'mres', 'money/__init__.py'),
    Fn('ExchangeRate', '__rtruediv__', 'rate', 'money', 'R_rdiv_money', 'mres', 'money/__init__.py'),
    Fn('ExchangeRate', '__rtruediv__', 'rate', 'pqty', 'R_rdiv_qty', 'mres', 'money/__init__.py'),
]


def is_name(e, n):
    return isinstance(e, ast.Name) and e.id == n


def is_none(e):
    return isinstance(e, ast.Constant) and e.value is None


class Tr:
    def __init__(self, fn):
        self.fn = fn
        self.n = 0

    def new(self, base):
        self.n += 1
        return f"{base}{self.n}"

    # ---- operands ----------------------------------------------------------------
    def unit_of(self, e, env):
        """Coq runit term of an expression denoting a Unit, or None"""
        if isinstance(e, ast.Name) and env.get(e.id, ('',))[0] == 'unit':
            return env[e.id][1]
        if isinstance(e, ast.Attribute) and e.attr in ('unit', '_unit') \
                and isinstance(e.value, ast.Name) \
                and env.get(e.value.id, ('',))[0] in ('qty', 'money', 'pqty'):
            return env[e.value.id][2]
        if isinstance(e, ast.Attribute) and isinstance(e.value, ast.Name) \
                and env.get(e.value.id, ('',))[0] == 'rate':
            if e.attr in ('unit_currency', '_unit_currency'):
                return env[e.value.id][1]
            if e.attr in ('term_currency', '_term_currency'):
                return env[e.value.id][2]
        return None

    def cls_of(self, e, env):
        """Coq term (N) for the quantity class an expression denotes, or None"""
        if isinstance(e, ast.Attribute) and e.attr == '__class__' and isinstance(e.value, ast.Name) \
                and env.get(e.value.id, ('',))[0] == 'qty':
            return f"(ru_cls {env[e.value.id][2]})"
        if isinstance(e, ast.Attribute) and e.attr in ('qty_cls', '_qty_cls'):
            u = self.unit_of(e.value, env)
            if u:
                return f"(ru_cls {u})"
        return None

    def int_of(self, e, env):
        if isinstance(e, ast.Constant) and type(e.value) is int:
            return f"({e.value})" if e.value < 0 else str(e.value)
        if isinstance(e, ast.UnaryOp) and isinstance(e.op, ast.USub) \
                and isinstance(e.operand, ast.Constant) and type(e.operand.value) is int:
            return f"(-{e.operand.value})"
        if isinstance(e, ast.Name) and env.get(e.id, ('',))[0] == 'int':
            return env[e.id][1]
        return None

    # ---- numbers: (conditions raising ZeroDivisionError, in evaluation order; term) ------
    def num(self, e, env):
        if isinstance(e, ast.Name):
            if e.id == 'ONE':
                return [], "1%Q"
            k = env.get(e.id, ('',))
            if k[0] == 'num':
                return [], k[1]
            if k[0] == 'optq_some':
                return [], k[1]
            fail(e, "not a (rational) number")
        if isinstance(e, ast.Call) and is_name(e.func, 'Decimal') and len(e.args) == 1 \
                and not e.keywords:
            a = e.args[0]
            if isinstance(a, ast.Name) and env.get(a.id, ('',))[0] == 'real':
                return [], env[a.id][1]          # exact value of the float
            fail(e, "Decimal(...) of something that is not the float operand")
        if isinstance(e, ast.Attribute) and e.attr in ('amount', '_amount') \
                and isinstance(e.value, ast.Name) \
                and env.get(e.value.id, ('',))[0] in ('qty', 'money', 'pqty'):
            return [], env[e.value.id][1]
        if isinstance(e, ast.Attribute) and e.attr in ('rate', 'inverse_rate') \
                and isinstance(e.value, ast.Name) and env.get(e.value.id, ('',))[0] == 'rate':
            return [], env[e.value.id][3 if e.attr == 'rate' else 4]
        if isinstance(e, ast.Attribute) and e.attr == '_equiv':
            u = self.unit_of(e.value, env)
            if u and ('equiv', u) in env:
                return [], env[('equiv', u)]
            fail(e, "scale of a unit not known to be set")
        if isinstance(e, ast.BinOp):
            if isinstance(e.op, ast.Pow):
                k = self.int_of(e.right, env)
                if k is None:
                    fail(e, "power with a non-int exponent")
                c, t = self.num(e.left, env)
                return c + [f"qzero {t} && ({k} <? 0)"], f"(qpow {t} {k})"
            cl, tl = self.num(e.left, env)
            cr, tr = self.num(e.right, env)
            if isinstance(e.op, ast.Mult):
                return cl + cr, f"(qmul {tl} {tr})"
            if isinstance(e.op, ast.Div):
                scale = isinstance(e.right, ast.Attribute) and e.right.attr == '_equiv'
                return cl + cr + ([] if scale else [f"qzero {tr}"]), f"(qdiv {tl} {tr})"
        fail(e, "number expression")

    def guarded(self, conds, s, body):
        out = body
        for c in reversed(conds):
            out = f"if {c} then ({s}, Err EZeroDivision) else {out}"
        return out

    # ---- term literals: UnitDefT(((u, 1), (v, -1))) ------------------------------------
    def nf_of(self, e, env):
        if isinstance(e, ast.BinOp) and isinstance(e.op, ast.Mult) \
                and isinstance(e.left, ast.Attribute) and e.left.attr == 'definition' \
                and self.unit_of(e.left.value, env):
            # unit.definition * term: the product of the denotations
            return f"(nf_mul (ru_nf {self.unit_of(e.left.value, env)}) {self.nf_of(e.right, env)})"
        if not (isinstance(e, ast.Call) and is_name(e.func, 'UnitDefT') and len(e.args) == 1
                and isinstance(e.args[0], ast.Tuple)):
            fail(e, "term literal")
        fs = []
        for it in e.args[0].elts:
            if not (isinstance(it, ast.Tuple) and len(it.elts) == 2):
                fail(it, "term item")
            u, k = self.unit_of(it.elts[0], env), self.int_of(it.elts[1], env)
            if u is None or k is None:
                fail(it, "term item")
            fs.append(f"(ru_nf {u})" if k == '1' else f"(nf_inv (ru_nf {u}))" if k == '(-1)'
                      else f"(nf_pow (ru_nf {u}) {k})")
        if len(fs) == 1:
            return fs[0]
        if len(fs) == 2:
            return f"(nf_mul {fs[0]} {fs[1]})"
        fail(e, "term literal with more than two items")

    def cache_key(self, e, env):
        """_op_cache[(operator.mul, u, v)] -> (KMul, u, v)"""
        if not (isinstance(e, ast.Subscript) and is_name(e.value, '_op_cache')
                and isinstance(e.slice, ast.Tuple) and len(e.slice.elts) == 3):
            return None
        o, a, b = e.slice.elts
        if not (isinstance(o, ast.Attribute) and is_name(o.value, 'operator') and o.attr in OPK):
            return None
        ua, ub = self.unit_of(a, env), self.unit_of(b, env)
        if ua is None or ub is None:
            return None
        return f"{OPK[o.attr]} (ru_id {ua}) (ru_id {ub})"

    def pair_call(self, e, env):
        """expression returning (amount, unit or None) through the unit level"""
        if isinstance(e, ast.BinOp) and isinstance(e.op, (ast.Mult, ast.Div)):
            a, b = self.unit_of(e.left, env), self.unit_of(e.right, env)
            if a and b:
                return f"{'unit_mul_impl' if isinstance(e.op, ast.Mult) else 'unit_div_impl'} %s {a} {b}"
        if isinstance(e, ast.Call) and isinstance(e.func, ast.Attribute) and e.func.attr == '_pow' \
                and len(e.args) == 1 and not e.keywords:
            u, k = self.unit_of(e.func.value, env), self.int_of(e.args[0], env)
            if u and k is not None:
                return f"unit_pow_impl %s {u} {k}"
        return None

    # ---- conditions ----------------------------------------------------------------
    def static(self, t, env):
        """truth value of a test decided by the operand kinds, or None"""
        if isinstance(t, ast.UnaryOp) and isinstance(t.op, ast.Not):
            v = self.static(t.operand, env)
            return None if v is None else not v
        if isinstance(t, ast.Call) and is_name(t.func, 'isinstance') and len(t.args) == 2 \
                and isinstance(t.args[0], ast.Name) and isinstance(t.args[1], ast.Name):
            k = env.get(t.args[0].id, ('',))[0]
            if k in ISA and t.args[1].id in ISA[k]:
                return ISA[k][t.args[1].id]
            fail(t, "isinstance test not decided by the operand kind")
        return None

    def cond(self, t, env):
        """Coq bool term of a dynamic test, or None"""
        if isinstance(t, ast.Compare) and len(t.ops) == 1:
            a, b = t.left, t.comparators[0]
            if isinstance(t.ops[0], ast.Is):
                ca, cb = self.cls_of(a, env), self.cls_of(b, env)
                if ca and cb:
                    return f"N.eqb {ca} {cb}"
                ua, ub = self.unit_of(a, env), self.unit_of(b, env)
                if ua and ub:
                    return f"N.eqb (ru_id {ua}) (ru_id {ub})"
            if isinstance(t.ops[0], ast.Eq):
                ia, ib = self.int_of(a, env), self.int_of(b, env)
                if ia is not None and ib is not None:
                    return f"({ia} =? {ib})"
        return None

    # ---- statements: Coq term of type state * res T ----------------------------------
    def block(self, stmts, env, s):
        if not stmts:
            raise Unsupported(f"{self.fn.cls}.{self.fn.meth}[{self.fn.otherk}]: "
                              "control reaches the end of the function")
        st, rest = stmts[0], stmts[1:]
        if isinstance(st, ast.Expr) and isinstance(st.value, ast.Constant) \
                and isinstance(st.value.value, str):
            return self.block(rest, env, s)
        if isinstance(st, ast.AnnAssign) and st.value is None:
            return self.block(rest, env, s)
        if isinstance(st, ast.Pass):
            return self.block(rest, env, s)
        if isinstance(st, ast.Return):
            return self.ret(st, env, s)
        if isinstance(st, ast.Raise):
            return self.rais(st, s)
        if isinstance(st, ast.If):
            return self.if_(st, rest, env, s)
        if isinstance(st, ast.Try):
            return self.try_(st, rest, env, s)
        if isinstance(st, ast.Assign) and len(st.targets) == 1:
            return self.assign(st, rest, env, s)
        if isinstance(st, ast.AugAssign) and isinstance(st.op, ast.Mult) \
                and isinstance(st.target, ast.Name) and env.get(st.target.id, ('',))[0] == 'num':
            c, t = self.num(st.value, env)
            x = self.new(st.target.id)
            env2 = dict(env)
            env2[st.target.id] = ('num', x)
            return self.guarded(c, s, f"let {x} := (qmul {env[st.target.id][1]} {t}) in\n"
                                      f"{self.block(rest, env2, s)}")
        fail(st, "statement")

    def rais(self, st, s):
        e = st.exc
        if isinstance(e, ast.Call) and isinstance(e.func, ast.Name):
            name = e.func.id
            if name == 'UndefinedResultError':
                return f"({s}, Err EUndefinedResult)"
            if name == 'UnitConversionError':
                return f"({s}, Err EUnitConversion)"
            if name == 'ValueError' and self.fn.selfk == 'rate':
                return f"({s}, Err EValueError)"
            if name == 'QuantityError' and self.fn.selfk == 'rate':
                return f"({s}, Err EQuantityError)"
        fail(st, "raise")

    def ret(self, st, env, s):
        v = st.value
        if v is None:
            fail(st, "return without value")
        if is_name(v, 'NotImplemented'):
            fail(st, "NotImplemented is reachable for this kind of operand")
        if self.fn.level == 'pair':
            if isinstance(v, ast.Tuple) and len(v.elts) == 2:
                c, t = self.num(v.elts[0], env)
                w = self.ounit(v.elts[1], env)
                return self.guarded(c, s, f"({s}, Ok ({t}, {w}))")
            fail(st, "return of a unit-level operation")
        # the constructor: cls(number, unit)
        if isinstance(v, ast.Call) and len(v.args) == 2 and not v.keywords:
            f = v.func
            u = self.unit_of(v.args[1], env)
            ok = False
            if isinstance(f, ast.Attribute) and f.attr in ('_qty_cls', 'qty_cls') and u \
                    and self.unit_of(f.value, env) == u:
                ok = True                       # unit._qty_cls(x, unit)
            if isinstance(f, ast.Attribute) and f.attr == '__class__' and isinstance(f.value, ast.Name) \
                    and env.get(f.value.id, ('',))[0] == 'qty' and u == env[f.value.id][2]:
                ok = True                       # qty.__class__(x, qty.unit)
            if ok:
                c, t = self.num(v.args[0], env)
                return self.guarded(c, s, f"({s}, Ok (MQty (mk_qty dm {t} (view {s} {u}))))")
            if isinstance(f, ast.Attribute) and f.attr == '__class__' and isinstance(f.value, ast.Name) \
                    and env.get(f.value.id, ('',))[0] == 'money' and u:
                # Money(x, currency): currencies are units of Money
                c, t = self.num(v.args[0], env)
                return self.guarded(c, s, f"({s}, Ok (MQty (mk_qty dm {t} (view {s} {u}))))")
            if isinstance(f, ast.Attribute) and f.attr == '__class__' and isinstance(f.value, ast.Name) \
                    and env.get(f.value.id, ('',))[0] == 'pqty' and isinstance(v.args[1], ast.Name) \
                    and env.get(v.args[1].id, ('',))[0] == 'ounit':
                # cls(x, unit-or-None) for the operand's own class: the unit must belong to it
                c, t = self.num(v.args[0], env)
                return self.guarded(c, s, f"({s}, construct_in {s} dm (ru_cls {env[f.value.id][2]}) "
                                          f"{t} {env[v.args[1].id][1]})")
            fail(st, "constructor call")
        # number * unit-or-None
        if isinstance(v, ast.BinOp) and isinstance(v.op, ast.Mult) and isinstance(v.right, ast.Name) \
                and env.get(v.right.id, ('',))[0] == 'ounit':
            c, t = self.num(v.left, env)
            return self.guarded(c, s, f"({s}, mk_result {s} dm {t} {env[v.right.id][1]})")
        if isinstance(v, ast.Name) and env.get(v.id, ('',))[0] == 'ounit':
            fail(st, "return of a unit")
        c, t = self.num(v, env)
        return self.guarded(c, s, f"({s}, Ok (MNum {t}))")

    def ounit(self, e, env):
        if is_none(e):
            return "None"
        if isinstance(e, ast.Name) and env.get(e.id, ('',))[0] == 'ounit':
            return env[e.id][1]
        fail(e, "unit or None")

    def if_(self, st, rest, env, s):
        v = self.static(st.test, env)
        if v is True:
            return self.block(st.body + rest, env, s)
        if v is False:
            return self.block(st.orelse + rest, env, s)
        t = st.test
        # `x is None` for a unit-or-None / an optional amount
        if isinstance(t, ast.Compare) and len(t.ops) == 1 and isinstance(t.ops[0], ast.Is) \
                and is_none(t.comparators[0]) and isinstance(t.left, ast.Name):
            k = env.get(t.left.id, ('',))
            if k[0] == 'ounit':
                none_env = dict(env)
                none_env[t.left.id] = ('none',)
                return (f"match {k[1]} with\n| None => {self.block(st.body + rest, none_env, s)}\n"
                        f"| Some _ => {self.block(st.orelse + rest, env, s)}\nend")
            if k[0] == 'optq':
                x = self.new('v')
                some_env = dict(env)
                some_env[t.left.id] = ('optq_some', x)
                return (f"match {k[1]} with\n| None => {self.block(st.body + rest, env, s)}\n"
                        f"| Some {x} => {self.block(st.orelse + rest, some_env, s)}\nend")
        # `a._equiv is None or b._equiv is None`: raise
        if isinstance(t, ast.BoolOp) and isinstance(t.op, ast.Or) and len(t.values) == 2 \
                and not st.orelse:
            us = []
            for c in t.values:
                if isinstance(c, ast.Compare) and len(c.ops) == 1 and isinstance(c.ops[0], ast.Is) \
                        and is_none(c.comparators[0]) and isinstance(c.left, ast.Attribute) \
                        and c.left.attr == '_equiv' and self.unit_of(c.left.value, env):
                    us.append(self.unit_of(c.left.value, env))
            if len(us) == 2:
                x, y = self.new('e'), self.new('e')
                env2 = dict(env)
                env2[('equiv', us[0])], env2[('equiv', us[1])] = x, y
                return (f"match ru_equiv {us[0]}, ru_equiv {us[1]} with\n"
                        f"| Some {x}, Some {y} => {self.block(rest, env2, s)}\n"
                        f"| _, _ => {self.block(st.body, env, s)}\nend")
        c = self.cond(t, env)
        if c:
            return (f"if {c} then {self.block(st.body + rest, env, s)}\n"
                    f"else {self.block(st.orelse + rest, env, s)}")
        fail(t, "condition")

    def try_(self, st, rest, env, s):
        if not (len(st.handlers) == 1 and not st.finalbody and not st.orelse and len(st.body) == 1
                and is_name(st.handlers[0].type, 'KeyError') and st.handlers[0].name is None):
            fail(st, "try statement")
        b, h = st.body[0], st.handlers[0].body
        # try: return _op_cache[key]   except KeyError: pass
        if isinstance(b, ast.Return) and b.value is not None and self.cache_key(b.value, env):
            if not (len(h) == 1 and isinstance(h[0], ast.Pass)):
                fail(st, "cache look-up handler")
            if self.fn.level != 'pair':
                fail(st, "cache look-up outside a unit-level operation")
            r = self.new('r')
            return (f"match cache_get {s} {self.cache_key(b.value, env)} with\n"
                    f"| Some {r} => ({s}, Ok {r})\n| None => {self.block(rest, env, s)}\nend")
        # try: [amnt, unit =|return] _amnt_and_unit_from_term(t)   except KeyError: raise ...
        if not (len(h) == 1 and isinstance(h[0], ast.Raise)):
            fail(st, "resolution handler")
        val = b.value if isinstance(b, (ast.Assign, ast.Return)) else None
        if not (isinstance(val, ast.Call) and is_name(val.func, '_amnt_and_unit_from_term')
                and len(val.args) == 1 and isinstance(val.args[0], ast.Name)
                and env.get(val.args[0].id, ('',))[0] == 'nf'):
            fail(st, "try body")
        nf = env[val.args[0].id][1]
        if isinstance(b, ast.Return):
            if self.fn.level != 'pair':
                fail(st, "returning a resolution outside a unit-level operation")
            r = self.new('r')
            return (f"match resolve {s} {nf} with\n| Some {r} => ({s}, Ok {r})\n"
                    f"| None => {self.rais(h[0], s)}\nend")
        tg = b.targets[0]
        if not (len(b.targets) == 1 and isinstance(tg, ast.Tuple) and len(tg.elts) == 2
                and all(isinstance(x, ast.Name) for x in tg.elts)):
            fail(st, "resolution target")
        a, w = self.new(tg.elts[0].id), self.new(tg.elts[1].id)
        env2 = dict(env)
        env2[tg.elts[0].id], env2[tg.elts[1].id] = ('num', a), ('ounit', w)
        return (f"match resolve {s} {nf} with\n| Some ({a}, {w}) => {self.block(rest, env2, s)}\n"
                f"| None => {self.rais(h[0], s)}\nend")

    def assign(self, st, rest, env, s):
        tg, v = st.targets[0], st.value
        # _op_cache[key] = (amnt, unit)
        key = self.cache_key(tg, env)
        if key:
            if not (isinstance(v, ast.Tuple) and len(v.elts) == 2):
                fail(st, "cache entry")
            c, t = self.num(v.elts[0], env)
            if c:
                fail(st, "cache entry with a division")
            s2 = self.new('s')
            return (f"let {s2} := cache_add {s} {key} ({t}, {self.ounit(v.elts[1], env)}) in\n"
                    f"{self.block(rest, env, s2)}")
        if isinstance(tg, ast.Name):
            env2 = dict(env)
            if (isinstance(v, ast.Call) and is_name(v.func, 'UnitDefT')) or \
                    (isinstance(v, ast.BinOp) and isinstance(v.left, ast.Attribute)
                     and v.left.attr == 'definition'):
                env2[tg.id] = ('nf', self.nf_of(v, env))
                return self.block(rest, env2, s)
            if is_none(v):
                env2[tg.id] = ('ounit', 'None')
                return self.block(rest, env2, s)
            # x = q.equiv_amount(u)
            if isinstance(v, ast.Call) and isinstance(v.func, ast.Attribute) \
                    and v.func.attr == 'equiv_amount' and len(v.args) == 1 and not v.keywords \
                    and isinstance(v.func.value, ast.Name) \
                    and env.get(v.func.value.id, ('',))[0] == 'qty' and self.unit_of(v.args[0], env):
                _, a, u = env[v.func.value.id]
                x, e = self.new('oq'), self.new('err')
                env2[tg.id] = ('optq', x)
                return (f"match equiv_amount_impl ce (mkQty {a} (view {s} {u})) "
                        f"(view {s} {self.unit_of(v.args[0], env)}) with\n"
                        f"| Err {e} => ({s}, Err {e})\n| Ok {x} => {self.block(rest, env2, s)}\nend")
            c, t = self.num(v, env)
            x = self.new(tg.id)
            env2[tg.id] = ('num', x)
            return self.guarded(c, s, f"let {x} := {t} in\n{self.block(rest, env2, s)}")
        # amnt, unit = <unit-level operation>
        if isinstance(tg, ast.Tuple) and len(tg.elts) == 2 \
                and all(isinstance(x, ast.Name) for x in tg.elts):
            call = self.pair_call(v, env)
            if call:
                r, e, s2 = self.new('r'), self.new('err'), self.new('s')
                a, w = self.new(tg.elts[0].id), self.new(tg.elts[1].id)
                env2 = dict(env)
                env2[tg.elts[0].id], env2[tg.elts[1].id] = ('num', a), ('ounit', w)
                return (f"let {r} := {call % s} in\nmatch snd {r} with\n"
                        f"| Err {e} => (fst {r}, Err {e})\n"
                        f"| Ok ({a}, {w}) => let {s2} := fst {r} in\n{self.block(rest, env2, s2)}\nend")
        fail(st, "assignment")


def find_method(tree, cls, name):
    for n in tree.body:
        if isinstance(n, ast.ClassDef) and n.name == cls:
            ms = [m for m in n.body if isinstance(m, ast.FunctionDef) and m.name == name
                  and not m.decorator_list]          # @overload stubs carry no behaviour
            if len(ms) != 1:
                raise Unsupported(f"{cls}.{name}: {len(ms)} undecorated definitions")
            later = [m for m in n.body
                     if isinstance(m, ast.Assign) and any(is_name(t, name) for t in m.targets)]
            if later:
                raise Unsupported(f"{cls}.{name}: rebound in the class body")
            return ms[0], n
    raise Unsupported(f"class {cls} not found")


def check_reflected(tree):
    """Quantity.__rmul__ = __mul__ ;  Unit.__rmul__(self, other): return self.__mul__(other)"""
    for n in tree.body:
        if isinstance(n, ast.ClassDef) and n.name == 'Quantity':
            al = [m for m in n.body if isinstance(m, ast.Assign)
                  and any(is_name(t, '__rmul__') for t in m.targets)]
            if not (len(al) == 1 and is_name(al[0].value, '__mul__') and len(al[0].targets) == 1):
                raise Unsupported("Quantity.__rmul__ is not `__rmul__ = __mul__`")
            if [m for m in n.body if isinstance(m, ast.FunctionDef) and m.name == '__rmul__']:
                raise Unsupported("Quantity.__rmul__ defined as a function as well")
    m, _ = find_method(tree, 'Unit', '__rmul__')
    body = [x for x in m.body if not (isinstance(x, ast.Expr) and isinstance(x.value, ast.Constant))]
    ok = (len(body) == 1 and isinstance(body[0], ast.Return)
          and ast.dump(body[0].value) == ast.dump(ast.parse("self.__mul__(other)").body[0].value)
          and [a.arg for a in m.args.args] == ['self', 'other'])
    if not ok:
        raise Unsupported("Unit.__rmul__ is not `return self.__mul__(other)`")


PRELUDE = '''(* GENERATED by /verif/translate/oplayer.py from src/quantity/__init__.py:
   Unit.__mul__ / __truediv__ / __rtruediv__ / _pow / __pow__ and
   Quantity.__mul__ / __truediv__ / __rtruediv__ / __pow__, once per kind of the
   second operand (num = Rational, real = float taken at its exact value, unit,
   qty, int).  Quantity.__rmul__ = __mul__ and Unit.__rmul__ = self.__mul__(other)
   are checked by the translator.  From src/quantity/money/__init__.py:
   ExchangeRate.__mul__ (= __rmul__, checked) and __rtruediv__ for a Money operand
   and for a quantity of another type.  Do not edit; rewritten on every run. *)
From Coq Require Import ZArith QArith List Bool.
From QV Require Import Model.Num Model.Rounding Model.Quantity Model.Dim Model.Registry
     Model.Rates Model.RegRates Gen.QuantityImpl.
Open Scope Z_scope.

'''

PARAMS = {'unit': lambda n: f"({n} : runit)", 'num': lambda n: f"({n} : Q)",
          'real': lambda n: f"({n} : Q)", 'int': lambda n: f"({n} : Z)",
          'qty': lambda n: f"({n}_amount : Q) ({n}_unit : runit)",
          'money': lambda n: f"({n}_amount : Q) ({n}_unit : runit)",
          'pqty': lambda n: f"({n}_amount : Q) ({n}_unit : runit)",
          'rate': lambda n: f"({n}_unit_currency {n}_term_currency : runit) ({n}_rate {n}_inverse_rate : Q)"}


def _emit(tree, fn, out):
    m, _ = find_method(tree, fn.cls, fn.meth)
    names = [a.arg for a in m.args.args]
    # a trailing `_op_cache=_UNIT_OP_CACHE` default parameter is the global cache
    if names[-1:] == ['_op_cache']:
        if not (len(m.args.defaults) == 1 and is_name(m.args.defaults[0], '_UNIT_OP_CACHE')):
            raise Unsupported(f"{fn.cls}.{fn.meth}: cache parameter")
        names = names[:-1]
    elif m.args.defaults:
        raise Unsupported(f"{fn.cls}.{fn.meth}: default values")
    if len(names) != 2 or names[0] != 'self' or m.args.vararg or m.args.kwarg or m.args.kwonlyargs:
        raise Unsupported(f"{fn.cls}.{fn.meth}: signature {names}")
    o = names[1]
    env = {}
    for n, k in (('self', fn.selfk), (o, fn.otherk)):
        if k in ('qty', 'money', 'pqty'):
            env[n] = (k, f"{n}_amount", f"{n}_unit")
        elif k == 'rate':
            env[n] = (k, f"{n}_unit_currency", f"{n}_term_currency", f"{n}_rate",
                      f"{n}_inverse_rate")
        else:
            env[n] = (k, n)
    tr = Tr(fn)
    body = tr.block(m.body, env, 's')
    params = f"{PARAMS[fn.selfk]('self')} {PARAMS[fn.otherk](o)}"
    if fn.level == 'pair':
        sig = f"(s : state) {params} : state * res (Q * option N)"
    else:
        sig = f"(s : state) (dm : mode) (ce : convenv) {params} : state * res mres"
    out.append(f"(* {fn.cls}.{fn.meth}, second operand: {fn.otherk} *)\n"
               f"Definition {fn.coqname} {sig} :=\n{body}.\n")


def generate(path):
    """path: src/quantity/__init__.py; the money module is taken from the same tree"""
    tree = ast.parse(open(path, encoding='utf-8').read())
    check_reflected(tree)
    out = [PRELUDE]
    for fn in FUNCS:
        _emit(tree, fn, out)
    mpath = os.path.join(os.path.dirname(path), 'money', '__init__.py')
    mtree = ast.parse(open(mpath, encoding='utf-8').read())
    for n in mtree.body:
        if isinstance(n, ast.ClassDef) and n.name == 'ExchangeRate':
            al = [m for m in n.body if isinstance(m, ast.Assign)
                  and any(is_name(t, '__rmul__') for t in m.targets)]
            if not (len(al) == 1 and is_name(al[0].value, '__mul__') and len(al[0].targets) == 1):
                raise Unsupported("ExchangeRate.__rmul__ is not `__rmul__ = __mul__`")
            if [m for m in n.body if isinstance(m, ast.FunctionDef) and m.name == '__rmul__']:
                raise Unsupported("ExchangeRate.__rmul__ defined as a function as well")
    for fn in MONEY_FUNCS:
        _emit(mtree, fn, out)
    return "\n".join(out)


if __name__ == '__main__':
    try:
        sys.stdout.write(generate(sys.argv[1]))
    except Unsupported as e:
        sys.stderr.write(f"Unsupported: {e}\n")
        sys.exit(2)
