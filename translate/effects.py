"""Fail-closed translator of the DECLARING methods into the effect language of
coq/Model/Effects.v (Raise / Guard / Write / Return / If / Loop / Call):

  QuantityMeta._make_unit, _make_ref_unit, new_unit, derive_unit_from
                                                     (src/quantity/__init__.py)
  MoneyMeta.new_unit, register_currency, MoneyConverter.update
                                                     (src/quantity/money/__init__.py)

Written to coq/Gen/EffectsImpl.v on every run.  Properties/C16.v states that each
generated program passes the check `atomic` and hence (EffectsProofs.atomic_sound,
proved once for the language) that whenever it ends in an exception no directory,
registry or converter table has been written: "rejected declarations leave no
trace" as a statement about the code's control flow, for all inputs.  A change
that moves a write in front of a check makes `atomic ... = true` false.

What the translator decides (trusted, DESIGN.md 4):
  * WRITE = assignment to a subscript (`REGISTRY[k] = v`, `cls._unit_map[k] = v`),
    assignment to an attribute of `self` / `cls` (objects that exist before the
    call), and the calls .append/.update/.setdefault/.register_item/.pop/.remove/
    .clear/.add/.insert/.extend/.discard/.popitem on an attribute or on a module-level
    registry.  Assignments to local names and to attributes of objects created in
    the method (`unit = object.__new__(..)`, the result of an inlined creating call)
    are local.
  * `_TERM_UNIT_MAP.register_item(unit)` cannot raise (the registry is created with
    unique_items=False; checked in the source); dict.setdefault / list.append cannot
    raise; any other writing call may raise BEFORE it writes (Guard; Write).
  * GUARD = anything that may raise: every call outside a short list of total
    builtins (isinstance, type, len, str, repr, object.__new__, super), every
    subscript load, arithmetic, comparison other than `is` / `is not`, comprehension,
    every `assert` except the typing asserts `assert isinstance(...)` and
    `assert <name>.<attr> is not None`, which cannot fail.
  * `try: A except E: H else: L` is the choice between `A; L` and, for each
    handler, `A'; H` where A' are the statements of A (A must be write-free).
  * calls of the other translated methods (cls._make_unit, cls._make_ref_unit,
    super().new_unit in MoneyMeta, cls.new_unit in MoneyMeta.register_currency)
    are `Call <their program>`.
Class creation (QuantityMeta.__new__ / __init__) is NOT covered: its exception
safety rests on a dynamic fact (the dimension was checked before the reference
unit is made, so the later registration cannot fail), which C16's histories test.
"""
import ast
import os
import sys


class Unsupported(Exception):
    pass


def fail(node, why):
    raise Unsupported(f"line {getattr(node, 'lineno', '?')}: {why}: {ast.dump(node)[:200]}")


TOTAL_CALLS = {'isinstance', 'type', 'len', 'str', 'repr', 'super', 'id'}
WRITE_METHODS = {'append', 'update', 'setdefault', 'register_item', 'pop', 'remove', 'clear',
                 'add', 'insert', 'extend', 'discard', 'popitem', 'unregister_item'}
NONRAISING_WRITES = {'append', 'setdefault', 'add', 'extend', 'clear', 'discard'}
REGISTRIES = {'_SYMBOL_UNIT_MAP', '_TERM_UNIT_MAP', '_UNIT_OP_CACHE'}


def is_name(e, n):
    return isinstance(e, ast.Name) and e.id == n


class Tr:
    def __init__(self, cls, meth, calls):
        self.cls, self.meth, self.calls = cls, meth, calls
        self.local = set()          # names of objects created here

    # ---- expressions -------------------------------------------------------------
    def inlined(self, e):
        """name of the program of a call of another translated method, or None"""
        if isinstance(e, ast.Call) and isinstance(e.func, ast.Attribute):
            recv, m = e.func.value, e.func.attr
            if is_name(recv, 'cls') and ('cls', m) in self.calls:
                return self.calls[('cls', m)]
            if isinstance(recv, ast.Call) and is_name(recv.func, 'super') and not recv.args \
                    and ('super', m) in self.calls:
                return self.calls[('super', m)]
        return None

    def receiver_is_shared(self, recv):
        """an attribute (self._x, cls._x, X.y) or a module-level registry"""
        if isinstance(recv, ast.Attribute):
            return not (isinstance(recv.value, ast.Name) and recv.value.id in self.local)
        return isinstance(recv, ast.Name) and recv.id in REGISTRIES

    def writing_call(self, e):
        return isinstance(e, ast.Call) and isinstance(e.func, ast.Attribute) \
            and e.func.attr in WRITE_METHODS and self.receiver_is_shared(e.func.value)

    def may_raise(self, e):
        """conservative: True unless the expression is built from total pieces"""
        if e is None or isinstance(e, (ast.Constant, ast.Name)):
            return False
        if isinstance(e, ast.Attribute):
            return self.may_raise(e.value)
        if isinstance(e, (ast.Tuple, ast.List, ast.Set)):
            return any(self.may_raise(x) for x in e.elts)
        if isinstance(e, ast.Dict):
            return any(self.may_raise(x) for x in e.keys + e.values if x is not None)
        if isinstance(e, ast.JoinedStr):
            return any(self.may_raise(v.value) for v in e.values if isinstance(v, ast.FormattedValue)) \
                or any(isinstance(v, ast.FormattedValue) and v.format_spec is not None
                       for v in e.values)       # a format spec may not fit the value
        if isinstance(e, ast.BoolOp):
            return any(self.may_raise(x) for x in e.values)
        if isinstance(e, ast.UnaryOp) and isinstance(e.op, ast.Not):
            return self.may_raise(e.operand)
        if isinstance(e, ast.Compare):
            if all(isinstance(o, (ast.Is, ast.IsNot)) for o in e.ops):
                return self.may_raise(e.left) or any(self.may_raise(c) for c in e.comparators)
            return True
        if isinstance(e, ast.IfExp):
            return any(self.may_raise(x) for x in (e.test, e.body, e.orelse))
        if isinstance(e, ast.Call):
            f = e.func
            total = (isinstance(f, ast.Name) and f.id in TOTAL_CALLS) or \
                (isinstance(f, ast.Attribute) and f.attr == '__new__' and is_name(f.value, 'object'))
            if total and not e.keywords:
                return any(self.may_raise(a) for a in e.args)
            return True
        return True

    def has_write(self, e):
        return any(self.writing_call(n) for n in ast.walk(e))

    def expr(self, e):
        """effect of evaluating an expression (no writes allowed inside, except one
        writing / inlined call at the top)"""
        if e is None:
            return []
        name = self.inlined(e)
        if name:
            pre = ['Guard'] if any(self.may_raise(a) for a in e.args) or e.keywords and any(
                self.may_raise(k.value) for k in e.keywords) else []
            for a in list(e.args) + [k.value for k in e.keywords]:
                if self.has_write(a) or any(self.inlined(n) for n in ast.walk(a)):
                    fail(e, "write inside the arguments of a call")
            return pre + [f"Call {name}"]
        if self.writing_call(e):
            for a in list(e.args) + [k.value for k in e.keywords]:
                if self.has_write(a) or any(self.inlined(n) for n in ast.walk(a)):
                    fail(e, "write inside the arguments of a writing call")
            pre = ['Guard'] if any(self.may_raise(a) for a in e.args) or self.may_raise(e.func.value) \
                else []
            m = e.func.attr
            total = m in NONRAISING_WRITES or (m == 'register_item' and is_name(e.func.value, '_TERM_UNIT_MAP')) \
                or (m == 'update' and not any(self.may_raise(a) for a in e.args))
            return pre + ([] if total else ['Guard']) + ['Write']
        for n in ast.walk(e):
            if n is not e and (self.writing_call(n) or self.inlined(n)):
                fail(e, "write nested inside an expression")
        return ['Guard'] if self.may_raise(e) else []

    # ---- statements ----------------------------------------------------------------
    def target(self, t):
        """'local' | 'write' for an assignment target"""
        if isinstance(t, ast.Name):
            return 'local'
        if isinstance(t, (ast.Tuple, ast.List)):
            ks = {self.target(x) for x in t.elts}
            return 'write' if 'write' in ks else 'local'
        if isinstance(t, ast.Attribute):
            if isinstance(t.value, ast.Name) and t.value.id in self.local:
                return 'local'
            return 'write'
        if isinstance(t, ast.Subscript):
            if isinstance(t.value, ast.Name) and t.value.id in self.local:
                return 'local'
            return 'write'
        fail(t, "assignment target")

    def block(self, stmts):
        out = []
        for st in stmts:
            out += self.stmt(st)
        return out

    def stmt(self, st):
        if isinstance(st, ast.Expr):
            if isinstance(st.value, ast.Constant):
                return []
            return self.expr(st.value)
        if isinstance(st, ast.Pass):
            return []
        if isinstance(st, ast.Raise):
            return ['Raise']
        if isinstance(st, ast.Return):
            return self.expr(st.value) + ['Return']
        if isinstance(st, ast.Assert):
            t = st.test
            typing_assert = (isinstance(t, ast.Call) and is_name(t.func, 'isinstance')) or \
                (isinstance(t, ast.Compare) and len(t.ops) == 1 and isinstance(t.ops[0], ast.IsNot)
                 and isinstance(t.comparators[0], ast.Constant) and t.comparators[0].value is None
                 and isinstance(t.left, ast.Attribute) and st.msg is None)
            if typing_assert and not self.may_raise(t):
                return []
            return ['Guard']
        if isinstance(st, (ast.Assign, ast.AnnAssign, ast.AugAssign)):
            if isinstance(st, ast.AnnAssign) and st.value is None:
                return []
            targets = st.targets if isinstance(st, ast.Assign) else [st.target]
            eff = self.expr(st.value)
            if isinstance(st, ast.AugAssign):
                eff = eff + ['Guard']
            v = st.value
            creating = (isinstance(v, ast.Call) and isinstance(v.func, ast.Attribute)
                        and v.func.attr == '__new__' and is_name(v.func.value, 'object')) \
                or self.inlined(v) is not None \
                or isinstance(v, (ast.List, ast.Dict, ast.Set, ast.ListComp, ast.DictComp))
            for t in targets:
                k = self.target(t)
                if k == 'write':
                    eff = eff + ['Write']
                elif isinstance(t, ast.Name):
                    if creating:
                        self.local.add(t.id)
                    else:
                        self.local.discard(t.id)
            return eff
        if isinstance(st, ast.If):
            return self.expr(st.test) + [('If', self.block(st.body), self.block(st.orelse))]
        if isinstance(st, ast.For):
            if st.orelse:
                fail(st, "for ... else")
            return self.expr(st.iter) + [('Loop', self.block(st.body))]
        if isinstance(st, ast.Try):
            if st.finalbody:
                fail(st, "try ... finally")
            body = self.block(st.body)
            if contains_write(body):
                fail(st, "write inside a try body")
            alts = [body + self.block(st.orelse)] + [body + self.block(h.body) for h in st.handlers]
            acc = alts[-1]
            for a in reversed(alts[:-1]):
                acc = [('If', a, acc)]
            return acc
        fail(st, "statement")


def contains_write(p):
    for s in p:
        if s == 'Write' or (isinstance(s, str) and s.startswith('Call ')):
            return True
        if isinstance(s, tuple) and any(contains_write(x) for x in s[1:]):
            return True
    return False


def show(p, ind=2):
    pad = ' ' * ind
    items = []
    for s in p:
        if isinstance(s, str):
            items.append(pad + s)
        elif s[0] == 'If':
            items.append(f"{pad}If\n{show_list(s[1], ind + 2)}\n{show_list(s[2], ind + 2)}")
        else:
            items.append(f"{pad}Loop\n{show_list(s[1], ind + 2)}")
    return ";\n".join(items)


def show_list(p, ind):
    pad = ' ' * ind
    if not p:
        return pad + "[]"
    return f"{pad}[\n{show(p, ind + 2)}\n{pad}]"


def find_method(tree, cls, name):
    for n in tree.body:
        if isinstance(n, ast.ClassDef) and n.name == cls:
            ms = [m for m in n.body if isinstance(m, ast.FunctionDef) and m.name == name
                  and not m.decorator_list]
            if len(ms) != 1:
                raise Unsupported(f"{cls}.{name}: {len(ms)} undecorated definitions")
            return ms[0]
    raise Unsupported(f"class {cls} not found")


def check_term_registry(tree):
    """_TERM_UNIT_MAP = <registry>(unique_items=False): registering never raises"""
    for n in tree.body:
        tgt = val = None
        if isinstance(n, ast.Assign) and len(n.targets) == 1:
            tgt, val = n.targets[0], n.value
        elif isinstance(n, ast.AnnAssign):
            tgt, val = n.target, n.value
        if tgt is not None and is_name(tgt, '_TERM_UNIT_MAP'):
            if isinstance(val, ast.Call) and any(
                    k.arg == 'unique_items' and isinstance(k.value, ast.Constant)
                    and k.value.value is False for k in val.keywords):
                return
            raise Unsupported("_TERM_UNIT_MAP is not created with unique_items=False")
    raise Unsupported("_TERM_UNIT_MAP not found")


PROGRAMS = [
    # (Coq name, file, class, method, {call -> program})
    ('make_unit_prog', '__init__.py', 'QuantityMeta', '_make_unit', {}),
    ('make_ref_unit_prog', '__init__.py', 'QuantityMeta', '_make_ref_unit',
     {('cls', '_make_unit'): 'make_unit_prog'}),
    ('new_unit_prog', '__init__.py', 'QuantityMeta', 'new_unit',
     {('cls', '_make_unit'): 'make_unit_prog'}),
    ('derive_unit_prog', '__init__.py', 'QuantityMeta', 'derive_unit_from',
     {('cls', '_make_unit'): 'make_unit_prog'}),
    ('new_currency_prog', 'money/__init__.py', 'MoneyMeta', 'new_unit',
     {('super', 'new_unit'): 'new_unit_prog'}),
    ('register_currency_prog', 'money/__init__.py', 'MoneyMeta', 'register_currency',
     {('cls', 'new_unit'): 'new_currency_prog'}),
    ('converter_update_prog', 'money/__init__.py', 'MoneyConverter', 'update', {}),
]

PRELUDE = '''(* GENERATED by /verif/translate/effects.py: control flow and effects of the
   declaring methods of src/quantity/__init__.py and src/quantity/money/__init__.py
   in the language of Model/Effects.v.  Do not edit; rewritten on every run. *)
From Coq Require Import List.
From QV Require Import Model.Effects.
Import ListNotations.

'''


def generate(init_path):
    base = os.path.dirname(init_path)
    trees = {}
    out = [PRELUDE]
    for name, rel, cls, meth, calls in PROGRAMS:
        fp = os.path.join(base, rel)
        if fp not in trees:
            trees[fp] = ast.parse(open(fp, encoding='utf-8').read())
        if rel == '__init__.py' and name == 'make_unit_prog':
            check_term_registry(trees[fp])
        m = find_method(trees[fp], cls, meth)
        tr = Tr(cls, meth, calls)
        prog = tr.block(m.body)
        out.append(f"(* {cls}.{meth} ({rel}) *)\nDefinition {name} : list stmt :=\n"
                   f"{show_list(prog, 2)}.\n")
    out.append("Definition declaring_methods : list (list stmt) :=\n  ["
               + "; ".join(p[0] for p in PROGRAMS) + "].\n")
    return "\n".join(out)


if __name__ == '__main__':
    try:
        sys.stdout.write(generate(sys.argv[1]))
    except Unsupported as e:
        sys.stderr.write(f"Unsupported: {e}\n")
        sys.exit(2)
