"""C13 — quantize and round follow the requested rounding mode exactly."""
from fractions import Fraction as F

from vlib import siref, world as W
from vlib.core import cz, cq, cbool, copt
from vlib.pyround import py_round, to_quantum

PID = 'C13'
PROPERTY_FILE = 'Properties/C13.v'
# generated model parts (translate/) this property's model / proofs really depend on
GEN_DEPS = ['RoundingImpl', 'QuantityImpl', 'AllocImpl', 'StateInventory']
MODEL_TARGETS = ['Corr/C13Corr.vo']
PROOF_TARGETS = ['Proofs/C13Proofs.vo']
COQ_HEADER = ("From QV Require Import Model.Num Model.Rounding Model.Quantity "
              "Corr.Common Corr.Obs Corr.C13Corr.")
COQ_CHECK = 'c13_check'
ISOLATE = True
RULE = ("seeded generator: receiver/quantum in every unit pair of a linear type "
        "(predefined catalogue or random user-declared chains, quantized or not), "
        "amount = (k + t) * quantum' with t in {0, +-1/2, +-1/2 +- eps, thirds}, "
        "8 explicit modes and 8 default modes, decimal and fraction "
        "representations, negative quanta; plus direct calls of the private "
        "_floordiv_rounded and of decimalfp's Decimal(q, 0). non-trivial = the "
        "quotient amount/quantum is not integral (a rounding decision is made); "
        "distinct by (kind, mode, quotient).")
ASSUMPTIONS = [
    "decimalfp's Decimal.quantize / Decimal(x, 0) / round(Decimal, n) are "
    "modelled by the reference rounding rnd_ref (validated here on every run, "
    "not proved)",
    "fractions.Fraction.__round__ rounds half-even",
]
EXHAUSTIVE = {}


def _frs(f):
    f = F(f)
    return f"{f.numerator}/{f.denominator}"


TIES = [F(0), F(1, 2), F(-1, 2), F(1, 2) + F(1, 10**9), F(1, 2) - F(1, 10**9),
        F(-1, 2) + F(1, 10**9), F(-1, 2) - F(1, 10**9), F(1, 3), F(-2, 3),
        F(1, 7), F(999, 1000), F(1, 10**12)]
QUANTA = [F(1), F(25), F(1, 4), F(1, 3), F(5, 100), F(7), F(-1), F(-3, 8),
          F(1, 1000), F(12345, 100), F(2, 7)]


def _pick_world(rng):
    if rng.random() < 0.55:
        return {'predefined': True}
    return W.random_world(rng, n_classes=1)


def _class_units(world, views, rng):
    by_cls = {}
    for s, u in views.units.items():
        if u['has_ref'] and u['scale'] is not None:
            by_cls.setdefault(u['clsname'], []).append(s)
    cls = rng.choice(sorted(by_cls))
    return cls, by_cls[cls]


def gen_cases(rng, tier):
    n = {'quick': 900, 'thorough': 12000}.get(tier, 900)
    cases = []
    # the private helper and the dependency's rounding, all modes x tie grid
    for m in W.MODES:
        for y in (1, 2, 3, 4, 5, 7, 10, 200):
            for x in range(-3 * y - 1, 3 * y + 2) if y <= 10 else (-700, -500, -300, -100, 100, 300, 500, 700, 101, -99):
                cases.append({'kind': 'floordiv', 'x': x, 'y': y, 'm': m})
        for k in (-15, -10, -6, -5, -1, 0, 1, 4, 5, 10, 25):
            for t in TIES[:9]:
                cases.append({'kind': 'ref', 'm': m, 'q': _frs(k + t)})
    if tier != 'thorough':
        cases = rng.sample(cases, 900)
    # money has no reference unit: quantize is rejected with TypeError, also for a quantum in
    # the amount's own currency and for a zero amount (seeded C13-i, C13-d)
    for _ in range(12 if tier == 'quick' else 120):
        cur = rng.sample(['EUR', 'CHF', 'JPY', 'BHD'], 2)
        u = cur[0]
        v = rng.choice([u, u, cur[1]])
        cases.append({'kind': 'quantize', 'world': {'currencies': cur}, 'dm': rng.choice(W.MODES),
                      'u': u, 'v': v, 'a': ['dec', rng.choice(['869/50', '0/1', '-5/1', '1738/100'])],
                      'b': ['dec', rng.choice(['1/20', '1/1', '5/1'])],
                      'rm': rng.choice(W.MODES + [None])})
    for _ in range(n):
        world = _pick_world(rng)
        views = W.Views(world)
        r = rng.random()
        dm = rng.choice(W.MODES)
        if r < 0.06:
            # rejected quanta: other type / type without reference unit
            if world.get('predefined') and rng.random() < 0.5:
                u = rng.choice(siref.TEMPERATURE)
                v = rng.choice(siref.TEMPERATURE)
            else:
                syms = sorted(views.units)
                u, v = rng.choice(syms), rng.choice(syms)
            cases.append({'kind': 'quantize', 'world': world, 'dm': dm, 'u': u, 'v': v,
                          'a': ['dec', _frs(rng.randint(-50, 50))],
                          'b': ['dec', '1/1'], 'rm': rng.choice(W.MODES + [None])})
            continue
        cls, syms = _class_units(world, views, rng)
        u, v = rng.choice(syms), rng.choice(syms)
        su, sv = views.units[u]['scale'], views.units[v]['scale']
        if r < 0.25:
            nd = rng.randint(-3, 6)
            k = rng.randint(-2000, 2000)
            a = (k + rng.choice(TIES)) * F(10) ** (-nd)
            kind = 'dec' if (W.is_decimal(a) and rng.random() < 0.6) else 'frac'
            cases.append({'kind': 'round', 'world': world, 'dm': dm, 'u': u,
                          'a': [kind, _frs(a)], 'nd': nd})
            continue
        b = rng.choice(QUANTA)
        nq = b * sv / su
        k = rng.choice([0, 1, -1, 2, -2, 5, -5, 10, -10, 24, -25, rng.randint(-10**6, 10**6)])
        a = (k + rng.choice(TIES)) * nq
        if rng.random() < 0.03:
            a = F(0)
        akind = 'dec' if (W.is_decimal(a) and rng.random() < 0.6) else 'frac'
        bkind = 'dec' if (W.is_decimal(b) and rng.random() < 0.6) else 'frac'
        cases.append({'kind': 'quantize', 'world': world, 'dm': dm, 'u': u, 'v': v,
                      'a': [akind, _frs(a)], 'b': [bkind, _frs(b)],
                      'rm': rng.choice(W.MODES + [None, None, None])})
    # same-process sequences: the same fraction amount / quantum quantized without an
    # explicit mode under changing default modes (a memo that forgets the mode, or any
    # other process-global state, shows only here)
    pre = {'predefined': True}
    for g in range(12 if tier == 'quick' else 120):
        u, v = rng.choice(['g', 'kg', 'lb']), rng.choice(['g', 'kg', 'mg'])
        views = W.Views(pre)
        nq = views.units[v]['scale'] / views.units[u]['scale']
        a = (rng.choice([2, -3, 7, 0]) + rng.choice([F(1, 2), F(-1, 2), F(1, 3), F(2, 3)])) * nq
        for m in rng.sample(W.MODES, 6):
            cases.append({'kind': 'quantize', 'world': pre, 'dm': m, 'u': u, 'v': v,
                          'a': ['frac', _frs(a)], 'b': ['frac', '1/1'], 'rm': None,
                          'group': f"seq{g}"})
    return cases


# ------------------------------------------------------------ implementation

def impl_run(case):
    import quantity
    k = case['kind']
    if k == 'floordiv':
        m = W.rounding_enum(case['m'])
        return W.guarded(lambda: quantity._floordiv_rounded(case['x'], case['y'], m))
    if k == 'ref':
        from decimalfp import Decimal
        W.set_mode(case['m'])
        return W.guarded(lambda: Decimal(F(case['q']), 0))
    W.set_mode(case['dm'])
    units, _ = W.instantiate(case['world'])
    p = W.number(tuple(case['a'])) * units[case['u']]
    recv = W.observe(p)
    if k == 'round':
        return {'recv': recv, 'res': W.guarded(lambda: round(p, case['nd']))}
    qn = W.number(tuple(case['b'])) * units[case['v']]
    rm = W.rounding_enum(case['rm'])
    before = W.observe(p)
    res = W.guarded(lambda: p.quantize(qn, rm) if rm is not None
                    else p.quantize(qn))
    return {'recv': recv, 'quant': W.observe(qn), 'res': res,
            'recv_after': W.observe(p), 'same_before': before == W.observe(p)}


# ------------------------------------------------------------ model side

def _isdec(o):
    return o['repr'] == 'Decimal'


def coq_case(case, r):
    k = case['kind']
    if k == 'floordiv':
        if r['k'] != 'num':
            return None
        return f"(KFloorDiv {cz(case['x'])} {cz(case['y'])} {case['m']} {cz(F(r['v']))})"
    if k == 'ref':
        if r['k'] != 'num':
            return None
        return f"(KRef {case['m']} {cq(F(case['q']))} {cz(F(r['v']))})"
    views = W.Views(case['world'])
    recv = r['recv']
    exp = W.coq_obs(r['res'], views)
    if k == 'round':
        return (f"(KRound {case['dm']} {cbool(_isdec(recv))} {cq(F(recv['amt']))} "
                f"{views.coq(case['u'])} {cz(case['nd'])} {exp})")
    qn = r['quant']
    return (f"(KQuantize {case['dm']} {cbool(_isdec(recv))} {cq(F(recv['amt']))} "
            f"{views.coq(case['u'])} {cq(F(qn['amt']))} {views.coq(case['v'])} "
            f"{copt(case['rm'])} {exp})")


def coq_model_term(case, r):
    t = coq_case(case, r)
    return f"c13_model {t}" if t else "tt"


# ------------------------------------------------------------ oracle

def oracle(case, r):
    k = case['kind']
    if k == 'floordiv':
        exp = py_round(case['m'], F(case['x'], case['y']))
        if r['k'] != 'num' or F(r['v']) != exp:
            return f"_floordiv_rounded({case['x']},{case['y']},{case['m']}) = {r} expected {exp}"
        return None
    if k == 'ref':
        return None     # the dependency, not the repo: validation only (in Coq)
    views = W.Views(case['world'])
    u = views.units[case['u']]
    res = r['res']
    recv = r['recv']
    a = F(recv['amt'])
    if r.get('same_before') is False:
        return "quantize changed its receiver"
    if k == 'round':
        # Decimal amounts: default mode; Fraction amounts: half-even (Python)
        m = case['dm'] if _isdec(recv) else 'MHEVEN'
        exp = to_quantum(m, a, F(10) ** (-case['nd']))
        if u['quantum'] is not None:
            exp = to_quantum(case['dm'], exp, u['quantum'])
        if res['k'] != 'qty' or res['sym'] != case['u'] or res['cls'] != u['clsname'] \
                or res.get('float') or F(res['amt']) != exp:
            return f"round: got {res}, expected {exp} {case['u']}"
        return None
    v = views.units[case['v']]
    if u['cls'] != v['cls'] or not u['has_ref']:
        if res['k'] != 'err' or res['e'] != 'ETypeError':
            return f"quantum of another type / no reference unit not rejected with TypeError: {res}"
        return None
    b = F(r['quant']['amt'])
    nq = b * v['scale'] / u['scale']
    if a == 0:
        exp = a
    else:
        if nq == 0:
            return None
        m = case['rm'] or case['dm']
        exp = to_quantum(m, a, nq)
        if u['quantum'] is not None:
            exp = to_quantum(case['dm'], exp, u['quantum'])
    if res['k'] != 'qty' or res['sym'] != case['u'] or res['cls'] != u['clsname'] \
            or res.get('float') or F(res['amt']) != exp:
        return f"quantize: got {res}, expected {exp} {case['u']}"
    return None


def labels(case, r):
    k = case['kind']
    out = ['kind=' + k]
    if k in ('floordiv', 'ref'):
        out.append('mode=' + case['m'])
        return out
    out.append('world=' + ('predefined' if case['world'].get('predefined') else 'user'))
    out.append('dflt=' + case['dm'])
    out.append('recv-repr=' + r['recv']['repr'])
    out.append('result=' + (r['res']['e'] if r['res']['k'] == 'err' else r['res']['k']))
    if k == 'quantize':
        out.append('explicit=' + str(case['rm']))
    return out


def nontrivial_key(case, r):
    k = case['kind']
    if k == 'floordiv':
        return ('f', case['m'], F(case['x'], case['y'])) if case['x'] % case['y'] else None
    if k == 'ref':
        q = F(case['q'])
        return ('r', case['m'], q) if q.denominator != 1 else None
    if r['res']['k'] != 'qty':
        return None
    a = F(r['recv']['amt'])
    if k == 'round':
        q = a * F(10) ** case['nd']
        return ('rd', case['dm'], q) if q.denominator != 1 else None
    views = W.Views(case['world'])
    u, v = views.units[case['u']], views.units[case['v']]
    nq = F(r['quant']['amt']) * v['scale'] / u['scale']
    if nq == 0:
        return None
    q = a / nq
    return ('q', case['rm'] or case['dm'], q) if q.denominator != 1 else None
