"""C14 — table (affine) converters are exact, invertible and mutually consistent."""
import itertools
from fractions import Fraction as F

from vlib import siref, world as W, qtyops as Q
from vlib.core import clist
from vlib.qtyops import frs

PID = 'C14'
PROPERTY_FILE = 'Properties/C14.v'
# generated model parts (translate/) this property's model / proofs really depend on
GEN_DEPS = ['TempTable', 'QuantityImpl']
MODEL_TARGETS = ['Corr/C14Corr.vo']
PROOF_TARGETS = ['Proofs/GenQuantityEq.vo', 'Proofs/C14Proofs.vo']
COQ_HEADER = ("From QV Require Import Model.Num Model.Rounding Model.Quantity Model.Table "
              "Corr.Common Corr.Obs Corr.QtyCorr Corr.C14Corr.")
COQ_CHECK = 'c14_check'
ISOLATE = True
impl_run = Q.impl_run
RULE = ("predefined temperature: all 9 ordered unit pairs x 17 amounts (0, +-1, +-1/3, -40, "
        "32, 273.15, -459.67, 10^+-30, 2^-60, ...; Decimal, Fraction and int spellings) for "
        "convert and convert(..)==x, all 27 triples for convert-via, all 9 pairs x "
        "{<,<=,>,>=,==,!=} with ties / just-above / just-below amounts, sorted() of 2-8 mixed "
        "quantities; user-declared types WITHOUT reference unit (2-5 free units) with random "
        "TableConverters: mapping and list form, one or both directions tabulated, missing "
        "pairs, rows overwritten by a later row, 1-3 stacked converters with shadowed rows in "
        "older ones, consistent (derived from random affine maps to a hub, factors of either "
        "sign) and arbitrary inconsistent tables, zero factors, types with no converter, "
        "types with reference unit (converters ignored), targets of another type. Model side: "
        "reference table vlib/siref.TEMP_TABLE (predefined) or the case's own rows. "
        "non-trivial = source and target unit differ; distinct by (op, units, amounts, tables).")
ASSUMPTIONS = ["unit views of table-converted types: no reference unit, no scale, no quantum "
               "(vlib/world.py free units; Gen/TempTable.v checks the same for Temperature by ast)",
               "the correspondence of the predefined world uses the independent reference "
               "table vlib/siref.TEMP_TABLE; the theorems about the temperature scales are "
               "about the table GENERATED from predefined._temp_conv"]
EXHAUSTIVE = {'quick': False, 'thorough': False}
EXHAUSTIVE_NOTE = ("all 9 ordered pairs and all 27 triples of temperature units and all six "
                   "comparison operators are enumerated in both tiers; amounts and user tables "
                   "are sampled.  Inside Coq: table_consistent / table_increasing of the "
                   "generated table are decided by complete enumeration (vm_compute)")

TEMP = list(siref.TEMPERATURE)
PRE = {'predefined': True}
AMOUNTS = [F(0), F(1), F(-1), F(1, 3), F(-1, 3), F(-40), F(32), F(27315, 100),
           F(-45967, 100), F(100), F(37), F(986, 10), F(10) ** 30, -F(10) ** 30,
           F(10) ** -30, F(1, 2 ** 60), F(22, 7)]
# the property's fixed points, written down independently of any table
FIXED = {('°C', F(0), 'K'): F(27315, 100), ('K', F(27315, 100), '°C'): F(0),
         ('°C', F(0), '°F'): F(32), ('°F', F(32), '°C'): F(0),
         ('K', F(27315, 100), '°F'): F(32), ('°F', F(32), 'K'): F(27315, 100),
         ('°C', F(-40), '°F'): F(-40), ('°F', F(-40), '°C'): F(-40),
         ('K', F(0), '°F'): F(-45967, 100), ('°F', F(-45967, 100), 'K'): F(0)}
CMPS = ['lt', 'le', 'gt', 'ge', 'eq', 'ne']


def _spec(rng, a, force=None):
    a = F(a)
    kind = force or ('dec' if (W.is_decimal(a) and rng.random() < 0.6) else 'frac')
    if force is None and a.denominator == 1 and rng.random() < 0.25:
        kind = 'int'
    if kind == 'dec' and not W.is_decimal(a):
        kind = 'frac'
    return [kind, frs(a)]


# ------------------------------------------------------------ independent maps

def _lookup(case):
    """class name -> list of {(from, to): (factor, offset)}, most recent first."""
    per = {}
    if case['world'].get('predefined'):
        per['Temperature'] = [dict(siref.TEMP_TABLE)]
    for t in case.get('tables', []):
        m = {}
        for a, b, f, o in t['rows']:
            m[(a, b)] = (Q.num_value(f), Q.num_value(o))     # a later row replaces
        per.setdefault(t['cls'], []).insert(0, m)
    return per


def conv(case, views, a, u, v):
    """What the property text prescribes: (tag, value)."""
    U, V = views.units[u], views.units[v]
    if U['cls'] != V['cls']:
        return 'incompat', None
    if u == v:
        return 'same', a
    if U['scale'] is not None:
        if U['scale'] == V['scale']:
            return 'same', a
        return 'linear', a * U['scale'] / V['scale']
    for m in _lookup(case).get(U['clsname'], []):
        if (u, v) in m:
            f, o = m[(u, v)]
            return 'fwd', a * f + o
        if (v, u) in m:
            f, o = m[(v, u)]
            if f == 0:
                return 'zerodiv', None
            return 'rev', (a - o) / f
    return 'noconv', None


ERR_OF = {'incompat': 'EIncompatibleUnits', 'noconv': 'EUnitConversion',
          'zerodiv': 'EZeroDivision'}


# ------------------------------------------------------------ case generation

def _temperature_cases(rng, tier):
    cases = []
    thorough = tier != 'quick'
    # fixed points first
    for (u, a, v) in FIXED:
        for kind in ('dec', 'frac'):
            cases.append({'world': PRE, 'dm': 'MHEVEN',
                          'op': {'o': 'convert', 'x': ['q', _spec(rng, a, kind), u], 'v': v}})
        cases.append({'world': PRE, 'dm': rng.choice(W.MODES),
                      'op': {'o': 'eq', 'x': ['q', _spec(rng, a), u],
                             'y': ['q', _spec(rng, FIXED[(u, a, v)]), v]}})
    for u, v in itertools.product(TEMP, TEMP):
        for a in AMOUNTS:
            kinds = ['dec', 'frac'] if thorough else [rng.choice(['dec', 'frac', None])]
            for kind in kinds:
                cases.append({'world': PRE, 'dm': rng.choice(W.MODES),
                              'op': {'o': 'convert', 'x': ['q', _spec(rng, a, kind), u], 'v': v}})
        for a in (AMOUNTS if thorough else rng.sample(AMOUNTS, 4)):
            cases.append({'world': PRE, 'dm': rng.choice(W.MODES),
                          'op': {'o': 'conveq', 'x': ['q', _spec(rng, a), u], 'v': v}})
        # quantity / unit of its own type goes through the converter too (seeded C02-g)
        for a in (AMOUNTS if thorough else rng.sample(AMOUNTS, 2)):
            cases.append({'world': PRE, 'dm': rng.choice(W.MODES),
                          'op': {'o': 'divu', 'x': ['q', _spec(rng, a), u], 'v': v}})
    for u, w, v in itertools.product(TEMP, TEMP, TEMP):
        for a in (AMOUNTS if thorough else rng.sample(AMOUNTS, 3)):
            cases.append({'world': PRE, 'dm': rng.choice(W.MODES),
                          'op': {'o': 'via', 'x': ['q', _spec(rng, a), u], 'w': w, 'v': v}})
    probe = {'world': PRE}
    views = W.Views(PRE)
    for u, v in itertools.product(TEMP, TEMP):
        for c in CMPS:
            for a in rng.sample(AMOUNTS, 8 if thorough else 2):
                _, tie = conv(probe, views, a, u, v)
                d = rng.choice([F(0), F(0), F(1, 10 ** 12), -F(1, 10 ** 12), F(1), F(-3, 7)])
                b = tie + d
                cases.append({'world': PRE, 'dm': rng.choice(W.MODES),
                              'op': {'o': c, 'x': ['q', _spec(rng, a), u],
                                     'y': ['q', _spec(rng, b), v]}})
    for _ in range(25 if not thorough else 200):
        xs = []
        for _ in range(rng.randint(2, 8)):
            a = rng.choice(AMOUNTS[:12])
            u, v = rng.choice(TEMP), rng.choice(TEMP)
            if rng.random() < 0.4:          # ties in another unit
                a = conv(probe, views, a, u, v)[1]
                u = v
            xs.append(['q', _spec(rng, a), u])
        cases.append({'world': PRE, 'dm': 'MHEVEN', 'total': True,
                      'op': {'o': 'sorted', 'xs': xs}})
    return cases


RATS = [F(1), F(-1), F(2), F(1, 2), F(9, 5), F(5, 9), F(1, 3), F(-7, 3), F(27315, 100),
        F(32), F(-16, 10), F(10) ** 6, F(1, 10 ** 6), F(100), F(12345, 1000), F(-1, 1000)]


def _rat(rng, zero_p=0.0):
    if rng.random() < zero_p:
        return F(0)
    if rng.random() < 0.3:
        return F(rng.randint(-50, 50) or 7, rng.choice([1, 2, 3, 4, 5, 7, 9, 10, 100, 180]))
    return rng.choice(RATS)


def _row(rng, a, b, f, o):
    return [a, b, _spec(rng, f), _spec(rng, o)]


def _user_case(rng):
    tag = ''.join(rng.choice('klmnopqrst') for _ in range(3))
    n = rng.randint(2, 5)
    syms = [f"{tag}{i}" for i in range(n)]
    name = f"Tq{tag}"
    classes = [{'name': name, 'ref': None, 'free': syms}]
    other = None
    if rng.random() < 0.35:
        other = [f"{tag}x{i}" for i in range(2)]
        classes.append({'name': f"Tz{tag}", 'ref': None, 'free': other})
    world = {'predefined': False, 'classes': classes}
    mode = rng.choices(['consistent', 'random', 'none', 'zero'], [50, 30, 8, 12])[0]
    tables = []
    total = False
    if mode == 'consistent':
        mixed = rng.random() < 0.3
        hub = {}
        for s in syms:
            f = _rat(rng)
            if not mixed:
                f = abs(f)
            hub[s] = (f, _rat(rng, 0.2))

        def pm(i, j):           # x_j = (x_i f_i + o_i - o_j) / f_j
            return hub[i][0] / hub[j][0], (hub[i][1] - hub[j][1]) / hub[j][0]
        allow_missing = rng.random() < 0.3
        k = rng.choice([1, 1, 2, 3])
        parts = [[] for _ in range(k)]          # parts[-1] is registered last
        complete = True
        for i, j in itertools.combinations(syms, 2):
            how = rng.choice(['fwd', 'bwd', 'both'])
            if allow_missing and rng.random() < 0.25:
                complete = False
                continue
            p = rng.randrange(k)
            rows = []
            if how in ('fwd', 'both'):
                rows.append(_row(rng, i, j, *pm(i, j)))
            if how in ('bwd', 'both'):
                rows.append(_row(rng, j, i, *pm(j, i)))
            if rng.random() < 0.25:     # a wrong row, overwritten by the right one
                a, b = rows[0][0], rows[0][1]
                parts[p].append(_row(rng, a, b, _rat(rng), _rat(rng)))
            parts[p].extend(rows)
            if p > 0 and rng.random() < 0.4:    # shadowed garbage in an older converter
                a, b = rng.choice([(i, j), (j, i)])
                parts[rng.randrange(p)].append(_row(rng, a, b, _rat(rng), _rat(rng)))
        for p in parts:
            rng.shuffle(p) if not _has_dup(p) else None
            tables.append({'cls': name, 'form': rng.choice(['map', 'list', 'list', 'gen', 'zip', 'mapproxy']), 'rows': p})
        total = complete and not mixed
    elif mode in ('random', 'zero'):
        for _ in range(rng.choice([1, 1, 2, 3])):
            rows = []
            for _ in range(rng.randint(1, 7)):
                pool = syms + (other or []) if rng.random() < 0.1 else syms
                a, b = rng.choice(pool), rng.choice(pool)
                rows.append(_row(rng, a, b, _rat(rng, 0.5 if mode == 'zero' else 0.0),
                                 _rat(rng, 0.2)))
            tables.append({'cls': name, 'form': rng.choice(['map', 'list', 'list', 'gen', 'zip', 'mapproxy']), 'rows': rows})
        if other and rng.random() < 0.5:
            tables.append({'cls': f"Tz{tag}", 'form': 'list',
                           'rows': [_row(rng, other[0], other[1], _rat(rng), _rat(rng))]})
    case = {'world': world, 'dm': rng.choice(W.MODES), 'tables': tables, 'mode': mode}
    if mode == 'consistent':
        case['consistent'] = True
    views = W.Views(world)
    u = rng.choice(syms)
    v = rng.choice(syms)
    if other and rng.random() < 0.12:
        v = rng.choice(other)
    if mode == 'zero' and rng.random() < 0.6:    # aim at a zero-factor row, in reverse
        zs = [(t['rows'].index(row), row) for t in tables if t['cls'] == name
              for row in t['rows'] if Q.num_value(row[2]) == 0 and row[0] != row[1]
              and row[0] in syms and row[1] in syms]
        if zs:
            _, row = rng.choice(zs)
            u, v = row[1], row[0]
    a = rng.choice(AMOUNTS) if rng.random() < 0.6 else _rat(rng, 0.1)
    if u != v and rng.random() < 0.2:
        # aim at a converted amount of exactly ZERO (a falsy but valid answer of a
        # converter; with several stacked converters the next one must not be asked)
        try:
            t0, r0 = conv(case, views, F(0), u, v)
            t1, r1 = conv(case, views, F(1), u, v)
            if r0 is not None and r1 is not None and r1 != r0:
                a = -F(r0) / (F(r1) - F(r0))
        except Exception:       # noqa
            pass
    o = rng.choice(['convert', 'convert', 'via', 'via', 'conveq', 'cmp', 'cmp', 'cmp', 'sorted',
                    'divu'])
    if o == 'sorted' and not total:
        o = 'cmp'
    if o in ('convert', 'conveq', 'divu'):
        case['op'] = {'o': o, 'x': ['q', _spec(rng, a), u], 'v': v}
    elif o == 'via':
        w = rng.choice(syms)
        if rng.random() < 0.4:
            w, v = v if v in syms else w, u          # round trip
        case['op'] = {'o': 'via', 'x': ['q', _spec(rng, a), u], 'w': w, 'v': v}
    elif o == 'cmp':
        tagc, tie = conv(case, views, a, u, v)
        b = _rat(rng, 0.1)
        if tie is not None and rng.random() < 0.6:
            b = tie + rng.choice([F(0), F(0), F(1, 10 ** 9), -F(1, 10 ** 9)])
        case['op'] = {'o': rng.choice(CMPS), 'x': ['q', _spec(rng, b), v],
                      'y': ['q', _spec(rng, a), u]}
    else:
        xs = []
        for _ in range(rng.randint(2, 7)):
            s, t2 = rng.choice(syms), rng.choice(syms)
            x = rng.choice(AMOUNTS[:12])
            if rng.random() < 0.4:
                x, s = conv(case, views, x, s, t2)[1], t2
            xs.append(['q', _spec(rng, x), s])
        case['total'] = True
        case['op'] = {'o': 'sorted', 'xs': xs}
    return case


def _has_dup(rows):
    keys = [(r[0], r[1]) for r in rows]
    return len(keys) != len(set(keys))


def _linear_with_table(rng):
    """a type WITH reference unit: registered converters are never consulted"""
    world = W.random_world(rng, n_classes=1, quantized_p=0.0)
    c = world['classes'][0]
    syms = [c['ref']] + [u['sym'] for u in c['units']]
    rows = [_row(rng, rng.choice(syms), rng.choice(syms), _rat(rng), _rat(rng))
            for _ in range(3)]
    u, v = rng.choice(syms), rng.choice(syms)
    return {'world': world, 'dm': 'MHEVEN', 'mode': 'linear',
            'tables': [{'cls': c['name'], 'form': 'list', 'rows': rows}],
            'op': {'o': 'convert', 'x': ['q', _spec(rng, rng.choice(AMOUNTS)), u], 'v': v}}


def gen_cases(rng, tier):
    cases = _temperature_cases(rng, tier)
    for _ in range(450 if tier == 'quick' else 5000):
        cases.append(_user_case(rng))
    for _ in range(20 if tier == 'quick' else 200):
        cases.append(_linear_with_table(rng))
    return cases


# ------------------------------------------------------------ Coq encoding

def coq_case(case, r):
    op = case['op']
    if op['o'] == 'sorted':
        if not case.get('total') or r['res']['k'] != 'list':
            return None
        views = W.Views(case['world'])
        qs = [f"(mkQty {Q.cq(F(ob['amt']))} {views.coq(s[2])})"
              for s, ob in zip(op['xs'], r['ops'])]
        exp = [W.coq_obs(ob, views) for ob in r['res']['v']]
        return f"(CSorted {Q.coq_convs(case, views)} {clist(qs)} {clist(exp)})"
    t = Q.coq_case(case, r)
    return None if t is None else f"(CQ {t})"


def coq_model_term(case, r):
    op = case['op']
    if op['o'] == 'sorted':
        views = W.Views(case['world'])
        qs = [f"(mkQty {Q.cq(F(ob['amt']))} {views.coq(s[2])})"
              for s, ob in zip(op['xs'], r['ops'])]
        return f"c14_sorted_model {Q.coq_convs(case, views)} {clist(qs)}"
    t = Q.coq_case(case, r)
    return f"c14_qmodel {t}" if t else "tt"


# ------------------------------------------------------------ oracle

def _kelvin(sym, a):
    """temperature in kelvin from the two defining relations (no table)"""
    if sym == 'K':
        return a
    if sym == '°C':
        return a + F(27315, 100)
    return (a - 32) * F(5, 9) + F(27315, 100)


def _expect_qty(res, views, sym, val, what):
    u = views.units[sym]
    if not Q.is_qty(res, u['clsname'], sym):
        return f"{what}: expected a {u['clsname']} in {sym}, got {res}"
    if F(res['amt']) != val:
        return f"{what}: got {res['amt']} {sym}, the table prescribes {val}"
    return None


def oracle(case, r):
    views = W.Views(case['world'])
    op = case['op']
    o = op['o']
    res = r['res']
    pre = bool(case['world'].get('predefined'))
    if r.get('unchanged') is False:
        return "convert changed its receiver"
    if o in ('convert', 'conveq', 'via'):
        a = F(r['ops'][0]['amt'])
        u = op['x'][2]
        chain = [op['v']] if o != 'via' else [op['w'], op['v']]
        cur, cu = a, u
        for tgt in chain:
            tag, val = conv(case, views, cur, cu, tgt)
            if tag == 'zerodiv':
                return None         # a table with factor 0 is not invertible: no claim
            if tag in ERR_OF:
                if not Q.is_err(res, ERR_OF[tag]):
                    return f"{cu} -> {tgt} has no applicable converter ({tag}) but got {res}"
                return None
            cur, cu = val, tgt
        what = f"{a} {u} -> {' -> '.join(chain)}"
        if o == 'conveq':
            if res != {'k': 'bool', 'v': True}:
                return f"{what}: converted quantity does not equal the original: {res}"
            return None
        msg = _expect_qty(res, views, chain[-1], cur, what)
        if msg:
            return msg
        got = F(res['amt'])
        if pre and (u, a, op['v']) in FIXED and o == 'convert' and got != FIXED[(u, a, op['v'])]:
            return f"fixed point violated: {what} gave {got}"
        if pre and u in TEMP and _kelvin(op['v'], got) != _kelvin(u, a):
            return f"{what}: {got} is not the same temperature (kelvin values differ)"
        if o == 'via' and (pre or case.get('consistent')):
            if op['v'] == u and got != a:
                return f"round trip {what} returned {got}, not the identical amount"
            tag, direct = conv(case, views, a, u, op['v'])
            if tag not in ERR_OF and got != direct:
                return f"{what} gave {got}, the direct conversion gives {direct}"
        return None
    if o == 'divu':
        # quantity / unit of the same type = the amount converted to that unit (a number)
        a, u = F(r['ops'][0]['amt']), op['x'][2]
        tag, val = conv(case, views, a, u, op['v'])
        if tag == 'zerodiv':
            return None
        if tag in ERR_OF:
            want = 'EUnitConversion' if tag == 'noconv' else ERR_OF[tag]
            return None if res['k'] == 'err' else \
                f"{a} {u} / {op['v']}: no applicable converter ({tag}) but got {res}"
        if res['k'] != 'num' or F(res['v']) != val:
            return (f"{a} {u} / {op['v']}: expected the plain number {val} (the amount converted "
                    f"to {op['v']}), got {res}")
        return None
    if o in CMPS:
        x, y = r['ops']
        ax, ay = F(x['amt']), F(y['amt'])
        ux, uy = op['x'][2], op['y'][2]
        tag, val = conv(case, views, ay, uy, ux)    # right operand in the left's unit
        if tag == 'zerodiv':
            return None
        if tag == 'incompat':
            exp = {'eq': False, 'ne': True}.get(o, 'EIncompatibleUnits')
        elif tag == 'noconv':
            exp = {'eq': False, 'ne': True}.get(o, 'EUnitConversion')
        else:
            import operator
            f = {'lt': operator.lt, 'le': operator.le, 'gt': operator.gt,
                 'ge': operator.ge, 'eq': operator.eq, 'ne': operator.ne}[o]
            exp = f(ax, val)
            if pre and ux in TEMP and uy in TEMP and exp != f(_kelvin(ux, ax), _kelvin(uy, ay)):
                return "internal: reference table and kelvin values disagree"
        if isinstance(exp, str):
            if not Q.is_err(res, exp):
                return f"{ax} {ux} {o} {ay} {uy}: expected {exp}, got {res}"
        elif res != {'k': 'bool', 'v': exp}:
            return f"{ax} {ux} {o} {ay} {uy}: expected {exp} (right operand is {val} {ux}), got {res}"
        return None
    if o == 'sorted':
        if not case.get('total'):
            return None
        if res['k'] != 'list':
            return f"sorted() of mutually convertible quantities raised {res}"
        ref = op['xs'][0][2]

        def key(ob):
            return conv(case, views, F(ob['amt']), ob['sym'], ref)[1]
        vals = [key(ob) for ob in res['v']]
        if vals != sorted(vals):
            return f"sorted() result is not ordered by converted amounts: {res['v']}"
        ins = sorted([(key(ob), i) for i, ob in enumerate(r['ops'])])
        stable = [(r['ops'][i]['sym'], r['ops'][i]['amt']) for _, i in ins]
        if [(ob['sym'], ob['amt']) for ob in res['v']] != stable:
            return "sorted() lost, changed or reordered (unstably) an element"
        return None
    return None


def labels(case, r):
    op = case['op']
    res = r['res']
    out = ['op=' + op['o'],
           'world=' + ('temperature' if case['world'].get('predefined') else 'user'),
           'result=' + (res['e'] if res['k'] == 'err' else res['k'])]
    if case.get('mode'):
        out.append('tables=' + case['mode'])
        out.append('stack=%d' % len(case.get('tables', [])))
        for t in case.get('tables', []):
            out.append('form=' + t['form'])
            if _has_dup(t['rows']):
                out.append('row-overwritten')
    if op['o'] in ('convert', 'conveq', 'via') and r['ops'] and r['ops'][0]:
        views = W.Views(case['world'])
        tag, _ = conv(case, views, F(r['ops'][0]['amt']), op['x'][2],
                      op.get('w') if op['o'] == 'via' else op['v'])
        out.append('path=' + tag)
        out.append('amount-repr=' + r['ops'][0]['repr'])
    if op['o'] in CMPS and res['k'] == 'bool' and len(r['ops']) == 2:
        views = W.Views(case['world'])
        tag, val = conv(case, views, F(r['ops'][1]['amt']), op['y'][2], op['x'][2])
        out.append('path=' + tag)
        if val is not None and val == F(r['ops'][0]['amt']):
            out.append('tie')
    return out


def nontrivial_key(case, r):
    op = case['op']
    o = op['o']
    if o == 'sorted':
        return (o, str(op['xs']), str(case.get('tables')))
    if o in CMPS:
        if op['x'][2] == op['y'][2]:
            return None
        return (o, op['x'][2], op['y'][2], op['x'][1][1], op['y'][1][1], str(case.get('tables')))
    if op['x'][2] == op['v'] and o != 'via':
        return None
    return (o, op['x'][2], op.get('w'), op['v'], op['x'][1][1], str(case.get('tables')))
