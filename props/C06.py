"""C06 — allocation conserves the total and deviates by less than one quantum."""
from fractions import Fraction as F

from vlib import siref, world as W, qtyops as Q
from vlib.core import cq, cbool, clist
from vlib.pyround import to_quantum

PID = 'C06'
PROPERTY_FILE = 'Properties/C06.v'
# generated model parts (translate/) this property's model / proofs really depend on
GEN_DEPS = ['QuantityImpl', 'AllocImpl']
MODEL_TARGETS = ['Corr/AllocCorr.vo']
PROOF_TARGETS = ['Proofs/C06Proofs.vo']
COQ_HEADER = ("From QV Require Import Model.Num Model.Rounding Model.Quantity "
              "Model.Alloc Corr.Common Corr.Obs Corr.QtyCorr Corr.AllocCorr.")
COQ_CHECK = 'alloc_check'
ISOLATE = True
RULE = ("seeded generator. receiver: every predefined DataVolume unit (quantum 1 bit), "
        "user-declared types from vlib.world.random_world (quanta 1/8, 1/3, 1/20, 7, "
        "1/100, 5/2 or none), ISO currencies (EUR USD JPY BHD CLF ...), unquantized "
        "predefined types; amount = m * quantum with m swept so that the pre-dispersal "
        "remainder takes every value 0..n-1 quanta (FLOOR/CEILING sweeps, equal and "
        "unequal ratios), random on-grid and off-grid amounts, negative and zero "
        "amounts. ratios: lists of length 1..12 of ints, Fractions, Decimals, mixed "
        "numbers, or quantities of one type in mixed units (stored amounts are what "
        "the model receives). both values of disperse_rounding_error (positional, "
        "keyword, omitted), all 8 default rounding modes. malformed stream: empty "
        "list (TypeError), zero total (ZeroDivisionError), zero/negative ratios, "
        "number/quantity mixtures (TypeError), ratios of different types "
        "(IncompatibleUnitsError), temperature ratios in mixed units (affine "
        "converter: fractions do not add up to 1; known finding C06-affine-ratio-type, "
        "two seed-independent witnesses in corpus/C06, the oracle checks this family "
        "against shares computed with the independent temperature table and classify() "
        "maps only its share/remainder failures to the finding) - the model predicts the "
        "observed exception class or result for all of these. SKIPPED for the model (no Coq "
        "case, reason: Model/Alloc.v has exact rational ratios only; the signature "
        "says Collection[Union[Rational, Quantity]]): float, str and None ratios; "
        "they are run, labelled 'coq-skip', and only non-mutation is checked. "
        "non-trivial = quantized receiver with a non-zero pre-dispersal remainder; "
        "distinct by (n, k, mode, disperse).")
ASSUMPTIONS = [
    "unit views (scale, quantum) are computed independently of the library "
    "(vlib/siref.py, declaration script, independent ISO 4217 parse)",
    "decimalfp's Decimal(x, 0) under the default mode is modelled by rnd_ref "
    "(validated by this correspondence and by C13 on every run)",
    "Python's sorted() on (error, index) tuples is modelled by an insertion sort "
    "with the lexicographic tuple order; reverse=True by the strictly descending order",
    "non-mutation of the receiver is a harness observation (snapshot before/after), "
    "vacuous in the pure model",
]
EXHAUSTIVE = {}
EXHAUSTIVE_NOTE = ("pre-dispersal remainder sweep k = 0..n-1 (both signs) for every "
                   "n in 1..12: complete in both tiers")

HALF = ('MHDOWN', 'MHEVEN', 'MHUP')
CURRENCIES = ['EUR', 'USD', 'JPY', 'BHD', 'CLF', 'CHF', 'KWD', 'ISK']
RATIO_TYPES = ['Mass', 'Length', 'Duration', 'DataVolume', 'Energy']


def frs(f):
    f = F(f)
    return f"{f.numerator}/{f.denominator}"


def _spec(f, rng, kinds=('dec', 'frac', 'int')):
    f = F(f)
    ks = [k for k in kinds
          if (k != 'int' or f.denominator == 1) and (k != 'dec' or W.is_decimal(f))]
    if not ks:
        ks = ['frac']
    return [rng.choice(ks), frs(f)]


# ------------------------------------------------------------ generators

def _receiver_world(rng):
    """-> (world, receiver unit symbol, pool of ratio-unit symbols per class)"""
    r = rng.random()
    if r < 0.30:
        world = {'predefined': True}
        sym = rng.choice(siref.units_of('DataVolume'))
    elif r < 0.45:
        world = {'predefined': True, 'currencies': rng.sample(CURRENCIES, 3)}
        sym = rng.choice(world['currencies'])
    elif r < 0.60:
        world = {'predefined': True}
        sym = rng.choice(siref.units_of(rng.choice(['Mass', 'Length', 'Volume', 'Power'])))
    else:
        world = W.random_world(rng, n_classes=2, quantized_p=0.7)
        c = rng.choice(world['classes'])
        sym = rng.choice([c['ref']] + [u['sym'] for u in c['units']])
    return world, sym


def _ratio_pools(world, views):
    """class name -> unit symbols usable for quantity ratios (linear types)"""
    pools = {}
    for s, u in views.units.items():
        if u['has_ref'] and u['scale'] is not None:
            pools.setdefault(u['clsname'], []).append(s)
    if world.get('predefined'):
        pools = {c: v for c, v in pools.items()
                 if c in RATIO_TYPES or not c[0].isupper() or c.startswith('Ux')}
    return pools


def _number_ratios(rng, n, kind):
    out = []
    for _ in range(n):
        k = kind if kind != 'mixed' else rng.choice(['int', 'frac', 'dec'])
        if k == 'int':
            out.append(['n', ['int', frs(rng.choice([1, 1, 2, 3, 5, 7, 10, 33, rng.randint(1, 1000)]))]])
        elif k == 'frac':
            out.append(['n', ['frac', frs(F(rng.randint(1, 40), rng.choice([3, 7, 9, 11, 6])))]])
        else:
            out.append(['n', ['dec', frs(F(rng.randint(1, 9999), 10 ** rng.randint(0, 4)))]])
    return out


def _qty_ratios(rng, n, pools, views):
    cls = rng.choice(sorted(pools))
    syms = pools[cls]
    out = []
    for _ in range(n):
        s = rng.choice(syms)
        qu = views.units[s]['quantum']
        if qu is not None:
            a = rng.randint(1, 500) * qu
        else:
            a = rng.choice([F(1), F(2), F(5, 2), F(1, 3), F(7, 4), F(rng.randint(1, 999), 10)])
        out.append(['q', _spec(a, rng, ('dec', 'frac')), s])
    return out


def _ratios(rng, n, pools, views, equal_p=0.25):
    r = rng.random()
    if r < equal_p:
        return [['n', ['int', '1/1']] for _ in range(n)]
    if r < 0.8 or not pools:
        return _number_ratios(rng, n, rng.choice(['int', 'frac', 'dec', 'mixed']))
    return _qty_ratios(rng, n, pools, views)


def _flag(rng):
    return rng.choice([['pos', True], ['pos', False], ['kw', True], ['kw', False],
                       ['omit', True], ['pos', False]])


def _case(world, dm, amount_spec, sym, ratios, flag, stream):
    return {'world': world, 'dm': dm, 'recv': [amount_spec, sym], 'ratios': ratios,
            'flag': flag, 'stream': stream}


def gen_cases(rng, tier):
    thorough = tier == 'thorough'
    cases = []
    pre = {'predefined': True}
    pviews = W.Views(pre)
    # (1) complete sweep of the pre-dispersal remainder: n equal ratios, amount
    #     (n*b + j) quanta, FLOOR leaves j quanta, CEILING leaves j - n quanta
    dv = siref.units_of('DataVolume')
    for n in range(1, 13):
        for j in range(0, n):
            for dm in ('MFLOOR', 'MCEIL') + (tuple(W.MODES) if thorough else ()):
                for disp in (True, False):
                    sym = rng.choice(dv)
                    qu = pviews.units[sym]['quantum']
                    b = rng.randint(0, 50)
                    sign = rng.choice([1, 1, -1])
                    a = sign * (n * b + j) * qu
                    cases.append(_case(pre, dm, _spec(a, rng, ('dec', 'frac')), sym,
                                       [['n', ['int', '1/1']] for _ in range(n)],
                                       ['pos', disp], 'sweep'))
    # (2) seeded structured cases
    N = 4000 if thorough else 450
    for _ in range(N):
        world, sym = _receiver_world(rng)
        views = W.Views(world)
        pools = _ratio_pools(world, views)
        n = rng.randint(1, 12)
        ratios = _ratios(rng, n, pools, views)
        dm = rng.choice(W.MODES)
        qu = views.units[sym]['quantum']
        g = qu if qu is not None else F(1, rng.choice([1, 3, 10, 100]))
        r = rng.random()
        if r < 0.05:
            a = F(0)
        elif r < 0.6:
            a = rng.randint(-300, 3000) * g
        elif r < 0.8:
            a = F(rng.randint(-10 ** 6, 10 ** 6), rng.choice([1, 3, 7, 1000])) * g
        else:
            a = rng.choice([F(1), F(10), F(100), F(1, 3), F(-5, 2), F(10) ** 12,
                            F(1, 10 ** 9), F(2, 3)])
        cases.append(_case(world, dm, _spec(a, rng), sym, ratios, _flag(rng), 'valid'))
    # (3) malformed stream
    M = 600 if thorough else 120
    for _ in range(M):
        world, sym = _receiver_world(rng)
        if not world.get('predefined'):
            world = dict(world, predefined=True)
        views = W.Views(world)
        pools = _ratio_pools(world, views)
        dm = rng.choice(W.MODES)
        qu = views.units[sym]['quantum']
        a = rng.randint(-50, 500) * (qu if qu is not None else F(1, 4))
        n = rng.randint(1, 6)
        kind = rng.choice(['empty', 'zero-total', 'zero-ratio', 'negative', 'mixed-kind',
                           'other-types', 'temp-same', 'temp-mixed', 'float', 'junk',
                           'zero-qty'])
        if kind == 'empty':
            ratios = []
        elif kind == 'zero-total':
            ratios = rng.choice([[['n', ['int', '0/1']]],
                                 [['n', ['int', '1/1']], ['n', ['int', '-1/1']]],
                                 [['n', ['frac', '1/3']], ['n', ['dec', '1/2']], ['n', ['frac', '-5/6']]],
                                 [['n', ['int', '0/1']]] * 3])
        elif kind == 'zero-ratio':
            ratios = _number_ratios(rng, n, 'mixed') + [['n', ['int', '0/1']]]
            rng.shuffle(ratios)
        elif kind == 'negative':
            ratios = _number_ratios(rng, n + 1, 'mixed')
            i = rng.randrange(len(ratios))
            v = F(ratios[i][1][1])
            ratios[i] = ['n', [ratios[i][1][0], frs(-v / 7 if ratios[i][1][0] == 'frac' else -v)]]
            if sum(F(x[1][1]) for x in ratios) == 0:
                ratios.append(['n', ['int', '1/1']])
        elif kind == 'mixed-kind':
            ratios = _number_ratios(rng, n, 'mixed') + _qty_ratios(rng, rng.randint(1, 3), pools, views)
            rng.shuffle(ratios)
        elif kind == 'other-types':
            ratios = _qty_ratios(rng, n, pools, views)
            cls0 = views.units[ratios[0][2]]['clsname']
            other = [c for c in sorted(pools) if c != cls0]
            c2 = rng.choice(other)
            ratios.insert(rng.randint(0, len(ratios)),
                          ['q', ['dec', '1/1'], rng.choice(pools[c2])])
        elif kind == 'temp-same':
            t = rng.choice(siref.TEMPERATURE)
            ratios = [['q', _spec(F(rng.randint(1, 4000), 10), rng, ('dec',)), t] for _ in range(n)]
        elif kind == 'temp-mixed':
            ratios = [['q', _spec(F(rng.randint(1, 4000), 10), rng, ('dec',)),
                       rng.choice(siref.TEMPERATURE)] for _ in range(n + 1)]
        elif kind == 'float':
            ratios = [['n', ['float', rng.choice([0.1, 0.2, 0.3, 0.5, 0.25, 1.5, 3.0]).hex()]]
                      for _ in range(n)]
        elif kind == 'zero-qty':
            ratios = [['q', ['dec', '0/1'], s] for s in rng.sample(pools['Mass'], 2)][:rng.randint(1, 2)]
        else:
            ratios = _number_ratios(rng, n, 'int')
            ratios.insert(rng.randint(0, n), rng.choice([['junk', 'str'], ['junk', 'none']]))
        cases.append(_case(world, dm, _spec(a, rng), sym, ratios, _flag(rng), 'malformed:' + kind))
    return cases


# ------------------------------------------------------------ implementation

def impl_setup():
    """Runs once in every worker before the per-case children are forked: the
    predefined catalogue and the money module are imported here, so every
    child starts from the same registry state (catalogue declared, nothing
    else) without paying the import again."""
    import quantity.predefined      # noqa: F401
    import quantity.money           # noqa: F401


def _ratio_value(spec, units):
    if spec[0] == 'n':
        return W.number(tuple(spec[1]))
    if spec[0] == 'q':
        return W.number(tuple(spec[1])) * units[spec[2]]
    return 'abc' if spec[1] == 'str' else None


def impl_run(case):
    W.set_mode(case['dm'])
    units, _ = W.instantiate(case['world'])
    recv = W.number(tuple(case['recv'][0])) * units[case['recv'][1]]
    ratios = [_ratio_value(s, units) for s in case['ratios']]
    before = W.observe(recv)
    amt_obj, unit_obj = recv.amount, recv.unit
    rat_before = [W.observe(x) for x in ratios]
    how, val = case['flag']
    try:
        if how == 'pos':
            portions, rem = recv.allocate(ratios, val)
        elif how == 'kw':
            portions, rem = recv.allocate(ratios, disperse_rounding_error=val)
        else:
            portions, rem = recv.allocate(ratios)
        res = {'k': 'ok', 'portions': [W.observe(p) for p in portions],
               'rem': W.observe(rem), 'is_list': isinstance(portions, list),
               'aliases_receiver': any(p is recv for p in portions) or rem is recv}
    except BaseException as e:    # noqa: the exception class is the observation
        if isinstance(e, (KeyboardInterrupt, SystemExit, MemoryError)):
            raise
        res = {'k': 'err', 'e': W.err_name(e), 'py': type(e).__name__, 'msg': str(e)[:200]}
    after = W.observe(recv)
    return {'recv': before, 'recv_after': after,
            'recv_same_objects': recv.amount is amt_obj and recv.unit is unit_obj,
            'ratios': rat_before,
            'ratios_unchanged': rat_before == [W.observe(x) for x in ratios],
            'res': res}


# ------------------------------------------------------------ model side

def _modelable(case):
    return all(s[0] in ('n', 'q') and (s[0] == 'q' or s[1][0] != 'float')
               for s in case['ratios'])


def _disperse(case):
    return bool(case['flag'][1])


def coq_case(case, r):
    if not _modelable(case):
        return None
    views = W.Views(case['world'])
    rs = []
    for spec, ob in zip(case['ratios'], r['ratios']):
        if spec[0] == 'n':
            rs.append(f"(RNum {cq(F(ob['v']))})")
        else:
            rs.append(f"(RQty (mkQty {cq(F(ob['amt']))} {views.coq(spec[2])}))")
    res = r['res']
    if res['k'] == 'ok':
        exp = (f"(AOk {clist([W.coq_obs(p, views) for p in res['portions']])} "
               f"{W.coq_obs(res['rem'], views)})")
    else:
        exp = f"(AErr {res['e']})"
    return (f"(mkACase {case['dm']} {Q.coq_convs(case, views)} {cq(F(r['recv']['amt']))} "
            f"{views.coq(case['recv'][1])} {clist(rs)} {cbool(_disperse(case))} {exp})")


def coq_model_term(case, r):
    t = coq_case(case, r)
    return f"alloc_model {t}" if t else "tt"


# ------------------------------------------------------------ oracle

KNOWN_AFFINE = 'C06-affine-ratio-type'


def _affine_family(case, views):
    """Ratios are quantities of ONE type that has no linear scales and whose
    units are related by a table converter with a non-zero offset
    (temperature), given in MIXED units."""
    specs = case['ratios']
    if not specs or any(s[0] != 'q' for s in specs):
        return False
    us = [views.units[s[2]] for s in specs]
    if len({u['cls'] for u in us}) != 1 or any(u['scale'] is not None for u in us):
        return False
    syms = sorted({s[2] for s in specs})
    if len(syms) < 2:
        return False
    return all((a, b) in siref.TEMP_TABLE and siref.TEMP_TABLE[(a, b)][1] != 0
               for a in syms for b in syms if a != b)


def _shares(case, r, views):
    """Exact proportional fractions of an in-domain ratio list, else None:
    non-empty; all exact numbers > 0, or all quantities > 0 of one type.
    Values of quantities: amount * scale for linear units; the amount when all
    ratios carry the very same unit; for the affine family (temperature in
    mixed units) the amount converted into the FIRST ratio's unit with the
    independent reference table (the unit in which the total is formed)."""
    specs = case['ratios']
    if not specs or not _modelable(case):
        return None
    kinds = {s[0] for s in specs}
    if kinds == {'n'}:
        vals = [F(ob['v']) for ob in r['ratios']]
    elif kinds == {'q'}:
        us = [views.units[s[2]] for s in specs]
        if len({u['cls'] for u in us}) != 1:
            return None
        if all(u['has_ref'] and u['scale'] is not None for u in us):
            vals = [F(ob['amt']) * u['scale'] for ob, u in zip(r['ratios'], us)]
        elif len({s[2] for s in specs}) == 1:
            vals = [F(ob['amt']) for ob in r['ratios']]
        elif _affine_family(case, views):
            if any(F(ob['amt']) <= 0 for ob in r['ratios']):
                return None
            first = specs[0][2]
            vals = []
            for s, ob in zip(specs, r['ratios']):
                f, o = (F(1), F(0)) if s[2] == first else siref.TEMP_TABLE[(s[2], first)]
                vals.append(f * F(ob['amt']) + o)
            tot = sum(vals)
            return None if tot == 0 else [v / tot for v in vals]
        else:
            return None
    else:
        return None
    if any(v <= 0 for v in vals):
        return None
    tot = sum(vals)
    return [v / tot for v in vals]


def classify(case, res, msg):
    """Key of a known finding, else None.  C06-affine-ratio-type: for the
    affine family the code divides every ratio by the total converted into
    that ratio's own unit, so the fractions do not add up to 1: an unquantized
    receiver fails the code's assertion, a quantized one gets portions away
    from their shares and a remainder of many quanta.  Only these
    share/remainder failures are the known finding; a broken conservation,
    unit, grid or a mutated receiver in this family stays a VIOLATION."""
    if res is None or not isinstance(case, dict) or 'ratios' not in case:
        return None
    if not _affine_family(case, W.Views(case['world'])):
        return None
    out = res['res']
    if msg.startswith('valid ratios rejected'):
        return KNOWN_AFFINE if out['k'] == 'err' and out['e'] == 'EAssertion' else None
    if (msg.startswith('unquantized portion') or msg.startswith('unquantized remainder')
            or ' away from its share ' in msg
            or 'although the rounding error was dispersed' in msg
            or ' not smaller than ' in msg or ' half quanta under ' in msg):
        return KNOWN_AFFINE
    return None


def oracle(case, r):
    # the original is left unchanged (every stream)
    if r['recv'] != r['recv_after'] or not r['recv_same_objects']:
        return f"allocate changed its receiver: {r['recv']} -> {r['recv_after']}"
    if not r['ratios_unchanged']:
        return "allocate changed a ratio"
    res = r['res']
    if res['k'] == 'ok' and res['aliases_receiver']:
        return "a returned object is the receiver itself"
    views = W.Views(case['world'])
    u = views.units[case['recv'][1]]
    a = F(r['recv']['amt'])
    if res['k'] == 'ok':
        # conservation and type/unit whenever there is a result at all
        for ob in res['portions'] + [res['rem']]:
            if not Q.is_qty(ob, u['clsname'], case['recv'][1]):
                return f"result {ob} is not a {u['clsname']} in {case['recv'][1]}"
        tot = sum(F(p['amt']) for p in res['portions']) + F(res['rem']['amt'])
        if tot != a:
            return f"portions + remainder = {tot}, receiver = {a}"
    fs = _shares(case, r, views)
    if fs is None:
        return None
    if res['k'] != 'ok':
        return f"valid ratios rejected: {res}"
    n = len(fs)
    if len(res['portions']) != n:
        return f"{len(res['portions'])} portions for {n} ratios"
    ps = [F(p['amt']) for p in res['portions']]
    rem = F(res['rem']['amt'])
    qu = u['quantum']
    if qu is None:
        for p, f in zip(ps, fs):
            if p != a * f:
                return f"unquantized portion {p} != share {a * f}"
        if rem != 0:
            return f"unquantized remainder {rem} != 0"
        return None
    for p, f in zip(ps, fs):
        if (p / qu).denominator != 1:
            return f"portion {p} is not a multiple of the quantum {qu}"
        if not abs(p - a * f) < qu:
            return f"portion {p} is {abs(p - a * f)} away from its share {a * f} (quantum {qu})"
    if (rem / qu).denominator != 1:
        return f"remainder {rem} is not a multiple of the quantum {qu}"
    if _disperse(case):
        if rem != 0:
            return f"remainder {rem} != 0 although the rounding error was dispersed"
    else:
        if not abs(rem) < n * qu:
            return f"remainder {rem} not smaller than {n} quanta"
        if case['dm'] in HALF and not abs(rem) <= n * qu / 2:
            return f"remainder {rem} exceeds {n} half quanta under {case['dm']}"
    return None


def _k(case, r):
    """pre-dispersal remainder in quanta, recomputed independently"""
    views = W.Views(case['world'])
    u = views.units[case['recv'][1]]
    fs = _shares(case, r, views)
    if fs is None or u['quantum'] is None or r['res']['k'] != 'ok':
        return None
    a = F(r['recv']['amt'])
    rem = a - sum(to_quantum(case['dm'], a * f, u['quantum']) for f in fs)
    return rem / u['quantum']


def labels(case, r):
    res = r['res']
    views = W.Views(case['world'])
    u = views.units[case['recv'][1]]
    out = ['stream=' + case['stream'], 'n=%d' % len(case['ratios']),
           'dflt=' + case['dm'], 'flag=%s:%s' % tuple(case['flag']),
           'receiver=' + ('quantized' if u['quantum'] is not None else 'unquantized'),
           'receiver-type=' + (u['clsname'] if u['clsname'] in ('DataVolume', 'Money')
                               else ('user' if u['clsname'].startswith('Ux') else 'predefined')),
           'result=' + (res['e'] if res['k'] == 'err' else 'ok')]
    kinds = sorted({s[0] if s[0] != 'n' else s[1][0] for s in case['ratios']})
    out.append('ratio-kinds=' + '+'.join(kinds))
    if not _modelable(case):
        out.append('coq-skip')
    a = F(r['recv']['amt'])
    out.append('amount=' + ('zero' if a == 0 else 'negative' if a < 0 else 'positive'))
    k = _k(case, r)
    if k is not None:
        out.append('k=%s' % k)
    elif _shares(case, r, views) is None and case['stream'] == 'valid':
        out.append('oracle-domain=out')
    return out


def nontrivial_key(case, r):
    k = _k(case, r)
    if k is None or k == 0:
        return None
    return (len(case['ratios']), k, case['dm'], _disperse(case))
