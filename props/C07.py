"""C07 — Term: reduction, normal form, group operations, equality and hash of
terms over numbers, units and quantity classes (/repo/src/quantity/term.py)."""
import hashlib
import json
from fractions import Fraction as F

from vlib import siref, world as W
from vlib.core import cz, cq, cn, cbool, clist, copt, cstr

PID = 'C07'
PROPERTY_FILE = 'Properties/C07.v'
# generated model parts (translate/) this property's model / proofs really depend on
GEN_DEPS = ['TermOpsImpl']
MODEL_TARGETS = ['Corr/TermCorr.vo']
PROOF_TARGETS = ['Proofs/C07Proofs.vo']
COQ_HEADER = ("From QV Require Import Model.Num Model.Dim Model.Term Corr.Common "
              "Corr.TermCorr.")
COQ_CHECK = 'term_check'
ISOLATE = True
SHARD = 300
RULE = ("seeded generator: terms of length 0..8 (about 35% of length <= 2: the fast "
        "paths of _reduce_items; every kind combination of two-item terms: "
        "numeric+element, element+numeric, same element twice, convertible pair, "
        "non-convertible pair, two numerics incl. two numerics whose product is 1) "
        "over base / derived / mutually convertible units of the predefined "
        "catalogue, units of random user-declared types with reference unit, "
        "currencies and temperature units (types without reference unit, not "
        "convertible), or — mode 'classes' — over predefined base and derived "
        "quantity classes and user classes; numeric elements int / decimalfp.Decimal "
        "/ Fraction (never 0; incl. 1, negative values, ints with negative exponent), "
        "exponents -3..3 incl. 0, repeated elements, tuples vs generators, "
        "reduce_items=False.  Queries: items of a constructed term, of normalized(), "
        "of every operation (term*term, term*number and number*term, term/term, "
        "term/number, number/term, reciprocal, ** k with k in -3..3, split()[1]) "
        "nested up to two levels; == and hash equality of two independent terms, of a "
        "term and a value-preserving rearrangement of it (shuffled, a unit replaced "
        "by factor * another unit of its type or by its decomposition into base "
        "units, exponents split, x and 1/x inserted; about half of them perturbed "
        "afterwards so that they differ) and of a term and its normalized(); "
        "num_elem; split(dflt); is_normalized.  With every case the element table "
        "(sort key, base flag, str, normalized definition, type, scale) of all "
        "elements that occur and of the elements of their normalized definitions is "
        "given to the model; scales and normalized definitions are computed from "
        "vlib/siref.py / the declaration script, not taken from the library, and "
        "the hypotheses of the C07 theorems (table_ok) are evaluated on every "
        "table.  non-trivial = the observed items differ from the concatenated "
        "input items (something was reduced / reordered / expanded), distinct by "
        "(expression shape, elements, exponents); every == query, distinct by case.")
ASSUMPTIONS = [
    "numeric term elements are non-zero",
    "elements are units / quantity classes with norm_sort_key() > 0 (the class "
    "Quantity itself, key 0, is no element)",
    "all units of a type with reference unit have a scale (units declared without "
    "definition in such a type make _get_factor fail an assertion)",
    "no non-base unit has the same scale as a base unit of its type (Unit.__eq__ "
    "identifies them and normalized() may then return a term showing the "
    "non-base unit)",
    "Python tuple / sorted / groupby / str comparison / hash and Fraction / "
    "decimalfp arithmetic are modelled (exact rational arithmetic, stable sorts, "
    "code-point order), validated by the correspondence only",
    "hash: the model compares the hashed data (items of the normal form, numbers "
    "by value); observed hash equality of terms that denote different values "
    "(CPython: hash(-1) == hash(-2), so exponents -1 and -2 collide) is "
    "permitted by the property and is not compared with the model",
]
EXHAUSTIVE = {'quick': False, 'thorough': False}
EXHAUSTIVE_NOTE = ''

BASE_REF = {'Mass': 'kg', 'Length': 'm', 'Duration': 's', 'DataVolume': 'B'}
BAD_ID = 999999


def frs(f):
    f = F(f)
    return f"{f.numerator}/{f.denominator}"


def impl_setup():
    # children fork with the catalogue loaded (0.15 s per case otherwise)
    import quantity.predefined      # noqa: F401
    import quantity.money           # noqa: F401


# ===================================================================== worlds

_VIEWS = {}


def _views(world):
    k = json.dumps(world, sort_keys=True)
    v = _VIEWS.get(k)
    if v is None:
        if len(_VIEWS) > 4000:
            _VIEWS.clear()
        v = _VIEWS[k] = W.Views(world)
    return v


def _user_ref(world, clsname):
    for c in world.get('classes', []):
        if c['name'] == clsname:
            return c.get('ref')
    return None


# independent meaning of an element: (factor, {base symbol: exponent})
def _den_elem(kind, sym, case):
    if kind == 'c':
        if sym in siref.DIM:
            return F(1), {b: d for b, d in zip(siref.BASES, siref.DIM[sym]) if d}
        return F(1), {sym: 1}
    world = case['world']
    u = _views(world).units[sym]
    if not u['has_ref'] or u['scale'] is None:
        return F(1), {sym: 1}
    if world.get('predefined') and sym in siref.REF:
        cls, sc = siref.REF[sym]
        return sc, {BASE_REF[b]: d for b, d in zip(siref.BASES, siref.DIM[cls]) if d}
    return u['scale'], {_user_ref(world, u['clsname']): 1}


# ----------------------------------------------------------- denotations
# (factor or None = unknown, sorted tuple of (base symbol, exponent))

def _dn(f, dims):
    return (f, tuple(sorted((k, v) for k, v in dims.items() if v)))


D_ONE = (F(1), ())


def _dmul(a, b):
    d = dict(a[1])
    for k, v in b[1]:
        d[k] = d.get(k, 0) + v
    return _dn(None if a[0] is None or b[0] is None else a[0] * b[0], d)


def _dpow(a, k):
    return _dn(None if a[0] is None else a[0] ** k, {s: e * k for s, e in a[1]})


def _den_items(items, case):
    """items: [[elemspec, exp]]; elemspec ['n',kind,val] | ['n',val] | ['u',s] |
    ['c',s] | ['e',s] (observed)."""
    r = D_ONE
    for spec, e in items:
        if spec[0] == 'n':
            d = (F(spec[-1]), ())
        else:
            kind = spec[0]
            if kind == 'e':
                kind = 'c' if case['mode'] == 'classes' else 'u'
            f, dims = _den_elem(kind, spec[1], case)
            d = _dn(f, dims)
        r = _dmul(r, _dpow(d, e))
    return r


def _den_expr(x, case):
    k = x[0]
    if k == 'mk':
        return _den_items(x[3], case)
    if k == 'norm':
        return _den_expr(x[1], case)
    if k == 'mul':
        return _dmul(_den_expr(x[1], case), _den_expr(x[2], case))
    if k == 'mulnum':
        return _dmul(_den_expr(x[1], case), (F(x[2][1]), ()))
    if k == 'div':
        return _dmul(_den_expr(x[1], case), _dpow(_den_expr(x[2], case), -1))
    if k == 'divnum':
        return _dmul(_den_expr(x[1], case), (1 / F(x[2][1]), ()))
    if k == 'rdiv':
        return _dmul((F(x[1][1]), ()), _dpow(_den_expr(x[2], case), -1))
    if k == 'recip':
        return _dpow(_den_expr(x[1], case), -1)
    if k == 'pow':
        return _dpow(_den_expr(x[1], case), x[2])
    if k == 'splittail':
        return (None, _den_expr(x[1], case)[1])
    raise ValueError(k)


# ================================================================= generation

COMMON = {
    'Length': ['m', 'km', 'mi', 'cm', 'in'], 'Duration': ['s', 'h', 'min', 'ms'],
    'Mass': ['kg', 'g', 'lb', 't'], 'Area': ['m²', 'km²', 'ha'],
    'Volume': ['m³', 'l'], 'Velocity': ['m/s', 'km/h', 'mph'],
    'Acceleration': ['m/s²', 'mps²'], 'Force': ['N', 'J/m'],
    'Energy': ['J', 'Nm', 'Ws', 'kWh'], 'Power': ['W', 'kW', 'mW'],
    'Frequency': ['Hz', 'kHz'], 'DataVolume': ['B', 'b', 'kB', 'KiB'],
    'DataThroughput': ['B/s', 'kB/s', 'kb/s'],
}
CLS_WEIGHT = {'Length': 5, 'Duration': 5, 'Mass': 4, 'Velocity': 3, 'Force': 2,
              'Energy': 3, 'Area': 2, 'Power': 2, 'DataVolume': 2,
              'DataThroughput': 2}
CURRENCIES = ['EUR', 'USD', 'GBP', 'JPY', 'CHF', 'BHD']
INTS = [1, 2, 3, 5, 10, 12, 60, 1000, -1, -2, 7, 2, 3]
DECS = ['1/2', '1/4', '3/2', '2', '10', '1/1000', '1000', '127/50', '1', '-5/2',
        '1/8', '4', '1/10']
FRACS = ['1/3', '2/3', '1/2', '5/18', '7/3', '3', '1', '-1/3', '18/5', '2', '1/7']
EXPS = [-3, -2, -1, 0, 1, 2, 3]
EXPW = [4, 9, 20, 6, 30, 10, 4]
OPS = ['norm', 'mul', 'mulnum', 'div', 'divnum', 'rdiv', 'recip', 'pow', 'splittail']


def _numspec(rng, val=None):
    """[kind, 'n/d'] of a non-zero number."""
    if val is None:
        r = rng.random()
        if r < 0.4:
            return ['int', frs(rng.choice(INTS))]
        if r < 0.7:
            return ['dec', rng.choice(DECS)]
        return ['frac', rng.choice(FRACS)]
    val = F(val)
    assert val != 0
    if val.denominator == 1 and rng.random() < 0.4:
        return ['int', frs(val)]
    if W.is_decimal(val) and rng.random() < 0.6:
        return ['dec', frs(val)]
    return ['frac', frs(val)]


def _nelem(rng, val=None):
    k, v = _numspec(rng, val)
    return ['n', k, v]


def _ok_user_world(world):
    v = W.Views(world)
    for c in world['classes']:
        for u in c['units']:
            if v.units[u['sym']]['scale'] == 1:
                return False
    return True


def _user_world(rng):
    while True:
        w = W.random_world(rng, n_classes=2)
        if _ok_user_world(w):
            return w


class _Ctx:
    """World, mode and the palette of elements of one case."""

    def __init__(self, rng, mode=None):
        self.rng = rng
        self.mode = mode or ('classes' if rng.random() < 0.2 else 'units')
        r = rng.random()
        if self.mode == 'classes':
            if r < 0.6:
                self.world, self.wkind = {'predefined': True}, 'predefined'
            elif r < 0.75:
                self.world = {'predefined': True,
                              'currencies': rng.sample(CURRENCIES, 2)}
                self.wkind = 'predefined+currencies'
            else:
                self.world = _user_world(rng)
                self.world['predefined'] = True
                self.wkind = 'predefined+user'
            pool = list(siref.DIM)
            if self.world.get('currencies'):
                pool.append('Money')
            user = [c['name'] for c in self.world.get('classes', [])]
            n = rng.choice([1, 2, 2, 3, 3, 4, 5])
            self.palette = [rng.choice(user) if user and rng.random() < 0.3
                            else rng.choice(pool) for _ in range(n)]
            self.groups = {}
            return
        if r < 0.5:
            self.world, self.wkind = {'predefined': True}, 'predefined'
        elif r < 0.65:
            self.world = {'predefined': True,
                          'currencies': rng.sample(CURRENCIES, rng.randint(2, 4))}
            self.wkind = 'predefined+currencies'
        elif r < 0.85:
            self.world = _user_world(rng)
            self.world['predefined'] = True
            self.wkind = 'predefined+user'
        else:
            self.world, self.wkind = _user_world(rng), 'user'
        self.views = W.Views(self.world)
        groups = []        # (name, symbols, convertible, weight)
        if self.world.get('predefined'):
            for cls in siref.LINEAR_TYPES:
                groups.append((cls, siref.units_of(cls), True, CLS_WEIGHT.get(cls, 1)))
            groups.append(('Temperature', list(siref.TEMPERATURE), False, 2))
        if self.world.get('currencies'):
            groups.append(('Money', list(self.world['currencies']), False, 12))
        for c in self.world.get('classes', []):
            groups.append((c['name'], [c['ref']] + [u['sym'] for u in c['units']], True,
                           10 if self.world.get('predefined') else 1))
        self.groups = {g[0]: g for g in groups}
        self.group_of = {s: g[0] for g in groups for s in g[1]}
        k = rng.choice([1, 1, 1, 2, 2, 2, 3, 3, 4]) if rng.random() < 0.94 else 0
        self.palette = []
        for g in rng.choices(groups, [g[3] for g in groups], k=k):
            for _ in range(rng.choice([1, 1, 2, 2, 3])):
                self.palette.append(self._unit_of(g))

    def _unit_of(self, g):
        rng = self.rng
        if g[0] in COMMON and rng.random() < 0.7:
            return rng.choice(COMMON[g[0]])
        return rng.choice(g[1])

    # ---- elements
    def elem(self):
        if not self.palette or self.rng.random() < 0.22:
            return _nelem(self.rng)
        return ['c' if self.mode == 'classes' else 'u', self.rng.choice(self.palette)]

    def nonnum(self):
        if not self.palette:
            return None
        return ['c' if self.mode == 'classes' else 'u', self.rng.choice(self.palette)]

    def exp(self):
        return self.rng.choices(EXPS, EXPW)[0]

    def other_in_group(self, sym):
        """another unit of the type of sym, if the type has a reference unit"""
        if self.mode != 'units':
            return None
        g = self.groups[self.group_of[sym]]
        if not g[2] or len(g[1]) < 2:
            return None
        cand = [s for s in g[1] if s != sym]
        pref = [s for s in cand if s in COMMON.get(g[0], ())]
        return self.rng.choice(pref if pref and self.rng.random() < 0.6 else cand)

    # ---- item lists
    def two_items(self):
        rng = self.rng
        a, b = self.nonnum(), self.nonnum()
        kinds = ['nn', 'nn1']
        if a:
            kinds += ['nu', 'un', 'uu', 'conv', 'nonconv', 'nu', 'un', 'conv']
        k = rng.choice(kinds)
        e1, e2 = self.exp(), self.exp()
        if k == 'nu':
            return [[_nelem(rng), e1], [a, e2]]
        if k == 'un':
            return [[a, e1], [_nelem(rng), e2]]
        if k == 'uu':
            return [[a, e1], [a, rng.choice([e2, -e1])]]
        if k == 'conv':
            o = self.other_in_group(a[1])
            return [[a, e1], [['u', o] if o else b, rng.choice([e2, -e1, e2])]]
        if k == 'nonconv':
            return [[a, e1], [b, e2]]
        if k == 'nn':
            return [[_nelem(rng), e1], [_nelem(rng), e2]]
        # two numerics whose product is 1
        v = F(rng.choice(['2', '3', '1/2', '5/18', '10', '-2', '1/4', '1']))
        e = rng.choice([1, 1, 2, -1, 3])
        if rng.random() < 0.5:
            return [[_nelem(rng, v), e], [_nelem(rng, 1 / v), e]]
        return [[_nelem(rng, v), e], [_nelem(rng, v), -e]]

    def items(self, n=None):
        rng = self.rng
        if n is None:
            n = rng.choice([0, 1, 1, 2, 2, 2, 2]) if rng.random() < 0.4 \
                else rng.randint(3, 8)
        if n == 2 and rng.random() < 0.7:
            return self.two_items()
        return [[self.elem(), self.exp()] for _ in range(n)]

    def mk(self, items=None, n=None):
        rng = self.rng
        if items is None:
            items = self.items(n)
        return ['mk', rng.random() < 0.7, rng.random() < 0.82, items]

    def expr(self, depth):
        rng = self.rng
        if depth <= 0:
            return self.mk()
        op = rng.choice(OPS)
        sub = self.expr(depth - 1)
        if op in ('mul', 'div'):
            other = self.expr(depth - 1 if rng.random() < 0.3 else 0)
            return [op, sub, other] if rng.random() < 0.5 else [op, other, sub]
        if op == 'mulnum':
            return [op, sub, _numspec(rng), rng.choice('lr')]
        if op == 'divnum':
            return [op, sub, _numspec(rng)]
        if op == 'rdiv':
            return [op, _numspec(rng), sub]
        if op == 'pow':
            return [op, sub, rng.randint(-3, 3)]
        return [op, sub]

    # ---- value-preserving rearrangements
    def decompose(self, spec):
        """items denoting the same value as (spec, 1) over base elements, or None"""
        if spec[0] == 'c':
            if spec[1] not in siref.DIM or sum(map(abs, siref.DIM[spec[1]])) == 1:
                return None
            return [[['c', b], d] for b, d in zip(siref.BASES, siref.DIM[spec[1]]) if d]
        if spec[0] != 'u' or not self.world.get('predefined') or spec[1] not in siref.REF:
            return None
        cls, sc = siref.REF[spec[1]]
        if spec[1] in BASE_REF.values():
            return None
        out = [[_nelem(self.rng, sc), 1]] if sc != 1 else []
        return out + [[['u', BASE_REF[b]], d]
                      for b, d in zip(siref.BASES, siref.DIM[cls]) if d]

    def rearrange(self, items):
        rng = self.rng
        items = [[list(s), e] for s, e in items]
        for _ in range(rng.choice([1, 1, 2, 2, 3, 4])):
            t = rng.choice(['shuffle', 'replace', 'replace', 'decomp', 'splitexp',
                            'insert', 'insert'])
            idx = [i for i, it in enumerate(items) if it[0][0] != 'n']
            if t == 'shuffle':
                rng.shuffle(items)
            elif t == 'replace' and idx and self.mode == 'units':
                i = rng.choice(idx)
                (_, sym), e = items[i]
                o = self.other_in_group(sym)
                if o is None:
                    continue
                ratio = self.views.units[sym]['scale'] / self.views.units[o]['scale']
                new = [[['u', o], e]]
                if ratio != 1 or rng.random() < 0.3:
                    new.insert(rng.randint(0, 1), [_nelem(rng, ratio), e])
                items[i:i + 1] = new
            elif t == 'decomp' and idx:
                i = rng.choice(idx)
                spec, e = items[i]
                d = self.decompose(spec)
                if d is None or abs(e) > 2:
                    continue
                items[i:i + 1] = [[s, x * e] for s, x in d]
            elif t == 'splitexp' and items:
                i = rng.randrange(len(items))
                spec, e = items[i]
                a = rng.choice([1, -1, 2, e])
                items[i:i + 1] = [[spec, a], [list(spec), e - a]]
            elif t == 'insert':
                x = self.elem()
                if x[0] == 'n' and rng.random() < 0.5:
                    pair = [[x, 1], [_nelem(rng, 1 / F(x[2])), 1]]
                else:
                    k = rng.choice([1, 1, 2, 3])
                    pair = [[x, k], [list(x), -k]]
                for it in pair:
                    items.insert(rng.randint(0, len(items)), it)
        return items

    def perturb(self, items):
        rng = self.rng
        items = [[list(s), e] for s, e in items]
        t = rng.choice(['num', 'exp', 'swap', 'drop', 'add'])
        idx = [i for i, it in enumerate(items) if it[0][0] != 'n']
        if t == 'exp' and items:
            i = rng.randrange(len(items))
            items[i][1] += rng.choice([1, -1])
        elif t == 'swap' and idx and self.mode == 'units':
            i = rng.choice(idx)
            o = self.other_in_group(items[i][0][1])
            if o:
                items[i][0] = ['u', o]
            else:
                items.append([_nelem(rng, 3), 1])
        elif t == 'drop' and items:
            del items[rng.randrange(len(items))]
        elif t == 'add' and self.palette:
            items.insert(rng.randint(0, len(items)), [self.nonnum(), rng.choice([1, -1, 2])])
        else:
            items.insert(rng.randint(0, len(items)),
                         [_nelem(rng, rng.choice([2, F(1, 2), 10, -1, F(5, 18)])), 1])
        return items

    def pair(self):
        """two term expressions for == / hash queries"""
        rng = self.rng
        r = rng.random()
        if r < 0.22:
            return self.expr(rng.choice([0, 0, 1])), self.expr(rng.choice([0, 0, 1]))
        if r < 0.40:
            x = self.expr(rng.choice([0, 0, 1]))
            return (x, ['norm', x]) if rng.random() < 0.5 else (['norm', x], x)
        items = self.items()
        other = self.rearrange(items)
        if rng.random() < 0.42:
            other = self.perturb(other)
        x = self.mk(items)
        if rng.random() < 0.25 and len(other) >= 2:
            k = rng.randint(1, len(other) - 1)
            y = ['mul', self.mk(other[:k]), self.mk(other[k:])]
        elif rng.random() < 0.1:
            y = ['div', self.mk([]), self.mk([[s, -e] for s, e in other])]
        else:
            y = self.mk(other)
        if rng.random() < 0.15:
            x = ['norm', x]
        if rng.random() < 0.1:
            y = ['norm', y]
        return (x, y) if rng.random() < 0.5 else (y, x)

    def case(self, query):
        return {'world': self.world, 'mode': self.mode, 'query': query,
                'wkind': self.wkind}


def _one_case(rng):
    c = _Ctx(rng)
    r = rng.random()
    if r < 0.13:
        q = ['items', c.mk()]
    elif r < 0.28:
        q = ['items', ['norm', c.mk()]]
    elif r < 0.55:
        q = ['items', c.expr(1 if rng.random() < 0.6 else 2)]
    elif r < 0.80:
        q = ['eq', *c.pair()]
    elif r < 0.88:
        q = ['hasheq', *c.pair()]
    elif r < 0.92:
        q = ['num_elem', c.expr(rng.choice([0, 0, 1]))]
    elif r < 0.96:
        q = ['split', _numspec(rng), c.expr(rng.choice([0, 0, 1]))]
    else:
        q = ['isnorm', c.expr(rng.choice([0, 0, 0, 1]))]
    return c.case(q)


def _directed(rng):
    """every two-item kind combination x flags, a few times"""
    out = []
    for mode in ('units', 'classes'):
        for sized in (True, False):
            for reduce in (True, False):
                for _ in range(4):
                    c = _Ctx(rng, mode)
                    if not c.palette:
                        continue
                    t = ['mk', sized, reduce, c.two_items()]
                    out.append(c.case(['items', t]))
                    out.append(c.case(['items', ['norm', t]]))
    # the two-item fast paths reached through the operators: there the input
    # is an iterator (chain), e.g. two numerics whose product is 1
    for _ in range(3):
        c = _Ctx(rng, 'units')
        v = F(rng.choice(['2', '1/2', '5/18', '10', '-2', '3']))
        one = lambda x, e=1: c.mk([[_nelem(rng, x), e]])       # noqa: E731
        u = c.nonnum()
        out += [c.case(['items', x]) for x in (
            ['mul', one(v), one(1 / v)], ['mul', one(v), one(v, -1)],
            ['div', one(v), one(v)], ['div', one(v, 2), one(v * v)],
            ['mulnum', one(v), _numspec(rng, 1 / v), 'l'],
            ['mulnum', one(v), _numspec(rng, 1 / v), 'r'],
            ['divnum', one(v), _numspec(rng, v)], ['rdiv', _numspec(rng, v), one(v)],
            ['mul', one(v), one(3)], ['mulnum', one(v, -1), _numspec(rng, 7), 'l'],
            ['pow', one(v), 0], ['pow', one(v, 2), -1], ['recip', one(v, 0)],
            ['splittail', one(v)], ['norm', ['mul', one(v), one(1 / v)]])]
        if u:
            ut = lambda e: c.mk([[u, e]])                      # noqa: E731
            o = c.other_in_group(u[1])
            out += [c.case(['items', x]) for x in (
                ['mul', ut(1), ut(-1)], ['mul', ut(2), ut(1)], ['div', ut(1), ut(1)],
                ['mul', ut(1), one(v)], ['mul', one(v), ut(1)], ['mulnum', ut(1), ['int', '1/1'], 'l'],
                ['divnum', ut(2), _numspec(rng, v)], ['rdiv', _numspec(rng, v), ut(1)],
                ['rdiv', ['dec', '1/1'], ut(-1)], ['pow', ut(1), 0], ['pow', ut(0), 2])]
            # operators applied to a NORMAL FORM that carries a numeric factor (its cached
            # "already normalized" state must not leak into the result: seeded C07-d)
            for v2 in (v, F(5), F(10), F(1, 3)):
                t = c.mk([[_nelem(rng, v2), 1], [u, 1]])
                nt = ['norm', t]
                for op in (lambda x: ['recip', x], lambda x: ['pow', x, -1],
                           lambda x: ['pow', x, 2], lambda x: ['rdiv', ['int', '1/1'], x],
                           lambda x: ['divnum', x, _numspec(rng, v2)],
                           lambda x: ['mul', x, x], lambda x: ['div', ut(1), x]):
                    out.append(c.case(['eq', op(nt), op(t)]))
                    out.append(c.case(['hasheq', op(nt), op(t)]))
                    out.append(c.case(['items', ['norm', op(nt)]]))
            # a number that exactly CANCELS the scale of a derived unit: the normal form has no
            # numeric item (0.001 km is m; seeded C07-h)
            sc = c.views.units[u[1]]['scale'] if u[0] == 'u' else None
            if sc not in (None, 0, 1):
                t = c.mk([[_nelem(rng, 1 / F(sc)), 1], [u, 1]])
                out.append(c.case(['items', ['norm', t]]))
                out.append(c.case(['isnorm', ['norm', t]]))
                for g in c.groups.values():
                    if u[1] in g[1] and g[2]:
                        refs = [s2 for s2 in g[1] if c.views.units[s2]['scale'] == 1]
                        if refs:
                            rt = c.mk([[['u', refs[0]], 1]])
                            out.append(c.case(['eq', t, rt]))
                            out.append(c.case(['hasheq', ['norm', t], rt]))
            if o:
                ot = lambda e: c.mk([[['u', o], e]])           # noqa: E731
                out += [c.case(['items', x]) for x in (
                    ['mul', ut(1), ot(1)], ['mul', ot(1), ut(-1)], ['div', ut(1), ot(1)],
                    ['div', ot(2), ut(-1)], ['norm', ['div', ut(1), ot(1)]])]
                out += [c.case(['eq', ['div', ut(1), ot(1)],
                                c.mk([[_nelem(rng, c.views.units[u[1]]['scale']
                                               / c.views.units[o]['scale']), 1]])])]
    # products of two NORMAL FORMS whose units belong to one type without conversion
    # (K and degC, EUR and USD): the result does not depend on the order of the factors
    # (seeded C07-i: product of normal forms flagged as normal)
    for _ in range(6):
        c = _Ctx(rng, 'units')
        c.world = {'predefined': True, 'currencies': ['EUR', 'USD']}
        c.views = W.Views(c.world)
        for a, b in (('K', '°C'), ('EUR', 'USD'), ('°F', 'K')):
            ta, tb = c.mk([[['u', a], 1]]), c.mk([[['u', b], rng.choice([1, 1, -1])]])
            ex = rng.choice([None, 'm', 's'])
            if ex:
                ta = c.mk([[['u', a], 1], [['u', ex], -1]])
            na, nb = ['norm', ta], ['norm', tb]
            out.append(c.case(['eq', ['mul', na, nb], ['mul', nb, na]]))
            out.append(c.case(['hasheq', ['mul', na, nb], ['mul', nb, na]]))
            out.append(c.case(['items', ['norm', ['mul', na, nb]]]))
            out.append(c.case(['items', ['norm', ['mul', nb, na]]]))
            out.append(c.case(['eq', ['mul', na, nb], ['mul', ta, tb]]))
    return out


def gen_cases(rng, tier):
    n = {'quick': 1000, 'thorough': 12000}.get(tier, 1000)
    cases = _directed(rng)
    while len(cases) < n:
        cases.append(_one_case(rng))
    return cases


# ============================================================ implementation

def _walk_items(q):
    """all item lists of 'mk' leaves of a query / expression tree"""
    if isinstance(q, list):
        if q and q[0] == 'mk':
            yield q[3]
            return
        for x in q[1:]:
            if isinstance(x, list):
                yield from _walk_items(x)


def impl_run(case):
    from numbers import Rational
    from quantity.term import Term
    units, classes = W.instantiate(case['world'])
    env = classes if case['mode'] == 'classes' else units
    used = {}

    def elem(spec):
        if spec[0] == 'n':
            return W.number((spec[1], spec[2]))
        e = env[spec[1]]
        used[str(e)] = e
        return e

    # resolve every element first: an unknown symbol is a harness error
    for items in _walk_items(case['query']):
        for spec, _ in items:
            elem(spec)

    class Float(Exception):
        pass

    def num(x):
        if isinstance(x, float) or not isinstance(x, Rational):
            raise Float()
        return frs(F(x))

    def obs_items(items):
        out = []
        for el, exp in items:
            if isinstance(exp, float):
                raise Float()
            if isinstance(el, float):
                raise Float()
            if isinstance(el, Rational):
                out.append([['n', num(el)], int(exp)])
            else:
                out.append([['e', str(el)], int(exp)])
        return out

    def ev(x):
        k = x[0]
        if k == 'mk':
            items = tuple((elem(s), e) for s, e in x[3])
            if x[1]:
                return Term(items, reduce_items=x[2])
            return Term((it for it in items), reduce_items=x[2])
        if k == 'norm':
            return ev(x[1]).normalized()
        if k == 'mul':
            return ev(x[1]) * ev(x[2])
        if k == 'mulnum':
            t, q = ev(x[1]), W.number(tuple(x[2]))
            return q * t if x[3] == 'l' else t * q
        if k == 'div':
            return ev(x[1]) / ev(x[2])
        if k == 'divnum':
            return ev(x[1]) / W.number(tuple(x[2]))
        if k == 'rdiv':
            return W.number(tuple(x[1])) / ev(x[2])
        if k == 'recip':
            return ev(x[1]).reciprocal()
        if k == 'pow':
            return ev(x[1]) ** x[2]
        if k == 'splittail':
            return ev(x[1]).split()[1]
        raise ValueError(k)

    def run(q):
        k = q[0]
        if k == 'items':
            return {'k': 'items', 'v': obs_items(ev(q[1]).items)}
        if k == 'eq':
            r = ev(q[1]) == ev(q[2])
            return {'k': 'bool', 'v': r} if isinstance(r, bool) \
                else {'k': 'err', 'py': 'NotBool', 'msg': repr(r)}
        if k == 'hasheq':
            return {'k': 'bool', 'v': hash(ev(q[1])) == hash(ev(q[2]))}
        if k == 'num_elem':
            n = ev(q[1]).num_elem
            return {'k': 'numopt', 'v': None if n is None else num(n)}
        if k == 'split':
            n, t = ev(q[2]).split(W.number(tuple(q[1])))
            return {'k': 'split', 'num': num(n), 'v': obs_items(t.items)}
        if k == 'isnorm':
            r = ev(q[1]).is_normalized
            return {'k': 'bool', 'v': bool(r)}
        raise ValueError(k)

    if case['query'][0] not in ('items', 'eq', 'hasheq', 'num_elem', 'split', 'isnorm'):
        raise ValueError(case['query'][0])
    try:
        res = run(case['query'])
    except Float:
        res = {'k': 'float'}
    except BaseException as e:      # noqa: the exception is the observation
        if isinstance(e, (KeyboardInterrupt, SystemExit, MemoryError)):
            raise
        res = {'k': 'err', 'py': type(e).__name__, 'msg': str(e)[:200]}

    # element table: everything that occurs + closure under normalized definitions
    table = {}
    todo = list(used.values())
    while todo:
        e = todo.pop()
        sym = str(e)
        if sym in table:
            continue
        is_unit = case['mode'] != 'classes'
        row = {'sym': sym, 'cls': e.qty_cls.__name__ if is_unit else e.__name__,
               'has_ref': bool(is_unit and e.qty_cls.ref_unit is not None)}
        try:
            row['key'] = int(e.norm_sort_key())
            row['base'] = bool(e.is_base_elem())
            nf = e.normalized_definition
            try:
                row['nf_obs'] = obs_items(nf.items)
            except Float:
                row['nf_obs'] = 'float'
            for b, _ in nf.items:
                if not isinstance(b, (Rational, float)):
                    todo.append(b)
        except Exception as ex:     # noqa
            row['error'] = f"{type(ex).__name__}: {ex}"[:200]
        table[sym] = row
    return {'res': res, 'table': sorted(table.values(), key=lambda r: r['sym'])}


# ================================================================ model side

def _indep_nf(case, row, rows):
    """normalized definition of the element of `row`, computed from siref / the
    declaration script (only the `base` flags and sort keys are observed):
    observation format, or None when there is no independent source."""
    sym = row['sym']
    if row.get('base'):
        return [[['e', sym], 1]]
    world = case['world']

    def order(s):
        r = rows.get(s)
        return (r.get('key', 0) if r else 0, s)

    if case['mode'] == 'classes':
        if sym not in siref.DIM:
            return None
        its = [[['e', b], d] for b, d in zip(siref.BASES, siref.DIM[sym]) if d]
        its.sort(key=lambda it: order(it[0][1]))
        return its
    if world.get('predefined') and sym in siref.REF:
        cls, sc = siref.REF[sym]
        its = [[['e', BASE_REF[b]], d] for b, d in zip(siref.BASES, siref.DIM[cls]) if d]
        its.sort(key=lambda it: order(it[0][1]))
    else:
        u = _views(world).units.get(sym)
        if u is None or not u['has_ref'] or u['scale'] is None:
            return None
        ref = _user_ref(world, u['clsname'])
        if ref is None:
            return None
        sc = u['scale']
        its = [[['e', ref], 1]]
    if sc != 1:
        its.insert(0, [['n', frs(sc)], 1])
    return its


def _scale(case, row):
    if case['mode'] == 'classes':
        return None
    u = _views(case['world']).units.get(row['sym'])
    if u is None or not u['has_ref']:
        return None
    return u['scale']


class _Enc:
    def __init__(self, case, res):
        self.case = case
        self.rows = sorted(res['table'], key=lambda r: r['sym'])
        self.by_sym = {r['sym']: r for r in self.rows}
        self.ids = {r['sym']: i for i, r in enumerate(self.rows)}
        self.cls_ids = {c: i for i, c in enumerate(sorted({r['cls'] for r in self.rows}))}
        self.unknown = False

    def el(self, sym):
        i = self.ids.get(sym)
        if i is None:
            self.unknown = True
            i = BAD_ID
        return f"El {cn(i)}"

    def item(self, spec, e):
        if spec[0] == 'n':
            return f"(Num {cq(F(spec[-1]))}, {cz(e)})"
        return f"({self.el(spec[1])}, {cz(e)})"

    def items(self, its):
        return clist([self.item(s, e) for s, e in its])

    def row(self, r):
        i = self.ids[r['sym']]
        nf = _indep_nf(self.case, r, self.by_sym)
        if nf is None:
            nf = [[['e', '\0no independent definition'], 1]]     # fails closed
        key = r.get('key', 0)
        keytxt = f"{key}%positive" if key > 0 else "1%positive"
        if key <= 0:
            nf = [[['e', '\0bad key'], 1]]
        cid = i if self.case['mode'] == 'classes' else self.cls_ids[r['cls']]
        nftxt = self.items(nf)
        return (f"({cn(i)}, mkInfo {keytxt} {cbool(r.get('base', False))} "
                f"{cstr(r['sym'])} {nftxt} {cn(cid)} {copt(_scale(self.case, r), cq)})")

    def table(self):
        unknown = self.unknown
        t = clist([self.row(r) for r in self.rows])
        self.unknown = unknown      # a bad row makes table_ok false by itself
        return t

    def expr(self, x):
        k = x[0]
        if k == 'mk':
            return f"(XMk {cbool(x[1])} {cbool(x[2])} {self.items(x[3])})"
        if k == 'norm':
            return f"(XNorm {self.expr(x[1])})"
        if k == 'mul':
            return f"(XMul {self.expr(x[1])} {self.expr(x[2])})"
        if k == 'mulnum':
            return f"(XMulNum {self.expr(x[1])} {cq(F(x[2][1]))})"
        if k == 'div':
            return f"(XDiv {self.expr(x[1])} {self.expr(x[2])})"
        if k == 'divnum':
            return f"(XDivNum {self.expr(x[1])} {cq(F(x[2][1]))})"
        if k == 'rdiv':
            return f"(XRDiv {cq(F(x[1][1]))} {self.expr(x[2])})"
        if k == 'recip':
            return f"(XRecip {self.expr(x[1])})"
        if k == 'pow':
            return f"(XPow {self.expr(x[1])} {cz(x[2])})"
        if k == 'splittail':
            return f"(XSplitTail {self.expr(x[1])})"
        raise ValueError(k)

    def query(self, q):
        k = q[0]
        if k == 'items':
            return f"(QItems {self.expr(q[1])})"
        if k == 'eq':
            return f"(QEq {self.expr(q[1])} {self.expr(q[2])})"
        if k == 'hasheq':
            return f"(QHashEq {self.expr(q[1])} {self.expr(q[2])})"
        if k == 'num_elem':
            return f"(QNumElem {self.expr(q[1])})"
        if k == 'split':
            return f"(QSplit {cq(F(q[1][1]))} {self.expr(q[2])})"
        if k == 'isnorm':
            return f"(QIsNorm {self.expr(q[1])})"
        raise ValueError(k)

    def obs(self, r):
        k = r['k']
        self.unknown = False
        if k == 'items':
            t = f"(TItems {self.items(r['v'])})"
        elif k == 'bool':
            t = f"(TBool {cbool(r['v'])})"
        elif k == 'numopt':
            t = f"(TNumOpt {copt(r['v'], lambda v: cq(F(v)))})"
        elif k == 'split':
            t = f"(TSplit {cq(F(r['num']))} {self.items(r['v'])})"
        elif k == 'float':
            t = "TFloat"
        else:
            t = "TErr"
        return "TErr" if self.unknown else t


def _hash_collision(case, res):
    """hash(x) == hash(y) observed for terms that denote different values
    (independent denotation).  Permitted by the property; the model's hash key
    is an injective abstraction and cannot predict collisions of CPython's hash
    (hash(-1) == hash(-2), hence hash((s, -1)) == hash((s, -2)))."""
    q, r = case['query'], res['res']
    if q[0] != 'hasheq' or r.get('k') != 'bool' or not r['v']:
        return False
    a, b = _den_expr(q[1], case), _den_expr(q[2], case)
    return a[0] is not None and b[0] is not None and a != b


def coq_case(case, res):
    if not isinstance(res, dict) or 'table' not in res or 'res' not in res:
        return None
    if _hash_collision(case, res):
        return None         # counted in labels as 'hash-collision-of-unequal-terms'
    enc = _Enc(case, res)
    return f"(mkTCase {enc.table()} {enc.query(case['query'])} {enc.obs(res['res'])})"


def coq_model_term(case, res):
    t = coq_case(case, res)
    return f"term_diag {t}" if t else "tt"


# ==================================================================== oracle

def _outer(q):
    return q[2] if q[0] == 'split' else q[1]


def _norm_shape(items, rows):
    """message when `items` (observed) is not in normal form"""
    rest = items
    if items and items[0][0][0] == 'n':
        (_, v), e = items[0]
        if e != 1:
            return f"numeric item with exponent {e}"
        if F(v) == 1:
            return "numeric item equal to 1"
        rest = items[1:]
    prev = None
    for (kind, s), e in rest:
        if kind == 'n':
            return "numeric item not in first position / more than one numeric item"
        r = rows.get(s)
        if r is None:
            return f"element {s} not in the element table"
        if not r.get('base'):
            return f"non-base element {s}"
        if e == 0:
            return f"element {s} with exponent 0"
        cur = (r['key'], [ord(ch) for ch in s])
        if prev is not None and not prev < cur:
            return f"elements not strictly increasing in (sort key, str) at {s}"
        prev = cur
    return None


def oracle(case, res):
    r = res['res']
    rows = {x['sym']: x for x in res['table']}
    # (7) element table
    for x in res['table']:
        if 'error' in x:
            return f"element {x['sym']}: {x['error']}"
        if x['key'] <= 0:
            return f"norm_sort_key of {x['sym']} is {x['key']}"
        if x['nf_obs'] == 'float':
            return f"normalized_definition of {x['sym']} contains a float"
        exp = _indep_nf(case, x, rows)
        if exp is not None and exp != x['nf_obs']:
            return (f"normalized_definition of {x['sym']} is {x['nf_obs']} "
                    f"expected {exp}")
    # (1)
    if r['k'] == 'err':
        return f"exception {r['py']}: {r.get('msg', '')}"
    if r['k'] == 'float':
        return "a float occurs in the result"
    q = case['query']
    k = q[0]
    if k == 'items':
        want = _den_expr(q[1], case)
        got = _den_items(r['v'], case)
        if got[1] != want[1] or (want[0] is not None and got[0] != want[0]):
            return f"value not preserved: items {r['v']} denote {got}, expected {want}"
        if q[1][0] == 'norm':
            m = _norm_shape(r['v'], rows)
            if m:
                return f"normalized() not in normal form: {m}: {r['v']}"
        return None
    if k in ('eq', 'hasheq'):
        a, b = _den_expr(q[1], case), _den_expr(q[2], case)
        if a[0] is None or b[0] is None:
            if a[1] != b[1] and r['v'] and k == 'eq':
                return "terms of different dimension compare equal"
            return None
        if k == 'eq' and r['v'] != (a == b):
            return f"== gives {r['v']} but the terms denote {a} and {b}"
        if k == 'hasheq' and a == b and not r['v']:
            return f"equal terms (both denote {a}) have different hashes"
        return None
    if k == 'split':
        want = _den_expr(q[2], case)
        tail = _den_items(r['v'], case)
        if tail[1] != want[1]:
            return f"split: tail {r['v']} has another dimension than the term {want}"
        if want[0] is not None:
            n, d = F(r['num']), F(q[1][1])
            if n * tail[0] != want[0] and not (n == d and tail[0] == want[0]):
                return (f"split: {n} * {r['v']} (denoting {tail}) is not the term "
                        f"(denoting {want})")
        return None
    return None


# ================================================================== evidence

def _leaves(x):
    if x[0] == 'mk':
        return [x]
    return [l for y in x[1:] if isinstance(y, list) and y and isinstance(y[0], str)
            and y[0] in ('mk', *OPS) for l in _leaves(y)]


def _shape(x):
    if x[0] == 'mk':
        return f"mk{'T' if x[1] else 'G'}{'r' if x[2] else 'u'}{len(x[3])}"
    subs = [y for y in x[1:] if isinstance(y, list) and y and y[0] in ('mk', *OPS)]
    return x[0] + '(' + ','.join(_shape(y) for y in subs) + ')'


def _bucket(n):
    return '0' if n == 0 else '1' if n == 1 else '2' if n == 2 else \
        '3-4' if n <= 4 else '5-8' if n <= 8 else '9+'


def labels(case, res):
    q = case['query']
    r = res['res']
    x = _outer(q)
    out = ['mode=' + case['mode'], 'query=' + q[0], 'outer=' + x[0],
           'world=' + case.get('wkind', 'predefined' if case['world'].get('predefined')
                               else 'user'),
           'result=' + r['k']]
    for l in _leaves(x)[:1]:
        out.append('len=' + _bucket(len(l[3])))
        out.append('ctor=' + ('tuple' if l[1] else 'generator')
                   + ('' if l[2] else ',unreduced'))
    if q[0] in ('eq', 'hasheq') and r['k'] == 'bool':
        out.append(f"{q[0]}={r['v']}")
    if q[0] == 'isnorm' and r['k'] == 'bool':
        out.append(f"isnorm={r['v']}")
    if _hash_collision(case, res):
        out.append('hash-collision-of-unequal-terms(not compared with the model)')
    return out


def nontrivial_key(case, res):
    q = case['query']
    r = res['res']
    if q[0] == 'items' and r['k'] == 'items':
        plain = []
        for l in _leaves(q[1]):
            for s, e in l[3]:
                plain.append([['n', frs(F(s[2]))] if s[0] == 'n' else ['e', s[1]], e])
        if plain == r['v']:
            return None
        return ('items', _shape(q[1]),
                tuple(sorted(s[1] for s, _ in plain if s[0] == 'e')),
                tuple(e for _, e in plain))
    if q[0] == 'eq' and r['k'] == 'bool':
        h = hashlib.sha1(json.dumps(case, sort_keys=True).encode()).hexdigest()[:12]
        return ('eq', r['v'], h)
    return None
