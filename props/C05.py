"""C05 — quantized types hold the nearest multiple of the quantum, rounded once."""
import itertools
from fractions import Fraction as F

from vlib import siref, world as W, qtyops as Q
from vlib.qtyops import frs, num_value
from vlib.pyround import to_quantum
from vlib import regops as R
import props.C10 as C10

PID = 'C05'
PROPERTY_FILE = 'Properties/C05.v'
# generated model parts (translate/) this property's model / proofs really depend on
GEN_DEPS = ['OpsImpl', 'QuantityImpl', 'RoundingImpl', 'AllocImpl']
MODEL_TARGETS = Q.MODEL_TARGETS
PROOF_TARGETS = ['Proofs/GenOpsEq.vo', 'Proofs/C05Proofs.vo', 'Proofs/C10MoneyProofs.vo',
                 'Proofs/GenQuantumEq.vo']
COQ_HEADER = Q.COQ_HEADER
COQ_CHECK = Q.COQ_CHECK
ISOLATE = True
coq_model_term = Q.coq_model_term
RULE = ("quantized worlds only: every predefined DataVolume unit, "
        "ISO currencies (12 in quick, all functional ones in thorough), random "
        "user types with quanta 1/8, 1/3, 1/20, 7, 1/100, 5/2; every producing "
        "operation (constructor in its four spellings with int / Fraction / Decimal / "
        "float / decimal.Decimal / bool, amount-and-symbol string, + - neg abs, "
        "* and / by numbers, convert, quantize, round, and — compared with the "
        "oracle only, their model lives in C02 — quantity ** n, number / quantity, "
        "number / unit, quantity * quantity with a quantized result type); all 8 "
        "default rounding modes; amounts (k + t) * quantum with t on ties, beside "
        "ties, thirds, negative, zero, huge. non-trivial = the exact result is not "
        "on the grid (a rounding decision is made); distinct by (op, mode, unit, "
        "exact result).")
ASSUMPTIONS = ["unit views (scale, quantum) are independent of the library",
               "decimalfp's Decimal(x, 0) is modelled by rnd_ref (validated by C13's "
               "correspondence on every run)"]
EXHAUSTIVE = {}
EXHAUSTIVE_NOTE = ("all predefined quantized units x 8 modes x tie offsets are "
                   "enumerated for the constructor in both tiers")

TIES = [F(0), F(1, 2), F(-1, 2), F(1, 2) + F(1, 10**9), F(1, 2) - F(1, 10**9),
        F(1, 3), F(-2, 3), F(1, 7), F(999, 1000), F(3, 2), F(5, 2), F(-3, 2)]
KS = [0, 1, -1, 2, 5, 10, -5, 25, 1000, -15, 10**15]
CURR12 = ['EUR', 'USD', 'JPY', 'BHD', 'GBP', 'CHF', 'KWD', 'CLP', 'TND', 'HKD', 'ISK', 'OMR']
QTYPES = ['DataVolume']


def _kind(rng, a):
    a = F(a)
    ks = ['frac']
    if W.is_decimal(a):
        ks += ['dec', 'dec']
    if a.denominator == 1 and abs(a) < 10**12:
        ks += ['int']
    return [rng.choice(ks), frs(a)]


def _amount(rng, qu):
    a = (rng.choice(KS) + rng.choice(TIES)) * F(qu)
    return _kind(rng, a)


def _float_amount(rng):
    x = rng.choice([0.1, 2.5, -0.7, 1e-5, 123.456, 1e20, 3.0000000000000004, 0.015])
    return ['float', x.hex()]


def _worlds(rng, tier):
    from vlib import iso4217
    table, _ = iso4217.load()
    codes = CURR12 if tier == 'quick' else sorted(table)
    return codes


def _user_world(rng):
    while True:
        w = W.random_world(rng, n_classes=1, quantized_p=1.0)
        if w['classes'][0]['quantum']:
            return w


def gen_cases(rng, tier):
    cases = []
    pre = {'predefined': True}
    qunits = [s for c in QTYPES for s in siref.units_of(c)]
    pviews = W.Views(pre)
    # constructor: every predefined quantized unit x 8 modes x tie offsets
    for u in qunits:
        qu = pviews.units[u]['quantum']
        for dm in W.MODES:
            ts = TIES if tier == 'thorough' else rng.sample(TIES, 3)
            for t in ts:
                a = (rng.choice(KS) + t) * qu
                cases.append({'world': pre, 'dm': dm, 'op': {
                    'o': 'mk', 'n': _kind(rng, a), 'u': u,
                    'how': rng.choice(['mul', 'rmul', 'cls', 'generic']),
                    'cls': siref.REF[u][0]}})
    codes = _worlds(rng, tier)
    n_rand = 700 if tier == 'quick' else 9000
    for _ in range(n_rand):
        r = rng.random()
        if r < 0.35:
            world = pre
            views = pviews
            cls = rng.choice(QTYPES)
            us = siref.units_of(cls)
        elif r < 0.6:
            cs = rng.sample(codes, 2)
            world = {'currencies': cs}
            views = W.Views(world)
            us = [cs[0]]                      # one currency: no implicit conversion
        else:
            world = _user_world(rng)
            views = W.Views(world)
            us = sorted(views.units)
        u, v = rng.choice(us), rng.choice(us)
        qu, qv = views.units[u]['quantum'], views.units[v]['quantum']
        dm = rng.choice(W.MODES)
        o = rng.choice(['mk', 'mk', 'mkstr', 'add', 'sub', 'neg', 'abs', 'muln', 'rmuln',
                        'divn', 'convert', 'quantize', 'round', 'sum', 'mkfloat', 'mkfloat',
                        'pow1', 'rdivq', 'rdivu'])
        if o == 'mk':
            op = {'o': 'mk', 'n': _amount(rng, qu), 'u': u,
                  'how': rng.choice(['mul', 'rmul', 'cls', 'generic']),
                  'cls': views.units[u]['clsname']}
            if op['n'][0] == 'dec' and op['how'] in ('cls', 'generic') and rng.random() < 0.3:
                op['n'][0] = 'stddec'     # decimal.Decimal: constructor only
        elif o == 'mkfloat':
            # a float is its exact binary value: the decimal literal of a tie (2.675) lies
            # BESIDE the tie; every way of constructing (seeded C18-f: Money(float) via repr)
            n = _float_amount(rng)
            if qu is not None and rng.random() < 0.7:
                lit = float(F(rng.choice([2675, 1005, 1015, 7, 29, 1245, 9995, -2675, 35]), 10) * F(qu))
                n = ['float', lit.hex()]
            op = {'o': 'mk', 'n': n, 'u': u, 'how': rng.choice(['mul', 'rmul', 'cls', 'cls', 'generic']),
                  'cls': views.units[u]['clsname']}
        elif o == 'mkstr':
            a = (rng.choice(KS[:9]) + rng.choice(TIES)) * qu
            if W.is_decimal(a):
                from decimal import Decimal as D
                s = format(D(a.numerator) / D(a.denominator), 'f')
                if F(s) != a:
                    s = f"{a.numerator}/{a.denominator}"
            else:
                s = f"{a.numerator}/{a.denominator}"
            op = {'o': 'mkstr', 's': s, 'v': frs(a), 'u': u,
                  'how': rng.choice(['generic', 'cls'])}
        elif o in ('add', 'sub'):
            op = {'o': o, 'x': ['q', _amount(rng, qu), u], 'y': ['q', _amount(rng, qv), v]}
        elif o in ('neg', 'abs'):
            op = {'o': o, 'x': ['q', _amount(rng, qu), u]}
        elif o in ('muln', 'rmuln', 'divn'):
            k = rng.choice([['int', '3/1'], ['frac', '1/3'], ['dec', '5/4'], ['frac', '-2/7'],
                            ['float', (0.1).hex()], ['dec', '1/1000'], ['int', '7/1'],
                            ['bool', '1']])
            op = {'o': o, 'x': ['q', _amount(rng, qu), u], 'k': k}
        elif o == 'convert':
            op = {'o': 'convert', 'x': ['q', _amount(rng, qu), u], 'v': v}
        elif o == 'quantize':
            if views.units[u]['scale'] is None:
                continue
            op = {'o': 'quantize', 'x': ['q', _amount(rng, qu), u],
                  'y': ['q', _kind(rng, rng.choice([1, 3, 8, 10, 25]) * qv), v],
                  'rm': rng.choice(W.MODES + [None])}
        elif o == 'round':
            op = {'o': 'round', 'x': ['q', _amount(rng, qu), u], 'nd': rng.choice([0, 1, 2, -1])}
        elif o == 'sum':
            op = {'o': 'sum', 'xs': [['q', _amount(rng, views.units[s]['quantum']), s]
                                     for s in rng.choices(us, k=rng.randint(2, 4))]}
        else:
            continue
        cases.append({'world': world, 'dm': dm, 'op': op})
    # money in two currencies with a converter registered: the converted operand must
    # NOT be rounded before the sum is (one rounding)
    for _ in range(60 if tier == 'quick' else 900):
        rate = rng.choice(['3/2', '5/4', '4/5', '1305/10', '7/8'])
        term = rng.choice(['USD', 'JPY', 'BHD'])
        world = {'currencies': ['EUR', term]}
        views = W.Views(world)
        qt, qb = views.units[term]['quantum'], views.units['EUR']['quantum']
        a = rng.choice([0, 1, -1, 3, -6, 25, 1000]) * qt
        b = rng.choice([1, -1, 2, 3, -3, 5, 7, -7, 11, 333]) * qb
        cases.append({'world': world, 'dm': rng.choice(W.MODES),
                      'money_conv': {'base': 'EUR', 'rates': [[term, rate]]},
                      'op': {'o': rng.choice(['add', 'sub']), 'x': ['q', _kind(rng, a), term],
                             'y': ['q', _kind(rng, b), 'EUR']}})
    # double-rounding regression family (F11): result type quantized, operand type not
    for _ in range(60 if tier == 'quick' else 600):
        hf = rng.choice(['1/2', '2/5', '3/10', '7/4', '1/3'])
        amt = rng.choice(['3/1', '5/2', '7/3', '1/1', '9/4', '-3/1'])
        cases.append({'dm': rng.choice(W.MODES), 'world': {'f11': True},
                      'op': {'o': rng.choice(['pow2', 'rdivq', 'rdivu', 'pow-1']),
                             'hf': hf, 'amt': amt,
                             'k': rng.choice(['3/1', '1/1', '7/2', '-5/1'])}})
    # money from a FLOAT, through every constructor, at decimal literals of ties and of grid
    # points (the float's exact binary value lies beside them): seeded C18-f
    for cur, qu in (('EUR', F(1, 100)), ('BHD', F(1, 1000)), ('JPY', F(1))):
        for k in (2675, 1005, 1015, 7, 29, -2675):
            lit = float(F(k, 10) * qu) if k not in (7, 29) else float(F(k) * qu)
            for dm in (W.MODES if tier == 'thorough' else rng.sample(W.MODES, 4)):
                for how in ('cls', 'mul', 'generic'):
                    cases.append({'dm': dm, 'world': {'currencies': [cur]},
                                  'op': {'o': 'mk', 'n': ['float', lit.hex()], 'u': cur,
                                         'how': how, 'cls': 'Money'}})
    # stdlib decimal.Decimal amounts with MORE digits than the stdlib context's precision (28):
    # still exact, rounded once to the quantum (seeded C05-h, C18-i: Decimal(amount.normalize()))
    for lit in ('1000000000000010000000000000000001/1000000000000000000000',
                '98765432109876125000000000000000001/1000000000000000000000',
                '123456789012345678901234567125/1000',
                '-1000000000000010000000000000000001/1000000000000000000000'):
        for dm in (W.MODES if tier == 'thorough' else rng.sample(W.MODES, 4)):
            for cur in ('EUR', 'BHD'):
                cases.append({'dm': dm, 'world': {'currencies': [cur]},
                              'op': {'o': 'mk', 'n': ['stddec', lit], 'u': cur,
                                     'how': rng.choice(['cls', 'generic']), 'cls': 'Money'}})
    # exchange-rate application to money: C10's cases with a money operand (incl. the
    # amounts beside a rounding tie of the target currency); C10's harness and oracle
    money = [c for c in C10.gen_cases(rng, tier) if c['q']['x'][-1] in dict(C10.CURS)]
    k = 60 if tier == 'quick' else 600
    for c in money[:k] + money[k:][-2 * k:]:          # random ones + the near-tie family (last)
        cases.append({'dm': c['dm'], 'world': {'rate': True}, 'op': {'o': 'rate-' + c['q']['o']},
                      'c': c})
    return cases


def _f11_run(case):
    """User types L (unit hh = hf * lr), LL = L**2 and FQ = L**-1, both with
    quantum 1: (amt*hh)**2, k/(amt*hh), k/hh must be rounded once."""
    import quantity
    from quantity import Quantity
    meta = type(Quantity)
    W.set_mode(case['dm'])
    op = case['op']
    L = meta('F11L', (Quantity,), {}, ref_unit_symbol='f11lr')
    hh = L.new_unit('f11hh', 'f11hh', W.number(('frac', op['hf'])) * L.ref_unit)
    meta('F11LL', (Quantity,), {}, define_as=L ** 2, quantum=1)
    meta('F11FQ', (Quantity,), {}, define_as=L ** -1, quantum=1)
    a = W.number(('frac', op['amt']))
    k = W.number(('frac', op['k']))
    o = op['o']
    if o == 'pow2':
        res = W.guarded(lambda: (a * hh) ** 2)
    elif o == 'pow-1':
        res = W.guarded(lambda: (a * hh) ** -1)
    elif o == 'rdivq':
        res = W.guarded(lambda: k / (a * hh))
    else:
        res = W.guarded(lambda: k / hh)
    return {'ops': [], 'res': res}


def impl_run(case):
    if case['world'].get('rate'):
        return {'ops': [], 'res': {'k': 'rate'}, 'c': R.impl_run(case['c'])}
    if case['world'].get('f11'):
        return _f11_run(case)
    return Q.impl_run(case)


def coq_case(case, r):
    if case['world'].get('rate'):
        return None              # modelled in C10 (Proofs/C10MoneyProofs.vo is an obligation here)
    if case['world'].get('f11'):
        return None              # modelled in C02 (products / powers); oracle only here
    return Q.coq_case(case, r)


def _f11_oracle(case, r):
    op = case['op']
    hf, a, k = F(op['hf']), F(op['amt']), F(op['k'])
    o = op['o']
    if o == 'pow2':
        exact, sym = (a * hf) ** 2, 'f11lr²'
    elif o == 'pow-1':
        exact, sym = 1 / (a * hf), '1/f11lr'
    elif o == 'rdivq':
        exact, sym = k / (a * hf), '1/f11lr'
    else:
        exact, sym = k / hf, '1/f11lr'
    exp = to_quantum(case['dm'], exact, 1)
    res = r['res']
    if res['k'] != 'qty' or F(res['amt']) != exp:
        return (f"{o} with a quantized result type: exact result {exact} must be rounded once "
                f"to {exp} (mode {case['dm']}), got {res}")
    return None


def oracle(case, r):
    if case['world'].get('rate'):
        return C10.oracle(case['c'], r['c'])
    if case['world'].get('f11'):
        return _f11_oracle(case, r)
    views = W.Views(case['world'])
    op = case['op']
    o = op['o']
    res = r['res']
    dm = case['dm']

    def grid(sym, amt):
        qu = views.units[sym]['quantum']
        return qu is None or (F(amt) / qu).denominator == 1

    if res['k'] == 'qty' and not res.get('float'):
        if res['sym'] in views.units and not grid(res['sym'], res['amt']):
            return f"{o}: result {res['amt']} {res['sym']} is not a multiple of the quantum"
    exact = None
    sym = None
    if o == 'mk':
        exact, sym = num_value(op['n']), op['u']
    elif o == 'mkstr':
        exact, sym = F(op['v']), op['u']
    elif o in ('add', 'sub'):
        ux, uy = views.units[op['x'][2]], views.units[op['y'][2]]
        a, b = F(r['ops'][0]['amt']), F(r['ops'][1]['amt'])
        mc = case.get('money_conv')
        if mc and op['y'][2] == mc['base'] and op['x'][2] in dict(mc['rates']):
            bb = b * F(dict(mc['rates'])[op['x'][2]])
        elif ux['scale'] is None and op['x'][2] != op['y'][2]:
            return None
        else:
            bb = b if op['x'][2] == op['y'][2] else b * uy['scale'] / ux['scale']
        exact, sym = (a + bb if o == 'add' else a - bb), op['x'][2]
    elif o in ('neg', 'abs'):
        a = F(r['ops'][0]['amt'])
        exact, sym = (-a if o == 'neg' else abs(a)), op['x'][2]
    elif o in ('muln', 'rmuln', 'divn'):
        a, k = F(r['ops'][0]['amt']), num_value(op['k'])
        exact, sym = (a / k if o == 'divn' else a * k), op['x'][2]
    elif o == 'convert':
        ux, uv = views.units[op['x'][2]], views.units[op['v']]
        a = F(r['ops'][0]['amt'])
        if op['x'][2] == op['v']:
            exact, sym = a, op['v']
        elif ux['scale'] is None:
            return None
        else:
            exact, sym = a * ux['scale'] / uv['scale'], op['v']
    elif o == 'quantize':
        ux, uy = views.units[op['x'][2]], views.units[op['y'][2]]
        a, b = F(r['ops'][0]['amt']), F(r['ops'][1]['amt'])
        nq = b * uy['scale'] / ux['scale']
        if a == 0 or nq == 0:
            return None
        exact, sym = to_quantum(op.get('rm') or dm, a, nq), op['x'][2]
    else:
        return None
    qu = views.units[sym]['quantum']
    exp = exact if qu is None else to_quantum(dm, exact, qu)
    u = views.units[sym]
    if not Q.is_qty(res, u['clsname'], sym) or F(res['amt']) != exp:
        return (f"{o}: exact result {exact} {sym} rounded once (mode {dm}, quantum {qu}) "
                f"is {exp}, got {res}")
    return None


def labels(case, r):
    op = case['op']
    w = case['world']
    out = ['op=' + op['o'], 'mode=' + case['dm'],
           'world=' + ('predefined' if w.get('predefined') else 'currency' if w.get('currencies')
                       else 'f11' if w.get('f11') else 'rate' if w.get('rate') else 'user'),
           'result=' + (r['res']['e'] if r['res']['k'] == 'err' else r['res']['k'])]
    if op['o'] == 'mk':
        out.append('number-kind=' + op['n'][0])
    return out


def nontrivial_key(case, r):
    if case['world'].get('rate'):
        return str(case['c']['q'])
    if case['world'].get('f11'):
        return str(case['op']) + case['dm']
    op = case['op']
    res = r['res']
    if res['k'] != 'qty':
        return None
    views = W.Views(case['world'])
    # a rounding decision was made iff the oracle's exact value is off the grid
    o = op['o']
    try:
        if o == 'mk':
            exact, sym = num_value(op['n']), op['u']
        elif o == 'mkstr':
            exact, sym = F(op['v']), op['u']
        elif o in ('muln', 'rmuln', 'divn'):
            a, k = F(r['ops'][0]['amt']), num_value(op['k'])
            exact, sym = (a / k if o == 'divn' else a * k), op['x'][2]
        else:
            return None
    except Exception:       # noqa
        return None
    qu = views.units[sym]['quantum']
    if qu is None or (exact / qu).denominator == 1:
        return None
    return (o, case['dm'], sym, str(exact))
