"""C08 — money never mixes currencies implicitly and follows ISO 4217."""
import functools
import itertools
import os
import re
from fractions import Fraction as F

from vlib import iso4217, world as W, qtyops as Q
from vlib.core import cn, cq, cz, cbool, clist, copt, cstr
from vlib.qtyops import frs, num_value
from vlib.pyround import to_quantum

# The XML does not change during a run: parse it once per process (world.Views
# calls iso4217.load() for every case otherwise).  Process-local memoisation,
# the shared module file is untouched.
if not hasattr(iso4217.load, 'cache_info'):
    iso4217.load = functools.lru_cache(maxsize=None)(iso4217.load)

PID = 'C08'
PROPERTY_FILE = 'Properties/C08.v'
# generated model parts (translate/) this property's model / proofs really depend on
GEN_DEPS = ['IsoTable', 'QuantityImpl', 'FractionImpl']
MODEL_TARGETS = ['Corr/MoneyCorr.vo']
PROOF_TARGETS = ['Proofs/C08Proofs.vo', 'Proofs/C02Undef.vo']
COQ_HEADER = ("From QV Require Import Model.Num Model.Rounding Model.Quantity "
              "Model.MoneyOps Corr.Common Corr.Obs Corr.QtyCorr Corr.MoneyCorr.")
COQ_CHECK = 'm_check'
ISOLATE = True
RULE = ("registration scripts on a fresh interpreter: EVERY code of the bundled XML "
        "(167 registrable + 13 that must be rejected) registered twice in shuffled "
        "orders, mixed with random 3-letter, lower-case, empty and non-string codes, "
        "with codes pre-empted by other classes, and with Money.new_unit calls over "
        "valid and invalid (symbol, minor_unit, smallest_fraction) combinations; "
        "observed per step: identity (first step that returned the same object), "
        "symbol, name, smallest fraction, exception class, final Money.units(). "
        "operations: all ordered pairs of 12 (quick) / 40 (thorough) currencies x "
        "{+,-,/,<,<=,>,>=,==,!=,convert,*} (one case = one ordered pair with its 11 "
        "operations, run in one interpreter); same-currency {constructor,+,-,neg,abs,"
        "* and / by numbers, convert, /, *, ==, <, string form} with amounts on and "
        "next to ties under all 8 default rounding modes for 12 / all 167 "
        "currencies; user-defined currencies (incl. negative, zero and "
        "non-power-of-ten fractions admitted by new_unit); money against other "
        "quantity types.  non-trivial = a script step that returns or rejects a "
        "currency, an operation on two different currencies, or a same-currency "
        "operation whose exact result is off the grid; distinct by content.")
ASSUMPTIONS = [
    "money * money: the directory of declared units has no unit for the product "
    "term of two money units (no quantity type defined as Money**2 declared) — "
    "explicit hypothesis of C08_mixed_mul_partial; holds in every case run here, with and "
    "without the predefined catalogue loaded",
    "no money converter is registered (the property's premise); converters are "
    "C11/C12",
    "Decimal(smallest_fraction) of the dependency (value, .precision, exception "
    "class) is an input classification of the model (sf_arg), computed by the "
    "harness from the literal, validated by the correspondence",
    "dict lookups with str keys are modelled by code-point equality of strings",
]
EXHAUSTIVE = {'quick': True, 'thorough': True}
EXHAUSTIVE_NOTE = ("all 180 distinct codes of iso_4217.xml (167 registrable, 13 rejected) "
                   "are registered twice on the implementation in every run (both tiers) "
                   "and compared with the model fed the generated table and with the "
                   "independent parse; thorough: all 167 currencies x 8 rounding modes, "
                   "all ordered pairs of 40 currencies x 11 operators")
SHARD = 400

TABLE, REJECTED = iso4217.load()
CODES = sorted(TABLE)
CORE = ['EUR', 'USD', 'JPY', 'BHD', 'CLF', 'KWD', 'GBP', 'CHF', 'UYW', 'ISK', 'XOF', 'USN']
MODES = W.MODES
PAIR_OPS = ['add', 'sub', 'qdiv', 'lt', 'le', 'gt', 'ge', 'eq', 'ne', 'convert', 'qmul']
OWN_OPS = ('qdiv', 'qmul', 'mkm', 'strconv')


def impl_setup():
    import quantity.money      # noqa: F401  children fork with the module loaded


# ------------------------------------------------------------------ generation

def _sf(code):
    return F(1, 10 ** TABLE[code][1])


def _tie_amount(rng, sf):
    k = rng.choice([0, 1, -1, 2, -2, 5, -5, 10, 24, -25, 99, 100, rng.randint(-10**6, 10**6)])
    t = rng.choice([F(0), F(1, 2), F(-1, 2), F(1, 2) + F(1, 10**6), F(1, 2) - F(1, 10**6),
                    F(1, 3), F(-2, 3), F(1, 4), F(3, 4), F(1, 7), F(0), F(1, 2)])
    return (k + t) * abs(sf)


def _numspec(rng, a):
    a = F(a)
    if a.denominator == 1 and rng.random() < 0.3:
        return ['int', frs(a)]
    if W.is_decimal(a) and rng.random() < 0.7:
        return ['dec', frs(a)]
    return ['frac', frs(a)]


def _grid_amount(rng, sf):
    return rng.choice([0, 1, -1, 3, 7, 12, -25, 100, 12345, rng.randint(-10**5, 10**5)]) * sf \
        if rng.random() < 0.7 else F(rng.randint(-5000, 5000), 8)


def _rand_code(rng):
    return ''.join(rng.choice('ABCDEFGHIJKLMNOPQRSTUVWXYZ') for _ in range(3))


def _bad_codes(rng):
    out = [['s', ''], ['s', 'eur'], ['s', 'Usd'], ['s', 'EURO'], ['s', ' EUR'], ['s', 'EUR '],
           ['s', 'EU'], ['s', 'E'], ['s', '978'], ['s', '€'], ['o', 'none'], ['o', 'int'],
           ['o', 'tuple'], ['o', 'bytes']]
    for _ in range(12):
        c = _rand_code(rng)
        out.append(['s', c if rng.random() < 0.7 else c.lower()])
    return out


SF_VALID = [['str', '0.05'], ['str', '0.5'], ['str', '0.125'], ['str', '0.001'],
            ['str', '0.25'], ['str', '0.2'], ['str', '0.50'], ['str', '.1'],
            ['int', 1], ['frac', '1/8'], ['frac', '1/20'], ['float', (0.5).hex()],
            ['float', (0.25).hex()], ['dec', '0.010'], ['str', '0.0001'], ['str', ' 0.02'],
            ['str', '1e-2'], ['stddec', '0.250']]
SF_INVALID = [['str', '0.3'], ['str', '0'], ['str', '0.00'], ['str', '-0.01'], ['int', 2],
              ['int', 0], ['int', -1], ['str', '7.77'], ['str', '0.03'], ['frac', '1/3'],
              ['frac', '3/8'], ['float', (0.1).hex()], ['str', 'abc'], ['str', ''],
              ['str', '1/4'], ['obj', 'object'], ['obj', 'list'], ['str', '1.5'],
              ['str', '-0.03'], ['str', '0.070']]
MINORS = [None, None, None, ['i', 0], ['i', 1], ['i', 2], ['i', 3], ['i', 4], ['i', 7],
          ['i', -1], ['i', -3], ['b', True], ['b', False], ['o', 'float'], ['o', 'str'],
          ['o', 'frac'], ['o', 'dec']]


SF_NO_MINOR = [s for s in SF_VALID if s != ['int', 1]]
USER_SYMS = ['ZZA', 'ZZB', 'QQ1', 'Q', 'zł', 'BTC', 'XBT', 'A B', 'ZZC', 'ZZD', 'ZZE']


def _new_op(rng, taken):
    """mostly valid calls of Money.new_unit; the rest mixes every kind of
    invalid argument"""
    name = rng.choice([None, 'Zed dollar', '', 'Zed dollar'])
    if rng.random() < 0.55:
        sym = ['s', rng.choice(USER_SYMS)]
        r = rng.random()
        if r < 0.2:
            minor, sf = None, None
        elif r < 0.45:
            minor, sf = rng.choice([['i', 0], ['i', 1], ['i', 2], ['i', 3], ['i', 6], ['b', True]]), None
        elif r < 0.75:
            minor, sf = None, rng.choice(SF_NO_MINOR)
        else:
            # both given: only the number of fractional digits has to fit
            sf = rng.choice(SF_VALID + SF_INVALID[:11] + [['str', '7.77'], ['str', '-0.03']])
            c = sf_class(sf)
            minor = ['i', c[2]] if c[0] == 'dec' and c[2] < 20 else ['i', 2]
        return ['new', sym, name, minor, sf]
    r = rng.random()
    if r < 0.5:
        sym = ['s', rng.choice(USER_SYMS)]
    elif r < 0.75:
        sym = ['s', rng.choice(taken)] if taken else ['s', 'EUR']
    elif r < 0.88:
        sym = ['s', '']
    else:
        sym = ['o', rng.choice(['none', 'int'])]
    minor = rng.choice(MINORS)
    sf = rng.choice([None, None] + SF_VALID + SF_INVALID)
    return ['new', sym, name, minor, sf]


def _script_all(rng, variant):
    """every code of the XML twice, shuffled, with rejected/garbage codes"""
    first = CODES + list(REJECTED)
    rng.shuffle(first)
    second = CODES + list(REJECTED)
    rng.shuffle(second)
    ops = []
    bad = _bad_codes(rng)
    foreign = []
    if variant == 1:
        foreign = rng.sample(CODES, 4) + ['XAU']
    for c in first:
        ops.append(['reg', ['s', c]])
        if rng.random() < 0.08:
            ops.append(['reg', rng.choice(bad)])
        if variant == 2 and rng.random() < 0.05:
            ops.append(_new_op(rng, first))
        if variant == 2 and rng.random() < 0.05:
            ops.append(['foreign', rng.choice(second)])
    for c in second:
        ops.append(['reg', ['s', c]])
        if rng.random() < 0.05:
            ops.append(['reg', rng.choice(bad)])
    return {'kind': 'script', 'foreign': foreign, 'ops': ops, 'tag': f'all-{variant}'}


def _script_random(rng):
    pool = rng.sample(CODES, 5) + rng.sample(list(REJECTED), 2)
    foreign = [rng.choice(pool)] if rng.random() < 0.25 else []
    if rng.random() < 0.1:
        foreign.append('ZZA')
    ops = []
    bad = _bad_codes(rng)
    for _ in range(rng.randint(3, 10)):
        r = rng.random()
        if r < 0.45:
            ops.append(['reg', ['s', rng.choice(pool + USER_SYMS[:3])]])
        elif r < 0.6:
            ops.append(['reg', rng.choice(bad)])
        elif r < 0.9:
            ops.append(_new_op(rng, pool))
        else:
            ops.append(['foreign', rng.choice(pool + ['ZZA', 'ZZB', ''])])
    return {'kind': 'script', 'foreign': foreign, 'ops': ops, 'tag': 'random'}


USER_CURR = [
    {'sym': 'UCA', 'minor': None, 'given_fraction': True, 'fraction': '1/20'},
    {'sym': 'UCB', 'minor': None, 'given_fraction': True, 'fraction': '1/8'},
    {'sym': 'UCC', 'minor': None, 'given_fraction': True, 'fraction': '1/2'},
    {'sym': 'UCD', 'minor': 0, 'given_fraction': False, 'fraction': '1/1'},
    {'sym': 'UCE', 'minor': 4, 'given_fraction': False, 'fraction': '1/10000'},
    {'sym': 'UCF', 'minor': None, 'given_fraction': False, 'fraction': '1/100'},
    {'sym': 'UCG', 'minor': 2, 'given_fraction': True, 'fraction': '1/20'},
    # admitted by the quirk of new_unit (minor_unit given: only the precision is checked)
    {'sym': 'UQA', 'minor': 2, 'given_fraction': True, 'fraction': '-3/100'},
    {'sym': 'UQB', 'minor': 2, 'given_fraction': True, 'fraction': '777/100'},
    {'sym': 'UQC', 'minor': 0, 'given_fraction': True, 'fraction': '0/1'},
    {'sym': 'UQD', 'minor': 0, 'given_fraction': True, 'fraction': '5/1'},
]


def _same_currency_case(rng, world, sym, sf, dm, o=None):
    o = o or rng.choice(['mkm', 'mkm', 'add', 'sub', 'neg', 'abs', 'muln', 'rmuln', 'divn',
                         'convert', 'qdiv', 'qmul', 'eq', 'lt', 'ge', 'strconv', 'conveq'])
    x = ['q', _numspec(rng, _tie_amount(rng, sf) if rng.random() < 0.5 else _grid_amount(rng, sf)), sym]
    y = ['q', _numspec(rng, _grid_amount(rng, sf)), sym]
    if o == 'mkm':
        op = {'o': 'mkm', 'n': _numspec(rng, _tie_amount(rng, sf)), 'u': sym,
              'how': rng.choice(['mul', 'rmul', 'cls', 'generic'])}
    elif o in ('add', 'sub', 'qdiv', 'qmul', 'eq', 'ne', 'lt', 'le', 'gt', 'ge'):
        if o == 'qdiv' and rng.random() < 0.15:
            y = ['q', ['int', '0/1'], sym]
        op = {'o': o, 'x': x, 'y': y}
    elif o in ('neg', 'abs'):
        op = {'o': o, 'x': x}
    elif o in ('muln', 'rmuln', 'divn'):
        k = rng.choice([['int', '3/1'], ['frac', '1/2'], ['frac', '1/3'], ['dec', '3/2'],
                        ['dec', '1/8'], ['float', (0.5).hex()], ['float', (2.5).hex()],
                        ['int', '-7/1'], ['frac', '5/2'], ['dec', '1/1000'], ['int', '2/1'],
                        ['int', '4/1'], ['int', '8/1']])
        op = {'o': o, 'x': x, 'k': k}
    elif o in ('convert', 'conveq'):
        op = {'o': o, 'x': x, 'v': sym}
    else:   # strconv: Money('<literal> SYM', SYM)
        a = _tie_amount(rng, sf)
        if not W.is_decimal(a):
            a = F(round(a * 10**6), 10**6)
        op = {'o': 'strconv', 's': _declit(a), 'u': sym, 'v': sym}
    return {'kind': 'op', 'world': world, 'dm': dm, 'op': op}


def _declit(a):
    """decimal literal of an exactly decimal Fraction"""
    a = F(a)
    p = 0
    while (a * 10**p).denominator != 1:
        p += 1
    n = int(a * 10**p)
    s = str(abs(n)).rjust(p + 1, '0')
    txt = s[:len(s) - p] + ('.' + s[len(s) - p:] if p else '')
    return ('-' if n < 0 else '') + txt


def gen_cases(rng, tier):
    quick = tier != 'thorough'
    cases = [_script_all(rng, v) for v in (0, 1, 2)]
    cases += [_script_random(rng) for _ in range(150 if quick else 1500)]
    # ---- all ordered pairs x 11 operators
    n = 12 if quick else 40
    cur = CORE + rng.sample([c for c in CODES if c not in CORE], n - len(CORE))
    for u, v in itertools.permutations(cur, 2):
        world = {'currencies': [u, v]}
        if rng.random() < 0.08:
            world = {'predefined': True, 'currencies': [u, v]}
        subs = []
        for o in PAIR_OPS + ['sum']:
            x = ['q', _numspec(rng, _grid_amount(rng, _sf(u))), u]
            y = ['q', _numspec(rng, _grid_amount(rng, _sf(v))), v]
            if o == 'convert':
                op = {'o': 'convert', 'x': x, 'v': v}
            elif o == 'sum':
                # quantity.sum([x, y]) adds, so it raises like x + y (seeded C08-g)
                op = {'o': 'sum', 'xs': [x, y]}
            else:
                op = {'o': o, 'x': x, 'y': y}
            subs.append({'kind': 'op', 'world': world, 'dm': rng.choice(MODES), 'op': op})
        # the 11 operators of one ordered pair share one interpreter
        cases.append({'kind': 'multi', 'subs': subs})
    for _ in range(30 if quick else 300):
        u, v = rng.sample(cur, 2)
        a = _tie_amount(rng, _sf(u))
        if not W.is_decimal(a):
            a = F(round(a * 10**6), 10**6)
        cases.append({'kind': 'op', 'world': {'currencies': [u, v]}, 'dm': rng.choice(MODES),
                      'op': {'o': 'strconv', 's': _declit(a), 'u': u, 'v': v}})
    # ---- same currency, all 8 default rounding modes, ties
    for code in (cur[:12] if quick else CODES):
        for dm in MODES:
            for _ in range(6):
                cases.append(_same_currency_case(rng, {'currencies': [code]}, code, _sf(code), dm))
    # ---- user-defined currencies
    for _ in range(150 if quick else 1500):
        uc = rng.choice(USER_CURR)
        world = {'user_currencies': [uc]}
        if rng.random() < 0.3:
            world['currencies'] = [rng.choice(cur)]
        sf = F(uc['fraction'])
        if sf == 0:
            o = rng.choice(['mkm', 'mkm', 'strconv'])
            cases.append(_same_currency_case(rng, world, uc['sym'], F(1), rng.choice(MODES), o))
        else:
            cases.append(_same_currency_case(rng, world, uc['sym'], sf, rng.choice(MODES)))
    # ---- money against other quantity types
    others = ['m', 'kg', 's', 'km', 'kB', '°C']
    for _ in range(40 if quick else 300):
        u = rng.choice(cur)
        world = {'predefined': True, 'currencies': [u]}
        x = ['q', _numspec(rng, _grid_amount(rng, _sf(u))), u]
        y = ['q', _numspec(rng, rng.choice([F(1), F(5, 2), F(0), F(-3)])), rng.choice(others)]
        if rng.random() < 0.5:
            x, y = y, x
        o = rng.choice(['add', 'sub', 'lt', 'ge', 'eq', 'ne', 'qmul', 'qdiv'])
        cases.append({'kind': 'op', 'world': world, 'dm': 'MHEVEN', 'op': {'o': o, 'x': x, 'y': y}})
    return cases


# ------------------------------------------------------------ implementation

def _code_obj(spec):
    if spec[0] == 's':
        return spec[1]
    return {'none': None, 'int': 978, 'tuple': ('E', 'U', 'R'), 'bytes': b'EUR'}[spec[1]]


def _minor_obj(spec):
    if spec is None:
        return None
    if spec[0] in ('i', 'b'):
        return spec[1]
    from decimalfp import Decimal
    return {'float': 2.0, 'str': '2', 'frac': F(2), 'dec': Decimal(2)}[spec[1]]


def _sf_obj(spec):
    if spec is None:
        return None
    k, v = spec
    if k in ('str', 'int'):
        return v
    if k == 'frac':
        return F(v)
    if k == 'float':
        return float.fromhex(v)
    if k == 'dec':
        from decimalfp import Decimal
        return Decimal(v)
    if k == 'stddec':
        import decimal
        return decimal.Decimal(v)
    if k == 'obj':
        return object() if v == 'object' else []
    raise ValueError(spec)


def _run_script(case):
    import quantity
    from quantity.money import Money, Currency
    meta = type(quantity.Quantity)
    fgn = meta('Fgn', (quantity.Quantity,), {})
    for s in case['foreign']:
        fgn.new_unit(s, s + '-foreign')
    rets, steps = [], []
    for op in case['ops']:
        before = [u.symbol for u in Money.units()]
        try:
            if op[0] == 'reg':
                r = Money.register_currency(_code_obj(op[1]))
            elif op[0] == 'new':
                kw = {}
                if op[3] is not None:
                    kw['minor_unit'] = _minor_obj(op[3])
                if op[4] is not None and op[4][0] != 'none0':
                    kw['smallest_fraction'] = _sf_obj(op[4])
                sym = op[1][1] if op[1][0] == 's' else {'none': None, 'int': 5}[op[1][1]]
                r = Money.new_unit(sym, op[2], **kw)
            else:
                fgn.new_unit(op[1], 'foreign')
                r = None
        except BaseException as e:      # noqa: the exception class is the observation
            if isinstance(e, (KeyboardInterrupt, SystemExit, MemoryError)):
                raise
            rets.append(None)
            steps.append({'k': 'err', 'e': W.err_name(e), 'py': type(e).__name__,
                          'msg': str(e)[:120],
                          'unchanged': before == [u.symbol for u in Money.units()]})
            continue
        rets.append(r)
        if r is None:
            steps.append({'k': 'none',
                          'unchanged': before == [u.symbol for u in Money.units()]})
            continue
        first = next(j for j, x in enumerate(rets) if x is r)
        sf = r.smallest_fraction
        steps.append({
            'k': 'cur', 'first': first, 'sym': r.symbol, 'name': r.name,
            'sf': frs(F(sf)), 'quantum': frs(F(r.quantum)), 'iso_code': r.iso_code,
            'type': type(r).__name__, 'is_currency': isinstance(r, Currency),
            'cls': r.qty_cls.__name__,
            'listed': any(u is r for u in Money.units()),
            'by_symbol': quantity.Unit(r.symbol) is r,
            'grew': len(Money.units()) - len(before)})
    return {'steps': steps, 'units': [u.symbol for u in Money.units()]}


def _own_op(case):
    W.set_mode(case['dm'])
    units, classes = W.instantiate(case['world'])
    op = case['op']
    o = op['o']
    seen = []

    def operand(spec):
        q = Q._num(spec[1]) * units[spec[2]]
        seen.append(W.observe(q))
        return q

    if o == 'mkm':
        import quantity
        from quantity.money import Money
        n, u = Q._num(op['n']), units[op['u']]
        how = op.get('how', 'mul')
        f = {'mul': lambda: n * u, 'rmul': lambda: u * n, 'cls': lambda: Money(n, u),
             'generic': lambda: quantity.Quantity(n, u)}[how]
        return {'ops': [], 'res': W.guarded(f)}
    if o == 'strconv':
        from quantity.money import Money
        txt = f"{op['s']} {op['u']}"
        return {'ops': [], 'res': W.guarded(lambda: Money(txt, units[op['v']]))}
    x, y = operand(op['x']), operand(op['y'])
    bx, by = W.observe(x), W.observe(y)
    res = W.guarded((lambda: x / y) if o == 'qdiv' else (lambda: x * y))
    return {'ops': seen, 'res': res, 'unchanged': (bx, by) == (W.observe(x), W.observe(y))}


def impl_run(case):
    if case['kind'] == 'multi':
        # registering the same ISO currencies again returns the same units
        return {'subs': [impl_run(c) for c in case['subs']]}
    if case['kind'] == 'script':
        return _run_script(case)
    if case['op']['o'] in OWN_OPS:
        return _own_op(case)
    return Q.impl_run(case)


# ------------------------------------------------------------ model encoding

_DECLIT = re.compile(r'^\s*([+-]?)(\d*)(?:\.(\d*))?(?:[eE]([+-]?\d+))?\s*$')


def _min_prec(v):
    p = 0
    while (v * 10**p).denominator != 1:
        p += 1
    return p


def sf_class(spec):
    """Classify a smallest_fraction argument independently of the library:
    ('none',) | ('dec', value, precision) | ('bad', err)."""
    if spec is None or spec[0] == 'none0':
        return ('none',)
    k, v = spec
    if k in ('str', 'dec', 'stddec'):
        m = _DECLIT.match(v)
        if not m or not (m.group(2) or m.group(3)):
            return ('bad', 'EValueError')
        sign, ip, fp, ex = m.group(1), m.group(2) or '', m.group(3) or '', int(m.group(4) or 0)
        val = F(int((ip + fp) or '0'), 10 ** len(fp)) * F(10) ** ex
        if sign == '-':
            val = -val
        return ('dec', val, max(0, len(fp) - ex))
    if k == 'int':
        return ('dec', F(v), 0)
    if k == 'frac':
        f = F(v)
        return ('dec', f, _min_prec(f)) if W.is_decimal(f) else ('bad', 'EValueError')
    if k == 'float':
        f = F(float.fromhex(v))
        return ('dec', f, _min_prec(f))
    if k == 'obj':
        return ('bad', 'ETypeError')
    raise ValueError(spec)


def _coq_sf(spec):
    c = sf_class(spec)
    if c[0] == 'none':
        return 'SfNone'
    if c[0] == 'dec':
        return f"(SfDec {cq(c[1])} {cz(c[2])})"
    return f"(SfBad {c[1]})"


def _coq_minor(spec):
    if spec is None:
        return 'MinNone'
    if spec[0] in ('i', 'b'):
        return f"(MinInt {cz(int(spec[1]))})"
    return 'MinOther'


def _coq_regop(op):
    if op[0] == 'reg':
        return f"(OpRegister {'(CodeStr ' + cstr(op[1][1]) + ')' if op[1][0] == 's' else 'CodeOther'})"
    if op[0] == 'new':
        sym = f"(SymStr {cstr(op[1][1])})" if op[1][0] == 's' else 'SymOther'
        name = 'None' if op[2] is None else f"(Some {cstr(op[2])})"
        return f"(OpNewUnit {sym} {name} {_coq_minor(op[3])} {_coq_sf(op[4])})"
    return f"(OpForeign {cstr(op[1])})"


def _coq_robs(s):
    if s['k'] == 'cur':
        return f"(RCur {cn(s['first'])} {cstr(s['sym'])} {cstr(s['name'])} {cq(F(s['sf']))})"
    if s['k'] == 'none':
        return 'RNone'
    return f"(RErr {s['e']})"


def coq_case(case, r):
    if case['kind'] == 'multi':
        ts = [coq_case(c, x) for c, x in zip(case['subs'], r['subs'])]
        return f"(MAll {clist([t for t in ts if t is not None])})"
    if case['kind'] == 'script':
        return (f"(MScript {clist([cstr(s) for s in case['foreign']])} "
                f"{clist([_coq_regop(o) for o in case['ops']])} "
                f"{clist([_coq_robs(s) for s in r['steps']])} "
                f"{clist([cstr(s) for s in r['units']])})")
    op = case['op']
    o = op['o']
    views = _views(case['world'])
    if o in OWN_OPS:
        exp = W.coq_obs(r['res'], views)
        if r.get('operand_failed'):
            return None
        if o == 'mkm':
            return f"(MNew {case['dm']} {cq(num_value(op['n']))} {views.coq(op['u'])} {exp})"
        if o == 'strconv':
            u, v = views.units[op['u']], views.units[op['v']]
            if u['quantum'] == 0:
                # construction in the parsed unit fails first
                return f"(MNew {case['dm']} {cq(F(op['s']))} {views.coq(op['u'])} {exp})"
            if op['u'] == op['v']:
                return f"(MNew {case['dm']} {cq(F(op['s']))} {views.coq(op['u'])} {exp})"
            return (f"(MQ (mkQCase {case['dm']} [] (QConvertVia {cq(F(op['s']))} "
                    f"{views.coq(op['u'])} {views.coq(op['u'])} {views.coq(op['v'])}) {exp}))")
        a, b = F(r['ops'][0]['amt']), F(r['ops'][1]['amt'])
        p = f"(mkQty {cq(a)} {views.coq(op['x'][2])})"
        q = f"(mkQty {cq(b)} {views.coq(op['y'][2])})"
        return f"({'MDiv' if o == 'qdiv' else 'MMul'} {case['dm']} {p} {q} {exp})"
    t = Q.coq_case(case, r)
    return None if t is None else f"(MQ {t})"


def coq_model_term(case, r):
    t = coq_case(case, r)
    return f"m_model {t}" if t else "tt"


@functools.lru_cache(maxsize=4096)
def _views_cached(key):
    import json
    return W.Views(json.loads(key))


def _views(world):
    import json
    return _views_cached(json.dumps(world, sort_keys=True))


# ------------------------------------------------------------ oracle
# The property itself, on the implementation's observations, against the
# independent parse of the XML (vlib/iso4217.py) — neither the library nor the
# Coq model is consulted.

def _oracle_script(case, r):
    known = {}       # symbol -> (first step index, name, fraction) of money units
    taken = set(case['foreign'])
    listing = []
    for i, (op, s) in enumerate(zip(case['ops'], r['steps'])):
        if s['k'] in ('err', 'none') and not s.get('unchanged', True):
            return f"step {i} {op}: failed/foreign step changed Money.units()"
        if op[0] == 'reg':
            code = op[1][1] if op[1][0] == 's' else None
            if code is not None and code in known:
                first, name, sf = known[code]
                if s['k'] != 'cur' or s['first'] != first:
                    return (f"step {i}: second registration of {code!r} did not return the "
                            f"object of step {first}: {s}")
                if s['name'] != name or F(s['sf']) != sf or s['grew'] != 0:
                    return f"step {i}: re-registration of {code!r} changed the currency/registry: {s}"
            elif code is not None and code in TABLE and code not in taken:
                name, minor = TABLE[code]
                if s['k'] != 'cur':
                    return f"step {i}: ISO code {code!r} was not registered: {s}"
                if s['first'] != i:
                    return f"step {i}: first registration of {code!r} returned an older object"
                if s['sym'] != code or s['iso_code'] != code or s['name'] != (name or code):
                    return f"step {i}: {code!r} registered as {s['sym']!r} / {s['name']!r}, table says {name!r}"
                if F(s['sf']) != F(1, 10 ** minor) or F(s['quantum']) != F(s['sf']):
                    return f"step {i}: {code!r} smallest fraction {s['sf']} / quantum {s['quantum']}, table says 10^-{minor}"
                if not (s['listed'] and s['by_symbol'] and s['is_currency']
                        and s['cls'] == 'Money' and s['grew'] == 1):
                    return f"step {i}: {code!r} not properly listed: {s}"
                known[code] = (i, s['name'], F(s['sf']))
                taken.add(code)
                listing.append(code)
            elif code is not None and code in TABLE:
                # symbol pre-empted by another class: cannot be registered
                if s['k'] != 'err':
                    return f"step {i}: {code!r} registered although the symbol belongs to another class"
            else:
                if s['k'] != 'err' or s['e'] != 'EValueError':
                    return f"step {i}: unknown code {op[1]!r} not rejected with ValueError: {s}"
        elif op[0] == 'new':
            if s['k'] == 'cur':
                sym = s['sym']
                if sym in taken or s['first'] != i or s['grew'] != 1 or not s['listed']:
                    return f"step {i}: new_unit {op} created {s} (symbol taken or not a fresh object)"
                if op[1] != ['s', sym] or F(s['quantum']) != F(s['sf']):
                    return f"step {i}: new_unit {op} created {s}"
                known[sym] = (i, s['name'], F(s['sf']))
                taken.add(sym)
                listing.append(sym)
        else:
            if s['k'] == 'none':
                if op[1] in taken:
                    return f"step {i}: symbol {op[1]!r} declared twice"
                taken.add(op[1])
    if sorted(r['units']) != sorted(listing):
        return f"Money.units() = {sorted(r['units'])}, expected {sorted(listing)}"
    return None


def _is_money(views, sym):
    return views.units[sym]['clsname'] == 'Money'


def _oracle_op(case, r):
    views = _views(case['world'])
    op = case['op']
    o = op['o']
    dm = case['dm']
    res = r['res']
    if r.get('unchanged') is False:
        return f"{o} changed an operand"
    if o in ('mkm', 'strconv'):
        u = views.units[op['u']]
        qu = u['quantum']
        if qu == 0:
            return None          # outside the property (not an ISO currency)
        n = num_value(op['n']) if o == 'mkm' else F(op['s'])
        if o == 'strconv' and op['u'] != op['v']:
            return None if Q.is_err(res, 'EUnitConversion') else \
                f"Money('{op['s']} {op['u']}', {op['v']}) did not raise UnitConversionError: {res}"
        exp = to_quantum(dm, n, qu)
        if not Q.is_qty(res, 'Money', op['u']) or F(res['amt']) != exp:
            return f"{o}: {n} {op['u']} under {dm}: expected {exp}, got {res}"
        if (F(res['amt']) / qu).denominator != 1:
            return f"{o}: amount {res['amt']} is not a multiple of {qu}"
        return None
    sx = op['x'][2] if 'x' in op else None
    sy = op['y'][2] if 'y' in op else op.get('v')
    specs = [op.get('x'), op.get('y')]
    if o == 'sum':
        specs = op['xs']
        sx, sy = specs[0][2], specs[1][2]
    for ob, spec in zip(r['ops'], specs):
        if ob and spec and spec[0] == 'q' and _is_money(views, spec[2]):
            qu = views.units[spec[2]]['quantum']
            if qu and (F(ob['amt']) / qu).denominator != 1:
                return f"operand {ob} is not a multiple of the smallest fraction {qu}"
    if sy is not None and sx is not None and sx != sy:
        mx, my = _is_money(views, sx), _is_money(views, sy)
        if mx and my:
            # two different currencies, no converter
            if o in ('eq',):
                return None if res == {'k': 'bool', 'v': False} else f"{sx} == {sy} gave {res}"
            if o == 'ne':
                return None if res == {'k': 'bool', 'v': True} else f"{sx} != {sy} gave {res}"
            if o == 'qmul':
                return None if Q.is_err(res, 'EUndefinedResult') else \
                    f"{sx} * {sy} is not undefined: {res}"
            return None if Q.is_err(res, 'EUnitConversion') else \
                f"{o} on {sx} and {sy} did not raise UnitConversionError: {res}"
        # money against another quantity type
        if o == 'eq':
            return None if res == {'k': 'bool', 'v': False} else f"money == other type gave {res}"
        if o == 'ne':
            return None if res == {'k': 'bool', 'v': True} else f"money != other type gave {res}"
        if o in ('qmul', 'qdiv'):
            return None if Q.is_err(res, 'EUndefinedResult') else \
                f"money {o} other type is not undefined: {res}"
        return None if Q.is_err(res, 'EIncompatibleUnits') else \
            f"money {o} other type did not raise IncompatibleUnitsError: {res}"
    # one currency
    u = views.units[sx]
    qu = u['quantum']
    a = F(r['ops'][0]['amt'])
    b = F(r['ops'][1]['amt']) if len(r['ops']) > 1 and r['ops'][1] else None

    def expect_qty(exact):
        exp = to_quantum(dm, exact, qu)
        if not Q.is_qty(res, 'Money', sx) or F(res['amt']) != exp:
            return f"{o}: expected {exp} {sx} (exact {exact}, mode {dm}), got {res}"
        return None
    if o == 'add':
        return expect_qty(a + b)
    if o == 'sub':
        return expect_qty(a - b)
    if o == 'neg':
        return expect_qty(-a)
    if o == 'abs':
        return expect_qty(abs(a))
    if o in ('muln', 'rmuln'):
        return expect_qty(a * num_value(op['k']))
    if o == 'divn':
        return expect_qty(a / num_value(op['k']))
    if o == 'convert':
        return expect_qty(a)
    if o == 'conveq':
        return None if res == {'k': 'bool', 'v': True} else f"x.convert(own currency) == x gave {res}"
    if o == 'qdiv':
        if b == 0:
            return None if Q.is_err(res, 'EZeroDivision') else f"division by zero money: {res}"
        return None if res.get('k') == 'num' and F(res['v']) == a / b else \
            f"{a} {sx} / {b} {sx}: expected the number {a / b}, got {res}"
    if o == 'qmul':
        return None if Q.is_err(res, 'EUndefinedResult') else f"{sx} * {sx} is not undefined: {res}"
    cmpf = {'eq': a == b, 'ne': a != b, 'lt': a < b, 'le': a <= b, 'gt': a > b, 'ge': a >= b}
    if o in cmpf:
        return None if res == {'k': 'bool', 'v': cmpf[o]} else \
            f"{a} {o} {b} in {sx}: got {res}"
    return None


def oracle(case, r):
    if case['kind'] == 'multi':
        for c, x in zip(case['subs'], r['subs']):
            msg = oracle(c, x)
            if msg:
                return msg
        return None
    if case['kind'] == 'script':
        msg = _oracle_script(case, r)
        m = re.match(r'^(step \d+)[: ]+(.*)$', msg or '', re.S)
        # what failed first, where it failed last (reports are grouped by prefix)
        return f"{m.group(2)} [{m.group(1)}]" if m else msg
    if r.get('operand_failed'):
        return None
    return _oracle_op(case, r)


def extra_checks(tier):
    """Gen/IsoTable.v on disk must be what the extractor produces from the
    XML now (fail closed while the generator is not yet listed in
    translate.GENERATORS; a harmless double check afterwards)."""
    from translate import isotable
    from vlib import core
    path = os.path.join(core.COQ, 'Gen', 'IsoTable.v')
    try:
        fresh = isotable.generate()
    except Exception as e:      # noqa
        return [(f"ISO table extractor failed closed: {type(e).__name__}: {e}", {'file': path})]
    try:
        disk = open(path, encoding='utf-8').read()
    except OSError as e:
        return [(f"Gen/IsoTable.v missing: {e}", {'file': path})]
    if disk != fresh:
        return [("Gen/IsoTable.v is stale: the bundled iso_4217.xml changed but the "
                 "generated table was not rebuilt", {'file': path})]
    return []


# ------------------------------------------------------------ evidence

def labels(case, r):
    if case['kind'] == 'multi':
        out = ['kind=pair-bundle']
        for c, x in zip(case['subs'], r['subs']):
            out += [l for l in labels(c, x) if l != 'kind=op']
        return out
    if case['kind'] == 'script':
        out = ['kind=script', 'script=' + case.get('tag', '')]
        for op, s in zip(case['ops'], r['steps']):
            out.append(f"step={op[0]}:{s['e'] if s['k'] == 'err' else s['k']}")
        return out
    op = case['op']
    res = r['res']
    out = ['kind=op', 'op=' + op['o'], 'dflt=' + case['dm'],
           'result=' + (res['e'] if res['k'] == 'err' else res['k'])]
    syms = [s[2] for s in (op.get('x'), op.get('y')) if s and s[0] == 'q']
    if op.get('v'):
        syms.append(op['v'])
    if op.get('u'):
        syms.append(op['u'])
    out.append('currencies=' + ('two' if len(set(syms)) > 1 else 'one'))
    if case['world'].get('predefined'):
        out.append('catalogue=loaded')
    if case['world'].get('user_currencies'):
        out.append('user-currency')
    return out


def nontrivial_key(case, r):
    if case['kind'] == 'multi':
        return ('m',) + tuple(nontrivial_key(c, x) for c, x in zip(case['subs'], r['subs']))
    if case['kind'] == 'script':
        return ('s', str(case['ops'])[:2000], str(case['foreign']))
    op = case['op']
    syms = {s[2] for s in (op.get('x'), op.get('y')) if s and s[0] == 'q'}
    if op.get('v'):
        syms.add(op['v'])
    if op.get('u'):
        syms.add(op['u'])
    if len(syms) > 1:
        return ('p', op['o'], tuple(sorted(syms)), str(op.get('x')), str(op.get('y')))
    res = r['res']
    if res['k'] == 'qty' and not res.get('float'):
        views = _views(case['world'])
        qu = views.units[res['sym']]['quantum']
        if qu:
            # off-grid exact result <=> a rounding decision was made
            exact = _exact(op, r)
            if exact is not None and (exact / qu).denominator != 1:
                return ('r', case['dm'], res['sym'], op['o'], exact)
        return None
    if res['k'] == 'err':
        return ('e', op['o'], res['e'], str(sorted(syms)))
    return None


def _exact(op, r):
    o = op['o']
    if o == 'mkm':
        return num_value(op['n'])
    if o == 'strconv':
        return F(op['s'])
    if not r['ops'] or not r['ops'][0]:
        return None
    a = F(r['ops'][0]['amt'])
    if o in ('muln', 'rmuln'):
        return a * num_value(op['k'])
    if o == 'divn':
        return a / num_value(op['k'])
    return None
