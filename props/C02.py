"""C02 — products, quotients and powers respect dimensions and scales."""
import itertools
from fractions import Fraction as F

from vlib import siref, world as W, regops as R, regworld as RW
from vlib.qtyops import num_value, frs
from vlib.pyround import to_quantum

PID = 'C02'
PROPERTY_FILE = 'Properties/C02.v'
# generated model parts (translate/) this property's model / proofs really depend on
GEN_DEPS = ['OpsImpl', 'QuantityImpl', 'StateInventory']
MODEL_TARGETS = R.MODEL_TARGETS
PROOF_TARGETS = ['Proofs/GenOpsEq.vo', 'Proofs/C02Undef.vo']
COQ_HEADER = R.COQ_HEADER
COQ_CHECK = R.COQ_CHECK
ISOLATE = True
SHARD = 300
impl_run = R.impl_run
coq_case = R.coq_case
coq_model_term = R.coq_model_term
RULE = ("predefined catalogue: ordered pairs of the 113 units x {*, /} x operand kinds "
        "{quantity-quantity, quantity-unit, unit-quantity, unit-unit} (sampled in quick, "
        "every ordered pair in thorough), every unit ** k for k in -3..3, number operands "
        "of every kind on both sides; random user catalogues (base types with / without "
        "reference unit, chains of scaled units, derived types incl. quantized ones, units "
        "derived from base-type units): all operator forms incl. cancelling and undefined "
        "combinations.  The model replays the declaration script (for the predefined "
        "catalogue: extracted from public declaration data) and recomputes every scale; "
        "the oracle computes value and dimension from its own bookkeeping and from the "
        "independent SI table.  non-trivial = two non-number operands of different units; "
        "distinct by (operator, operands, catalogue).")
ASSUMPTIONS = ["normalised definitions are represented by their denotation (factor x exponent "
               "vector); that Term.normalized() computes it is property C07",
               "generated unit symbols are computed by the harness' own formatter"]
EXHAUSTIVE = {'quick': False, 'thorough': False}
EXHAUSTIVE_NOTE = "thorough enumerates all 113^2 ordered unit pairs x {*,/}; operand kinds and amounts are sampled"

AMOUNTS = ['1/1', '2/1', '3/1', '-5/2', '1/3', '7/4', '1000/1', '1/1000', '0/1', '22/7']
NUMS = [['int', '3/1'], ['int', '-2/1'], ['float', (0.5).hex()], ['float', (0.1).hex()],
        ['dec', '5/4'], ['frac', '2/3'], ['bool', '1'], ['int', '0/1'], ['dec', '1/1000']]


def _amt(rng):
    a = rng.choice(AMOUNTS)
    kind = 'dec' if W.is_decimal(F(a)) and rng.random() < 0.6 else 'frac'
    return [kind, a]


def _nonzero_stored(rng, w, sym):
    """an amount that is certainly NOT stored as zero, whatever the unit's quantum (0 ** -k
    raises different exceptions in Decimal and Fraction: the dependency's business)"""
    qu = w.unit_quantum(sym)
    k = rng.choice([1, -3, 2])
    if qu:
        return ['frac', frs(F(qu) * k)]
    return ['dec', f"{1000 * k}/1"]


def _opd(rng, sym, kind):
    return ['q', _amt(rng), sym] if kind == 'q' else ['u', sym]


def gen_cases(rng, tier):
    cases = []
    syms = sorted(siref.REF) + list(siref.TEMPERATURE)
    pairs = list(itertools.product(syms, syms))
    w0, _ = RW.replay({'dm': 'MHEVEN', 'pre': True, 'script': []})

    def defined(u, v, o):
        du, dv = w0.unit_value(u)[1], w0.unit_value(v)[1]
        d = RW.vmul(du, dv if o == 'mul' else RW.vpow(dv, -1))
        return (not d) or w0.cls_of_dims(d) is not None
    if tier == 'quick':
        # half of the sample from the pairs whose result is defined (or cancels)
        good = [(u, v) for u, v in pairs if defined(u, v, 'mul') or defined(u, v, 'div')]
        pairs = rng.sample(pairs, 200) + rng.sample(good, 320)
    for u, v in pairs:
        for o in ('mul', 'div'):
            if tier == 'quick' and not defined(u, v, o) and rng.random() < 0.6:
                continue
            if o == 'div' and u in siref.TEMPERATURE and v in siref.TEMPERATURE and u != v:
                continue            # affine conversion: C14's domain
            kx, ky = rng.choice('qu'), rng.choice('qu')
            cases.append({'dm': rng.choice(W.MODES), 'pre': True, 'script': [], 'hist': [],
                          'q': {'k': 'op', 'o': [o, _opd(rng, u, kx), _opd(rng, v, ky)]}})
    # results of a QUANTIZED type (DataVolume = DataThroughput * Duration): every operand
    # form, factors that are not multiples of the quantum
    thr, dur = siref.units_of('DataThroughput'), siref.units_of('Duration')
    qpairs = [(a, b) for a in thr for b in dur] + [(b, a) for a in thr for b in dur]
    for u, v in (qpairs if tier == 'thorough' else rng.sample(qpairs, 70)):
        kx, ky = rng.choice(['qu', 'uq', 'qq', 'uq'])
        cases.append({'dm': rng.choice(W.MODES), 'pre': True, 'script': [], 'hist': [],
                      'q': {'k': 'op', 'o': ['mul', _opd(rng, u, kx), _opd(rng, v, ky)]}})
    # the OTHER operator on the same ordered pair evaluated first (cache keys)
    for c in list(cases):
        m = c['q']['o']
        if m[0] in ('mul', 'div') and rng.random() < 0.12:
            other = ['div' if m[0] == 'mul' else 'mul', ['u', m[1][-1]], ['u', m[2][-1]]]
            cases.append(dict(c, hist=[other, other]))
    for u in (syms if tier == 'thorough' else rng.sample(syms, 25)):
        for k in range(-3, 4):
            cases.append({'dm': 'MHEVEN', 'pre': True, 'script': [], 'hist': [],
                          'q': {'k': 'op', 'o': ['pow', _opd(rng, u, rng.choice('qu')), k]}})
    for n in NUMS:
        for form in ('qn', 'nq', 'un', 'nu'):
            for o in ('mul', 'div'):
                u = rng.choice(syms)
                a = ['q', _amt(rng), u] if form[0] == 'q' or form[1] == 'q' else ['u', u]
                x, y = (a, ['n', n]) if form[1] == 'n' else (['n', n], a)
                cases.append({'dm': rng.choice(W.MODES), 'pre': True, 'script': [], 'hist': [],
                              'q': {'k': 'op', 'o': [o, x, y]}})
    # every kind of number divided by a quantity whose reciprocal type exists, with decimal
    # and non-decimal stored amounts (float / (22/7 s) used to raise ValueError: finding F20)
    inv = [u for u in syms if u not in siref.TEMPERATURE and defined(u, u, 'div')
           and w0.cls_of_dims(RW.vpow(w0.unit_value(u)[1], -1)) is not None]
    for n in NUMS:
        if F(n[1] if n[0] != 'float' else 1) == 0:
            continue
        for amt in (['frac', '22/7'], ['dec', '5/2'], ['frac', '-1/3']):
            u = rng.choice(inv)
            cases.append({'dm': rng.choice(W.MODES), 'pre': True, 'script': [], 'hist': [],
                          'q': {'k': 'op', 'o': ['div', ['n', n], ['q', amt, u]]}})
    # ... and divided by / multiplied with a UNIT: numbers without a finite decimal
    # expansion included (seeded C02-d: Fraction(1, 3) / SECOND)
    for n in NUMS + [['frac', '1/3'], ['frac', '-22/7'], ['frac', '5/6']]:
        if F(n[1] if n[0] != 'float' else 1) == 0:
            continue
        for o in ('div', 'mul'):
            u = rng.choice(inv)
            x, y = ['n', n], ['u', u]
            cases.append({'dm': rng.choice(W.MODES), 'pre': True, 'script': [], 'hist': [],
                          'q': {'k': 'op', 'o': [o, x, y] if o == 'div' else [o, y, x]}})
    for i in range(160 if tier == 'quick' else 1800):
        tag = ''.join(rng.choice('abcdefghk') for _ in range(3))
        script, w = RW.gen_world(rng, tag)
        us = list(w.order)
        # products / quotients of the reference units of the types a derived type is made of
        for c in w.classes.values():
            if c['cdef'] and len(c['cdef']) == 2 and rng.random() < 0.7:
                (ca, ea), (cb, eb) = c['cdef']
                ra, rb = w.classes[ca]['ref'], w.classes[cb]['ref']
                if ra and rb:
                    o = [rng.choice(['mul', 'div']), _opd(rng, ra, rng.choice('qu')),
                         _opd(rng, rb, rng.choice('qu'))]
                    cases.append({'dm': rng.choice(W.MODES), 'pre': False, 'script': script,
                                  'hist': [], 'q': {'k': 'op', 'o': o}})
        # the product / quotient of the two units a term-defined unit is made of
        for d in script:
            if d['d'] == 'unit' and d.get('def') and d['def'][0] == 'term' and len(d['def'][1]) == 3 \
                    and d['def'][1][0][0][0] == 'n':
                (_, (_, u1), _), (_, (_, u2), e2) = [(x, x[0], x[1]) for x in d['def'][1][1:]]
                o = ['mul' if e2 == 1 else 'div', _opd(rng, u1, rng.choice('qu')),
                     _opd(rng, u2, rng.choice('qu'))]
                if o[0] == 'div' and o[2][0] == 'q':
                    o[2][1] = _nonzero_stored(rng, w, u2)
                cases.append({'dm': rng.choice(W.MODES), 'pre': False, 'script': script,
                              'hist': [], 'q': {'k': 'op', 'o': o}})
        for _ in range(3):
            r = rng.random()
            if r < 0.2:
                o = ['pow', _opd(rng, rng.choice(us), rng.choice('qu')), rng.choice([-2, -1, 0, 1, 2, 3])]
                if o[2] < 0 and o[1][0] == 'q':
                    # 0 ** -k raises different exceptions in Decimal and Fraction (dependency):
                    # keep the stored amount away from zero whatever the quantum
                    o[1][1] = _nonzero_stored(rng, w, o[1][2])
            elif r < 0.3:
                n = rng.choice(NUMS)
                a = _opd(rng, rng.choice(us), rng.choice('qu'))
                o = [rng.choice(['mul', 'div'])] + rng.choice([[a, ['n', n]], [['n', n], a]])
            else:
                o = [rng.choice(['mul', 'div']), _opd(rng, rng.choice(us), rng.choice('qu')),
                     _opd(rng, rng.choice(us), rng.choice('qu'))]
            hist = []
            if o[0] in ('mul', 'div') and o[1][0] in 'qu' and o[2][0] in 'qu' and rng.random() < 0.3:
                hist = [['div' if o[0] == 'mul' else 'mul', ['u', o[1][-1]], ['u', o[2][-1]]]]
            cases.append({'dm': rng.choice(W.MODES), 'pre': False, 'script': script, 'hist': hist,
                          'q': {'k': 'op', 'o': o}})
        # an operation that is undefined, tried, then the missing type is declared and
        # the operation tried again (seeded C02-e: "no unit for this term" remembered)
        n_late = 0
        for _ in range(12):
            if n_late >= 2:
                break
            if rng.random() < 0.25:
                o = ['pow', _opd(rng, rng.choice(us), rng.choice('qu')), rng.choice([2, 3, -1])]
                if o[2] < 0 and o[1][0] == 'q':
                    o[1][1] = _nonzero_stored(rng, w, o[1][2])
            else:
                o = [rng.choice(['mul', 'div']), _opd(rng, rng.choice(us), rng.choice('qu')),
                     _opd(rng, rng.choice(us), rng.choice('qu'))]
            if expected(w, 'MHEVEN', o)[0] != 'undef':
                continue
            # only types with reference units throughout (units of a type without one do
            # not cancel against each other: definedness is then a matter of declared units)
            if not all(w.classes[b]['ref'] for x in o[1:] if isinstance(x, list) and x[0] != 'n'
                       for b in w.classes[w.units[x[-1]]['cls']]['dims']):
                continue
            dims = _result_dims(w, o)
            if dims and RW.vkey(dims) not in w.by_dims and all(w.classes[c]['ref'] for c in dims):
                late = [{'d': 'cls', 'name': f"L{tag}{n_late}",
                         'def': [[c, e] for c, e in sorted(dims.items())],
                         'ref': None, 'quantum': None}]
                cases.append({'dm': rng.choice(W.MODES), 'pre': False, 'script': script,
                              'hist': [o], 'late': late, 'q': {'k': 'op', 'o': o}})
                n_late += 1
    # a result type WITHOUT reference unit: the product / quotient of two units is undefined
    # until a UNIT for it is declared (derive_unit_from); tried before, it must succeed after
    # ("raises precisely when no declared unit corresponds"; seeded C02-j: failed look-ups
    # remembered and forgotten only when a TYPE is declared).  Drawn last, so that the
    # families above keep their random streams.
    for i in range(10 if tier == 'quick' else 120):
        tag = ''.join(rng.choice('abcdefghk') for _ in range(3)) + 'j'
        e1 = rng.choice([1, -1])
        script = [
            {'d': 'cls', 'name': f"A{tag}", 'def': None, 'ref': None, 'quantum': None},
            {'d': 'unit', 'cls': f"A{tag}", 'sym': f"{tag}a1", 'def': None},
            {'d': 'unit', 'cls': f"A{tag}", 'sym': f"{tag}a2", 'def': None},
            {'d': 'cls', 'name': f"B{tag}", 'def': None, 'ref': f"{tag}b", 'quantum': None},
            {'d': 'unit', 'cls': f"B{tag}", 'sym': f"{tag}kb", 'def': ['qty', ['int', '1000/1'], f"{tag}b"]},
            {'d': 'cls', 'name': f"V{tag}", 'def': [[f"A{tag}", 1], [f"B{tag}", e1]], 'ref': None,
             'quantum': None},
            {'d': 'derive', 'cls': f"V{tag}", 'units': [f"{tag}a2", f"{tag}b"], 'sym': None},
        ]
        ua, ub = f"{tag}a1", rng.choice([f"{tag}b", f"{tag}kb"])
        o = ['mul' if e1 > 0 else 'div', _opd(rng, ua, rng.choice('qu')),
             _opd(rng, ub, rng.choice('qu'))]
        if o[2][0] == 'q' and o[0] == 'div':
            o[2][1] = ['dec', '5/2']                       # no zero divisor
        late = [{'d': 'derive', 'cls': f"V{tag}", 'units': [ua, f"{tag}b"], 'sym': None}]
        cases.append({'dm': rng.choice(W.MODES), 'pre': False, 'script': script,
                      'hist': [o] * rng.choice([1, 2]), 'late': late, 'q': {'k': 'op', 'o': o}})
    return cases


def _result_dims(w, o):
    """dimension (over base classes) of the result of a unit-level op, or None"""
    if o[0] not in ('mul', 'div', 'pow'):
        return None
    def dims(opd):
        if opd[0] == 'n':
            return {}
        return w.classes[w.units[opd[-1]]['cls']]['dims']
    if o[0] == 'pow':
        return RW.vpow(dims(o[1]), o[2])
    return RW.vmul(dims(o[1]), RW.vpow(dims(o[2]), 1 if o[0] == 'mul' else -1))


# ------------------------------------------------------------------ oracle

_SI_CHECKED = []


def _check_si(w):
    """the reference bookkeeping of the predefined catalogue must agree with
    the independent SI table"""
    if _SI_CHECKED:
        return _SI_CHECKED[0]
    msg = None
    for sym, (cls, sc) in siref.REF.items():
        if sym not in w.units:
            msg = f"predefined unit {sym} missing"
        elif w.units[sym]['cls'] != cls or w.scale(sym) != sc:
            msg = (f"catalogue: {sym} has scale {w.scale(sym)} in {w.units[sym]['cls']}, "
                   f"SI reference says {sc} in {cls}")
    _SI_CHECKED.append(msg)
    return msg


_DM = ["MHEVEN"]


def _val(w, opd):
    """(exact factor, dims over base units) of an operand; numbers have no dims"""
    if opd[0] == 'n':
        _val.uf = F(1)
        return num_value(opd[1]), {}
    sym = opd[2] if opd[0] == 'q' else opd[1]
    f, d = w.unit_value(sym)
    _val.uf = f            # factor of the unit alone (what the directory is asked for)
    a = num_value(opd[1]) if opd[0] == 'q' else F(1)
    if opd[0] == 'q':
        # the operand is built as number * unit: a quantized type stores it rounded
        qu = w.unit_quantum(sym)
        if qu is not None:
            a = to_quantum(_DM[0], a, qu)
    return a * f, d


def expected(w, dm, m):
    """what the property prescribes: ('num', v) | ('qty', cls, value, dims) |
    ('undef',) | ('zerodiv',) | ('pair', value, dims) | ('skip', why)"""
    if m[0] == 'pow':
        x, k = m[1], m[2]
        if x[0] == 'n':
            return ('skip', 'number ** k')
        f, d = _val(w, x)
        ufx = _val.uf
        if k == 0:
            return ('num', F(1))
        if f == 0 and k < 0:
            # the unit is raised first: an undefined power is reported first
            if w.cls_of_dims(RW.vpow(d, k)) is None:
                return ('undef',)
            return ('zerodiv',)
        return ('dim', f ** k, RW.vpow(d, k), ufx ** k)
    x, y = m[1], m[2]
    fx, dx = _val(w, x)
    ufx = _val.uf
    fy, dy = _val(w, y)
    ufy = _val.uf
    if x[0] == 'n' and y[0] == 'n':
        return ('skip', 'numbers')
    for o in (x, y):
        if o[0] in 'qu':
            s = o[2] if o[0] == 'q' else o[1]
            u = w.units[s]
            if u['base'] and w.classes[u['cls']]['ref'] not in (None, s):
                return ('skip', 'unit without definition in a type with reference unit')
    if m[0] == 'mul':
        return ('dim', fx * fy, RW.vmul(dx, dy), ufx * ufy)
    if fy == 0:
        if y[0] == 'n':
            return ('zerodiv',)
        # the units are divided (resp. the unit is inverted) first: an undefined
        # result is reported before the division of the amounts
        dd = RW.vmul(dx, RW.vpow(dy, -1))
        same = x[0] in 'qu' and y[0] in 'qu' and \
            w.units[x[2] if x[0] == 'q' else x[1]]['cls'] == w.units[y[2] if y[0] == 'q' else y[1]]['cls']
        if same:
            sx = x[2] if x[0] == 'q' else x[1]
            sy = y[2] if y[0] == 'q' else y[1]
            if sx != sy and (w.scale(sx) is None or w.scale(sy) is None):
                return ('noconv',)
        if dd and not same:
            c = w.cls_of_dims(dd)
            if c is None or (w.classes[c]['ref'] is None and w.find_by_value(F(1), dd) is None):
                return ('undef',)
        return ('zerodiv',)
    if x[0] in 'qu' and y[0] in 'qu':
        sx = x[2] if x[0] == 'q' else x[1]
        sy = y[2] if y[0] == 'q' else y[1]
        if w.units[sx]['cls'] == w.units[sy]['cls'] and sx != sy and \
                (w.scale(sx) is None or w.scale(sy) is None):
            return ('noconv',)
    return ('dim', fx / fy, RW.vmul(dx, RW.vpow(dy, -1)), ufx / ufy)


def oracle(case, r):
    if case.get('late'):
        for s in r.get('late', []):
            if s is not None:
                return f"a declaration after the first attempt was rejected: {s}"
        case = dict(case, script=case['script'] + case['late'], late=[])
    w, _ = RW.replay(case)
    if case.get('pre'):
        msg = _check_si(w)
        if msg:
            return msg
    for s in r['steps']:
        if s is not None:
            return f"a declaration of the catalogue was rejected: {s}"
    m = case['q']['o']
    res = r['res']
    dm = case['dm']
    _DM[0] = dm
    exp = expected(w, dm, m)
    what = f"{m}"
    if res.get('float'):
        return f"{what}: inexact float in the result {res}"
    if exp[0] == 'skip':
        return None
    if exp[0] == 'undef':
        return None if res['k'] == 'err' and res['e'] == 'EUndefinedResult' else \
            f"{what}: no declared type for the quotient, expected UndefinedResultError, got {res}"
    if exp[0] == 'zerodiv':
        return None if res['k'] == 'err' and res['e'] == 'EZeroDivision' else \
            f"{what}: division by zero gave {res}"
    if exp[0] == 'noconv':
        return None if res['k'] == 'err' and res['e'] == 'EUnitConversion' else \
            f"{what}: units of one type without common scale gave {res}"
    if exp[0] == 'num':
        return None if res['k'] == 'num' and F(res['v']) == exp[1] else \
            f"{what}: expected the plain number {exp[1]}, got {res}"
    _, value, dims, ufactor = exp
    n_units = sum(1 for o in m[1:] if isinstance(o, list) and o[0] in 'qu')
    both_units = all(isinstance(o, list) and o[0] == 'u' for o in m[1:3]) and m[0] != 'pow'
    if not dims:
        if both_units:
            ok = res['k'] == 'pair' and res['u'] is None and F(res['f']) == value
        else:
            ok = res['k'] == 'num' and F(res['v']) == value
        return None if ok else f"{what}: dimensions cancel, expected the plain number {value}, got {res}"
    cls = w.cls_of_dims(dims)
    # units of a type WITHOUT reference unit do not cancel against each other (EUR/USD):
    # there the result is defined exactly when a declared unit corresponds to it
    refless = [s for s in dims if w.classes[w.units[s]['cls']]['ref'] is None]
    if refless and n_units == 2:
        found = w.find_by_value(ufactor, dims) or w.find_by_value(F(1), dims)
        if found is None:
            return None if res['k'] == 'err' and res['e'] == 'EUndefinedResult' else \
                f"{what}: no declared unit has the definition {dims}, expected UndefinedResultError, got {res}"
        cls = w.units[found]['cls']
    if cls is None:
        return None if res['k'] == 'err' and res['e'] == 'EUndefinedResult' else \
            f"{what}: no declared type has dimension {dims}, expected UndefinedResultError, got {res}"
    if w.classes[cls]['ref'] is None and res['k'] == 'err' and res['e'] == 'EUndefinedResult':
        # type without reference unit: defined only if a unit with that definition exists
        if w.find_by_value(ufactor, dims) is None and w.find_by_value(F(1), dims) is None:
            return None
        return f"{what}: a unit for {dims} is declared but UndefinedResultError was raised"
    if both_units:
        if res['k'] != 'pair' or res['u'] is None:
            return f"{what}: expected (factor, unit), got {res}"
        uf, ud = w.unit_value(res['u'])
        if ud != dims or F(res['f']) * uf != value or w.units[res['u']]['cls'] != cls:
            return (f"{what}: ({res['f']}, {res['u']}) does not denote value {value} "
                    f"of dimension {dims} / type {cls}")
        return None
    if res['k'] != 'qty':
        return f"{what}: expected a {cls}, got {res}"
    if res['sym'] not in w.units:
        return f"{what}: result unit {res['sym']} unknown"
    uf, ud = w.unit_value(res['sym'])
    if res['cls'] != cls or w.units[res['sym']]['cls'] != cls or ud != dims:
        return f"{what}: result {res} is not of the type {cls} with dimension {dims}"
    exact = value / uf
    qu = w.unit_quantum(res['sym'])
    want = exact if qu is None else to_quantum(dm, exact, qu)
    if F(res['amt']) != want:
        return (f"{what}: exact value {value} base units = {exact} {res['sym']}"
                f"{'' if qu is None else f' rounded once to {want} (quantum {qu}, {dm})'}, got {res['amt']}")
    if n_units == 1 and m[0] != 'pow':
        # number operand: type and unit kept
        o = [o for o in m[1:] if o[0] in 'qu'][0]
        s = o[2] if o[0] == 'q' else o[1]
        if not (m[0] == 'div' and m[1][0] == 'n') and res['sym'] != s:
            return f"{what}: scaling by a number changed the unit to {res['sym']}"
    return None


def labels(case, r):
    m = case['q']['o']
    kinds = ''.join(o[0] for o in m[1:] if isinstance(o, list))
    res = r['res']
    return ['op=' + m[0], 'operands=' + kinds,
            'world=' + ('predefined' if case.get('pre') else 'user'),
            'result=' + (res['e'] if res['k'] == 'err' else res['k'])]


def nontrivial_key(case, r):
    m = case['q']['o']
    us = [o[2] if o[0] == 'q' else o[1] for o in m[1:] if isinstance(o, list) and o[0] in 'qu']
    if m[0] != 'pow' and (len(us) < 2 or us[0] == us[1]):
        return None
    return (str(m), '' if case.get('pre') else str(case['script']))
