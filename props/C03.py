"""C03 — addition, subtraction and comparison never mix quantity types."""
import itertools
from fractions import Fraction as F

from vlib import siref, world as W, qtyops as Q
from vlib.qtyops import frs, num_value
from vlib.pyround import to_quantum

PID = 'C03'
PROPERTY_FILE = 'Properties/C03.v'
# generated model parts (translate/) this property's model / proofs really depend on
GEN_DEPS = ['QuantityImpl']
MODEL_TARGETS = Q.MODEL_TARGETS
PROOF_TARGETS = ['Proofs/GenQuantityEq.vo', 'Proofs/C03C04Proofs.vo']
COQ_HEADER = Q.COQ_HEADER
COQ_CHECK = Q.COQ_CHECK
ISOLATE = True
impl_run = Q.impl_run
coq_case = Q.coq_case
coq_model_term = Q.coq_model_term
RULE = ("all ordered pairs of the 14 predefined types x {+,-,<,<=,>,>=,==,!=} "
        "(mixed types); quantity-vs-number in both orders for int, float, "
        "Decimal, Fraction, decimal.Decimal, bool; all ordered unit pairs within "
        "each type x {+,-} with random exact amounts (temperature included, via "
        "its table converter); sum() of 2-5 quantities in mixed units; neg/abs; "
        "scalar multiplication; user-declared quantized and unquantized types. "
        "non-trivial = two operands of different unit, type or kind; distinct by "
        "(op, operands).")
# decimal.Decimal is accepted by the constructor but is not a numbers.Real, so
# `quantity * decimal.Decimal(..)` is a TypeError by design: not used as scalar.
ASSUMPTIONS = ["unit views are independent of the library (siref / declaration script)",
               "Python's operator dispatch (NotImplemented -> reflected method -> "
               "TypeError) is modelled by op_addsub/op_cmp/op_eq"]
EXHAUSTIVE = {}
EXHAUSTIVE_NOTE = "ordered pairs of the 14 predefined types x 8 operators: complete in both tiers"

OPS = ['add', 'sub', 'lt', 'le', 'gt', 'ge', 'eq', 'ne']
AMOUNTS = [F(0), F(1), F(-1), F(1, 3), F(-7, 3), F(10) ** 20, F(10) ** -20,
           F(254, 100), F(22, 7), F(5, 8), F(123456789, 1000), F(-3, 2)]
NUMS = [['int', '3/1'], ['int', '0/1'], ['float', (0.1).hex()], ['float', (2.5).hex()],
        ['dec', '5/4'], ['frac', '2/3'], ['stddec', '7/10'], ['bool', '1'],
        ['int', '-2/1'], ['float', (1e300).hex()]]


def _amount(rng, quantum=None):
    a = rng.choice(AMOUNTS)
    kind = 'dec' if (W.is_decimal(a) and rng.random() < 0.6) else 'frac'
    return [kind, frs(a)]


def gen_cases(rng, tier):
    cases = []
    pre = {'predefined': True}
    types = list(siref.DIM)
    unit_of = {c: (siref.units_of(c) if c != 'Temperature' else list(siref.TEMPERATURE))
               for c in types}
    for c1, c2 in itertools.permutations(types, 2):
        for o in (OPS if tier == 'thorough' else rng.sample(OPS, 3)):
            cases.append({'world': pre, 'dm': 'MHEVEN', 'op': {
                'o': o, 'x': ['q', _amount(rng), rng.choice(unit_of[c1])],
                'y': ['q', _amount(rng), rng.choice(unit_of[c2])]}})
    allsyms = sorted(siref.REF) + list(siref.TEMPERATURE)
    for n in NUMS:
        for o in OPS:
            for order in (0, 1):
                q = ['q', _amount(rng), rng.choice(allsyms)]
                x, y = (q, ['n', n]) if order == 0 else (['n', n], q)
                cases.append({'world': pre, 'dm': 'MHEVEN', 'op': {'o': o, 'x': x, 'y': y}})
    for c in types:
        us = unit_of[c]
        pairs = list(itertools.product(us, us))
        if tier == 'quick':
            pairs = rng.sample(pairs, min(len(pairs), 40))
        for u, v in pairs:
            for o in ('add', 'sub'):
                cases.append({'world': pre, 'dm': rng.choice(W.MODES), 'op': {
                    'o': o, 'x': ['q', _amount(rng), u], 'y': ['q', _amount(rng), v]}})
        for _ in range(6 if tier == 'quick' else 60):
            xs = [['q', _amount(rng), rng.choice(us)] for _ in range(rng.randint(2, 5))]
            cases.append({'world': pre, 'dm': 'MHEVEN', 'op': {'o': 'sum', 'xs': xs}})
            cases.append({'world': pre, 'dm': 'MHEVEN', 'op': {
                'o': rng.choice(['neg', 'abs']), 'x': ['q', _amount(rng), rng.choice(us)]}})
            cases.append({'world': pre, 'dm': rng.choice(W.MODES), 'op': {
                'o': rng.choice(['muln', 'rmuln', 'divn']),
                'x': ['q', _amount(rng), rng.choice(us)],
                'k': rng.choice([n for n in NUMS if num_value(n) != 0
                                 and n[0] != 'stddec'])}})
    # augmented assignment: the same results as + and -, and the left operand's object is
    # never mutated (seeded C03-h)
    for c in types:
        us = unit_of[c]
        for _ in range(2 if tier == 'quick' else 12):
            cases.append({'world': pre, 'dm': rng.choice(W.MODES), 'op': {
                'o': rng.choice(['iadd', 'isub']), 'x': ['q', _amount(rng), rng.choice(us)],
                'y': ['q', _amount(rng), rng.choice(us)]}})
    # quantity.sum with a start value: a quantity (added first), a plain number (TypeError,
    # zero included: seeded C03-f), another type's quantity
    zeros = [['int', '0/1'], ['float', (0.0).hex()], ['dec', '0/1'], ['frac', '0/1'], ['bool', '0']]
    for c in types:
        us = unit_of[c]
        for st in [['n', z] for z in zeros] + [['n', ['int', '5/1']], ['n', ['dec', '5/4']]]:
            xs = [['q', _amount(rng), rng.choice(us)] for _ in range(rng.randint(1, 3))]
            cases.append({'world': pre, 'dm': 'MHEVEN', 'op': {'o': 'sum', 'xs': xs, 'start': st}})
        xs = [['q', _amount(rng), rng.choice(us)] for _ in range(rng.randint(1, 3))]
        cases.append({'world': pre, 'dm': 'MHEVEN',
                      'op': {'o': 'sum', 'xs': xs, 'start': ['q', _amount(rng), rng.choice(us)]}})
    # a ZERO quantity and a ZERO number are still not equal and do not add (seeded C03-g, C03-e)
    for z in zeros:
        for zq in (['dec', '0/1'], ['frac', '0/1']):
            for o in OPS:
                for order in (0, 1):
                    q = ['q', zq, rng.choice(allsyms)]
                    x, y = (q, ['n', z]) if order == 0 else (['n', z], q)
                    cases.append({'world': pre, 'dm': 'MHEVEN', 'op': {'o': o, 'x': x, 'y': y}})
    for _ in range(250 if tier == 'quick' else 4000):
        world = W.random_world(rng, n_classes=2)
        views = W.Views(world)
        syms = sorted(views.units)
        u = rng.choice(syms)
        same = [s for s in syms if views.units[s]['cls'] == views.units[u]['cls']]
        v = rng.choice(same if rng.random() < 0.8 else syms)
        o = rng.choice(['add', 'sub', 'add', 'sub', 'sum', 'neg', 'muln', 'eq', 'lt'])
        if o == 'sum':
            op = {'o': 'sum', 'xs': [['q', _amount(rng), rng.choice(same)]
                                     for _ in range(rng.randint(2, 4))]}
        elif o == 'neg':
            op = {'o': 'neg', 'x': ['q', _amount(rng), u]}
        elif o == 'muln':
            op = {'o': 'muln', 'x': ['q', _amount(rng), u], 'k': rng.choice(NUMS[:6])}
        else:
            op = {'o': o, 'x': ['q', _amount(rng), u], 'y': ['q', _amount(rng), v]}
        cases.append({'world': world, 'dm': rng.choice(W.MODES), 'op': op})
    return cases


def _exp_amount(views, dm, sym, exact):
    qu = views.units[sym]['quantum']
    return exact if qu is None else to_quantum(dm, exact, qu)


def oracle(case, r):
    views = W.Views(case['world'])
    op = case['op']
    o = op['o']
    res = r['res']
    dm = case['dm']
    if o in ('iadd', 'isub'):
        if r.get('unchanged') is False:
            return (f"{o}: `t = x; t {'+' if o == 'iadd' else '-'}= y` changed the object x refers to "
                    f"(quantities are values)")
        o = 'add' if o == 'iadd' else 'sub'
    if o in OPS:
        x, y = op['x'], op['y']
        if x[0] == 'n' or y[0] == 'n':
            if x[0] == 'n' and y[0] == 'n':
                return None
            if o == 'eq':
                return None if res == {'k': 'bool', 'v': False} else f"quantity == number gave {res}"
            if o == 'ne':
                return None if res == {'k': 'bool', 'v': True} else f"quantity != number gave {res}"
            return None if Q.is_err(res, 'ETypeError') else \
                f"quantity {o} number did not raise TypeError: {res}"
        ux, uy = views.units[x[2]], views.units[y[2]]
        if ux['cls'] != uy['cls']:
            if o == 'eq':
                return None if res == {'k': 'bool', 'v': False} else f"mixed-type == gave {res}"
            if o == 'ne':
                return None if res == {'k': 'bool', 'v': True} else f"mixed-type != gave {res}"
            return None if Q.is_err(res, 'EIncompatibleUnits') else \
                f"mixed-type {o} did not raise IncompatibleUnitsError: {res}"
        if ux['scale'] is None or uy['scale'] is None or o not in ('add', 'sub'):
            return None
        a, b = F(r['ops'][0]['amt']), F(r['ops'][1]['amt'])
        bb = b * uy['scale'] / ux['scale']
        exact = a + bb if o == 'add' else a - bb
        exp = _exp_amount(views, dm, x[2], exact)
        if not Q.is_qty(res, ux['clsname'], x[2]) or F(res['amt']) != exp:
            return f"{o}: expected {exp} {x[2]}, got {res}"
        if exp != exact:
            return f"{o}: on-grid operands gave an off-grid exact result {exact} (quantum {ux['quantum']})"
        return None
    if o == 'sum' and 'start' in op and op['start'][0] != 'q':
        # sum(quantities, plain number): number + quantity, a TypeError whatever the number
        return None if Q.is_err(res, 'ETypeError') else \
            f"sum with a plain-number start value {op['start'][1]} did not raise TypeError: {res}"
    if o == 'sum':
        xs_all = ([op['start']] if 'start' in op else []) + op['xs']
        op = dict(op, xs=xs_all)
        us = [views.units[s[2]] for s in op['xs']]
        if any(u['scale'] is None for u in us) or len({u['cls'] for u in us}) != 1:
            return None
        tot = sum(F(ob['amt']) * u['scale'] for ob, u in zip(r['ops'], us)) / us[0]['scale']
        if not Q.is_qty(res, us[0]['clsname'], op['xs'][0][2]) or F(res['amt']) != tot:
            return f"sum: expected {tot} {op['xs'][0][2]}, got {res}"
        return None
    if o in ('neg', 'abs'):
        a = F(r['ops'][0]['amt'])
        exp = -a if o == 'neg' else abs(a)
        u = views.units[op['x'][2]]
        if not Q.is_qty(res, u['clsname'], op['x'][2]) or F(res['amt']) != exp:
            return f"{o}: expected {exp}, got {res}"
        return None
    if o in ('muln', 'rmuln', 'divn'):
        a = F(r['ops'][0]['amt'])
        k = num_value(op['k'])
        exact = a / k if o == 'divn' else a * k
        u = views.units[op['x'][2]]
        exp = _exp_amount(views, dm, op['x'][2], exact)
        if not Q.is_qty(res, u['clsname'], op['x'][2]) or F(res['amt']) != exp:
            return f"{o} by {op['k']}: expected {exp} {op['x'][2]}, got {res}"
        return None
    return None


def labels(case, r):
    op = case['op']
    out = ['op=' + op['o'],
           'world=' + ('predefined' if case['world'].get('predefined') else 'user'),
           'result=' + (r['res']['e'] if r['res']['k'] == 'err' else r['res']['k'])]
    for side in ('x', 'y'):
        if side in op and op[side][0] == 'n':
            out.append('number-kind=' + op[side][1][0])
    return out


def nontrivial_key(case, r):
    op = case['op']
    if op['o'] in OPS:
        if op['x'][0] == 'q' and op['y'][0] == 'q' and op['x'][2] == op['y'][2]:
            return None
    return str(op) + ('' if case['world'].get('predefined') else str(case['world']))
