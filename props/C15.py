"""C15 — directory coherence: unique symbols, own type, definitions mean what they say."""
from fractions import Fraction as F

from vlib import world as W, regops as R, regworld as RW
from vlib.qtyops import num_value, frs

PID = 'C15'
PROPERTY_FILE = 'Properties/C15.v'
# generated model parts (translate/) this property's model / proofs really depend on
GEN_DEPS = ['StateInventory', 'EffectsImpl']
MODEL_TARGETS = R.MODEL_TARGETS
PROOF_TARGETS = ['Proofs/C15Proofs.vo', 'Proofs/C02Dim.vo']
COQ_HEADER = R.COQ_HEADER
COQ_CHECK = R.COQ_CHECK
ISOLATE = True
SHARD = 300
impl_run = R.impl_run
coq_case = R.coq_case
coq_model_term = R.coq_model_term
RULE = ("random declaration histories of 4-22 steps (base and derived types with / without "
        "reference unit and quantum, scaled units, term-defined units, units derived from "
        "base-type units, units without definition; about 30 % deliberately invalid steps: "
        "duplicate / empty symbol, dimension already taken, definition of another type or "
        "dimension, wrong number or type of base units, quantum without reference unit, "
        "cancelling definition) followed by ALL directory queries: Unit(sym) for every symbol "
        "ever mentioned (identity and type), cls.units() of every type incl. the base type "
        "Quantity, the generic factory on '1 sym', and Quantity(number, unit) / cls(number, "
        "unit) for a unit; the predefined catalogue as a history.  The outcome of every step "
        "and the final directory are compared with the model and, by the oracle, with the "
        "harness' own bookkeeping; unit scales are checked through conversion to the "
        "reference unit.  non-trivial = the history contains a rejected step or a derived "
        "type; distinct by script.")
ASSUMPTIONS = R.ASSUMPTIONS if hasattr(R, 'ASSUMPTIONS') else [
    "normalised definitions are represented by their denotation (C07)",
    "generated symbols are computed by the harness' own formatter"]
EXHAUSTIVE = {}


def _dirq(w, script, extra_syms=()):
    syms = []
    for d in script:
        for k in ('sym', 'ref'):
            if d.get(k):
                syms.append(d[k])
    syms += list(w.order) + list(extra_syms)
    syms = sorted(set(syms)) + ['nosuchsymbol']
    clss = sorted(n for n in w.classes)
    return {'k': 'dir', 'syms': syms, 'clss': clss}


def gen_cases(rng, tier):
    cases = []
    n = 260 if tier == 'quick' else 4000
    for i in range(n):
        tag = ''.join(rng.choice('abcdefghk') for _ in range(3))
        script, w, exp = RW.gen_history(rng, tag)
        r = rng.random()
        if r < 0.45 or not w.order:
            q = _dirq(w, script)
        elif r < 0.7:
            q = {'k': 'scales', 'syms': list(w.order)}
        else:
            u = rng.choice(w.order)
            via = rng.choice([None, w.units[u]['cls'],
                              rng.choice(sorted(c for c in w.classes if c != 'Quantity'))])
            q = {'k': 'mk', 'n': rng.choice([['int', '3/1'], ['frac', '1/3'], ['dec', '5/4']]),
                 'u': u, 'via': via}
        cases.append({'dm': rng.choice(W.MODES), 'pre': False, 'script': script, 'hist': [], 'q': q})
    # a type declared as a Python SUB-CLASS of a concrete quantity type is a separate type:
    # its units are not units of the parent and vice versa (seeded change C15-c)
    for i in range(40 if tier == 'quick' else 400):
        tag = ''.join(rng.choice('abcdefghk') for _ in range(3))
        script, w, exp = RW.gen_history(rng, tag)
        parents = [c for c, v in w.classes.items() if c != 'Quantity' and c != 'Money'
                   and not v['cdef'] and v['ref'] and v['quantum'] is None]
        if not parents:
            continue
        par = rng.choice(parents)
        sub = {'d': 'cls', 'name': 'S' + tag, 'def': None, 'ref': 's' + tag + 'r', 'quantum': None,
               'base': par}
        su = {'d': 'unit', 'cls': 'S' + tag, 'sym': 's' + tag + 'u',
              'def': ['qty', ['int', '12/1'], 's' + tag + 'r']}
        script = script + [sub, su]
        w.apply(sub), w.apply(su)
        pu = rng.choice(w.classes[par]['units'])
        for u, via in ((su['sym'], par), (pu, sub['name']), (su['sym'], sub['name']),
                       (sub['ref'], None), (sub['ref'], par)):
            cases.append({'dm': 'MHEVEN', 'pre': False, 'script': script, 'hist': [],
                          'q': {'k': 'mk', 'n': ['int', '3/1'], 'u': u, 'via': via}})
        cases.append({'dm': 'MHEVEN', 'pre': False, 'script': script, 'hist': [],
                      'q': _dirq(w, script)})
    # a unit given by a term that mentions one type through two DIFFERENT units
    # (mi/(h*s), kW*h/d): its scale is the product of the units' scales (seeded C01-h)
    for i in range(16 if tier == 'quick' else 160):
        tag = ''.join(rng.choice('abcdefghk') for _ in range(3))
        e = rng.choice([-2, 2, -3])
        sg = 1 if e > 0 else -1
        fa, fb1, fb2 = rng.sample(['1609344/1000', '3600/1', '60/1', '1000/1', '1/1000', '86400/1'], 3)
        script = [
            {'d': 'cls', 'name': f"A{tag}", 'def': None, 'ref': f"{tag}a", 'quantum': None},
            {'d': 'unit', 'cls': f"A{tag}", 'sym': f"{tag}a1", 'def': ['qty', ['frac', fa], f"{tag}a"]},
            {'d': 'cls', 'name': f"B{tag}", 'def': None, 'ref': f"{tag}b", 'quantum': None},
            {'d': 'unit', 'cls': f"B{tag}", 'sym': f"{tag}b1", 'def': ['qty', ['frac', fb1], f"{tag}b"]},
            {'d': 'unit', 'cls': f"B{tag}", 'sym': f"{tag}b2", 'def': ['qty', ['frac', fb2], f"{tag}b"]},
            {'d': 'cls', 'name': f"D{tag}", 'def': [[f"A{tag}", 1], [f"B{tag}", e]], 'ref': None,
             'quantum': None},
        ]
        items = [[['u', f"{tag}a1"], 1], [['u', f"{tag}b1"], e - sg], [['u', rng.choice([f"{tag}b2", f"{tag}b"])], sg]]
        if rng.random() < 0.5:
            items.insert(0, [['n', ['frac', rng.choice(['1/2', '10/1', '3/1'])]], 1])
        script.append({'d': 'unit', 'cls': f"D{tag}", 'sym': f"{tag}t", 'def': ['term', items]})
        w = RW.RefWorld()
        if any(w.apply(d) is not None for d in script):
            continue
        cases.append({'dm': 'MHEVEN', 'pre': False, 'script': script, 'hist': [],
                      'q': {'k': 'scales', 'syms': list(w.order)}})
    # symbols made of blanks only are symbols like any other (not the empty symbol): the unit
    # is found under exactly that symbol, '' stays unknown (seeded C15-f: symbol.strip())
    for i in range(12 if tier == 'quick' else 120):
        tag = ''.join(rng.choice('abcdefghk') for _ in range(3))
        script, w, exp = RW.gen_history(rng, tag)
        bases = [c for c, v in w.classes.items() if c not in ('Quantity', 'Money')
                 and not v['cdef'] and v['ref'] and v['quantum'] is None]
        if not bases:
            continue
        b = rng.choice(bases)
        extra = [{'d': 'unit', 'cls': b, 'sym': blank,
                  'def': ['qty', ['int', f'{k}/1'], w.classes[b]['ref']]}
                 for k, blank in ((3, ' '), (5, '  '))]
        script = script + extra
        for d in extra:
            w.apply(d)
        cases.append({'dm': 'MHEVEN', 'pre': False, 'script': script, 'hist': [],
                      'q': _dirq(w, script, extra_syms=['', ' ', '  ', '   '])})
    # the predefined catalogue as a history + further declarations on top of it
    syms = None
    for i in range(6 if tier == 'quick' else 40):
        w, _ = RW.replay({'dm': 'MHEVEN', 'pre': True, 'script': []})
        late = []
        if i:
            late = [{'d': 'unit', 'cls': 'Length', 'sym': f'xl{i}', 'def': ['qty', ['dec', '1/8'], 'in']},
                    {'d': 'cls', 'name': f'XArea{i}', 'def': [['Length', 2]], 'ref': f'xa{i}', 'quantum': None},
                    {'d': 'unit', 'cls': 'Mass', 'sym': 'kg', 'def': ['qty', ['int', '2/1'], 'g']},
                    {'d': 'derive', 'cls': 'Velocity', 'units': ['mi', 's'], 'sym': None}]
            late = late[:rng.randint(1, 4)]
        for d in late:
            w.apply(d)
        cases.append({'dm': 'MHEVEN', 'pre': True, 'script': late, 'hist': [],
                      'q': _dirq(w, late)})
    return cases


def oracle(case, r):
    w, exp = RW.replay(case)
    for i, (e, s) in enumerate(zip(exp, r['steps'])):
        got = None if s is None else s['e']
        if e != got:
            return (f"step {i} {case['script'][i]}: the property prescribes "
                    f"{'acceptance' if e is None else e}, the library "
                    f"{'accepted it' if got is None else 'raised ' + s['py']}")
    q, res = case['q'], r['res']
    if q['k'] == 'dir':
        for s, ob, ps in zip(q['syms'], res['us'], res['parse']):
            if s in w.units:
                if ob is None:
                    return f"unit {s!r} was declared but Unit({s!r}) does not find it"
                if ob[0] != s or ob[1] != w.units[s]['cls'] or not ob[2]:
                    return f"Unit({s!r}) gives {ob}, declared for type {w.units[s]['cls']}"
                if ps != w.units[s]['cls'] and ' ' not in s.strip() and s == s.strip():
                    return (f"Quantity('1 {s}') is a {ps}, the unit was created for "
                            f"{w.units[s]['cls']}")
            else:
                if ob is not None:
                    return f"symbol {s!r} was never successfully declared but Unit finds {ob}"
                if ps not in ('EQuantityError',):
                    return f"Quantity('1 {s}') for an undeclared symbol gives {ps}"
        for c, ob in zip(q['clss'], res['cs']):
            want = w.classes[c]['units']
            if ob is None or list(ob) != list(want):
                return f"{c}.units() lists {ob}, declared for it: {want}"
        return None
    if q['k'] == 'scales':
        for s, ob in zip(q['syms'], res['v']):
            c = w.classes[w.units[s]['cls']]
            want = None if c['quantum'] is not None else w.scale(s)
            got = None if ob is None else F(ob)
            if got != want:
                return (f"unit {s!r} of {c['name']}: scale {got} relative to the reference unit "
                        f"{c['ref']!r}, its definition denotes {want}")
        return None
    if q['k'] == 'mk':
        u = w.units[q['u']]
        if q.get('via') and q['via'] != u['cls']:
            return None if res['k'] == 'err' and res['e'] == 'EQuantityError' else \
                f"{q['via']}(number, {q['u']}) for a unit of {u['cls']} gave {res}"
        if res['k'] != 'qty' or res['cls'] != u['cls'] or res['sym'] != q['u']:
            return f"quantity built from a number and unit {q['u']} of {u['cls']}: {res}"
    return None


def labels(case, r):
    out = ['query=' + case['q']['k'], 'world=' + ('predefined' if case.get('pre') else 'user'),
           'steps=%d' % (len(case['script']) // 5 * 5)]
    for d, s in zip(case['script'], r['steps']):
        out.append('step=' + d['d'] + ':' + ('ok' if s is None else s['e']))
    return out


def nontrivial_key(case, r):
    if any(s is not None for s in r['steps']) or any(d['d'] == 'cls' and d.get('def') for d in case['script']):
        return str(case['script']) + str(case['q'])
    return None
