"""C19 — objects that compare equal hash equal."""
import itertools
from fractions import Fraction as F

from vlib import siref, world as W, qtyops as Q
from vlib.core import cn, cq, cbool, clist
from vlib.qtyops import frs, num_value
from props import C07 as T07

PID = 'C19'
PROPERTY_FILE = 'Properties/C19.v'
# generated model parts (translate/) this property's model / proofs really depend on
GEN_DEPS = ['QuantityImpl', 'HashImpl']
MODEL_TARGETS = ['Corr/HashCorr.vo']
PROOF_TARGETS = ['Proofs/GenHashEq.vo', 'Proofs/C19Proofs.vo', 'Proofs/C07Proofs.vo']
COQ_HEADER = ("From QV Require Import Model.Num Model.Rounding Model.Quantity Model.Rates "
              "Model.Hash Corr.Common Corr.Obs Corr.HashCorr.")
COQ_CHECK = 'h_check'
ISOLATE = True
RULE = ("quantities: every ordered pair of predefined units per type with amounts chosen EQUAL "
        "across the units (a*scale(u) == b*scale(v)), decimal vs fraction spellings of the same "
        "value, near misses, different types; temperature pairs equal through the table "
        "converter; random user types (quantized or not); units: all ordered pairs per type "
        "(incl. same-scale units N / J/m, J / Nm / Ws) and user types; exchange rates built "
        "from equal / different quotations with different spellings (multiple 1 vs 100, "
        "Decimal vs Fraction vs str); terms: C07's correspondence.  Observed: a == b, "
        "hash(a) == hash(b), len({a, b}).  non-trivial = the operands are different objects "
        "that compare equal; distinct by operands.")
ASSUMPTIONS = ["Python / decimalfp hash equal numbers (int, Decimal, Fraction) equally and "
               "identical objects equally (sampled here on every run)",
               "hash keys of Model/Hash.v are what the implementation hands to hash()"]
EXHAUSTIVE = {}
KEY_CONV = 'C19-converter-equal'


def _spell(rng, f):
    f = F(f)
    ks = ['frac']
    if W.is_decimal(f):
        ks += ['dec', 'dec']
    if f.denominator == 1:
        ks += ['int']
    return [rng.choice(ks), frs(f)]


def gen_cases(rng, tier):
    cases = []
    pre = {'predefined': True}
    base_amts = [F(1), F(3), F(-5, 2), F(1, 3), F(0), F(254, 100), F(10) ** 12, F(7, 8)]
    for cls in siref.LINEAR_TYPES:
        us = siref.units_of(cls)
        pairs = list(itertools.product(us, us))
        if tier == 'quick':
            pairs = rng.sample(pairs, min(len(pairs), 45))
        for u, v in pairs:
            su, sv = siref.REF[u][1], siref.REF[v][1]
            a = rng.choice(base_amts)
            b = a * su / sv
            if rng.random() < 0.25:
                b += rng.choice([F(1, 10 ** 9), F(1), -F(1, 3)])        # near miss
            cases.append({'k': 'q', 'world': pre, 'x': ['q', _spell(rng, a), u],
                          'y': ['q', _spell(rng, b), v]})
            cases.append({'k': 'u', 'world': pre, 'u': u, 'v': v})
    temps = list(siref.TEMPERATURE)
    for u, v in itertools.product(temps, temps):
        for a in (F(0), F(-40), F(100), F(27315, 100)):
            if u == v:
                b = a
            else:
                f, o = siref.TEMP_TABLE[(u, v)]
                b = a * f + o
            cases.append({'k': 'q', 'world': pre, 'x': ['q', _spell(rng, a), u],
                          'y': ['q', _spell(rng, b), v]})
        cases.append({'k': 'u', 'world': pre, 'u': u, 'v': v})
    allsyms = sorted(siref.REF)
    for _ in range(40 if tier == 'quick' else 400):                 # other type
        cases.append({'k': 'q', 'world': pre, 'x': ['q', _spell(rng, 1), rng.choice(allsyms)],
                      'y': ['q', _spell(rng, 1), rng.choice(allsyms)]})
    for _ in range(150 if tier == 'quick' else 2500):               # user types
        world = W.random_world(rng, n_classes=rng.choice([1, 2]))
        views = W.Views(world)
        syms = sorted(views.units)
        u = rng.choice(syms)
        same = [s for s in syms if views.units[s]['cls'] == views.units[u]['cls']]
        v = rng.choice(same if rng.random() < 0.85 else syms)
        if rng.random() < 0.3:
            cases.append({'k': 'u', 'world': world, 'u': u, 'v': v})
            continue
        qu = views.units[u]['quantum']
        a = rng.choice(base_amts) if qu is None else rng.choice([0, 1, 8, -24, 1000]) * qu
        b = a * views.units[u]['scale'] / views.units[v]['scale'] \
            if views.units[u]['cls'] == views.units[v]['cls'] else a
        cases.append({'k': 'q', 'world': world, 'x': ['q', _spell(rng, a), u],
                      'y': ['q', _spell(rng, b), v]})
    # terms: pairs of term expressions (C07's generator and its independent evaluator of
    # what a term denotes): equal terms must hash equal; in particular a one-item term of
    # a DERIVED element and its normal form / definition (seeded C19-d)
    for _ in range(150 if tier == 'quick' else 2000):
        c = T07._Ctx(rng)
        cases.append({'k': 't', 't': c.case(['hasheq', *c.pair()])})
    for _ in range(12 if tier == 'quick' else 120):
        c = T07._Ctx(rng, rng.choice(['units', 'classes']))
        for _ in range(4):
            u = c.nonnum()
            if u:
                t = c.mk([[u, rng.choice([1, 1, 2, -1])]])
                cases.append({'k': 't', 't': c.case(['hasheq', t, ['norm', t]])})
                cases.append({'k': 't', 't': c.case(['hasheq', ['norm', t], t])})
    # C07's directed hash queries (operators applied to normal forms: seeded C07-d)
    for case in T07._directed(rng):
        if case['query'][0] == 'hasheq':
            cases.append({'k': 't', 't': case})
    curs = ['EUR', 'USD', 'JPY', 'HKD']
    for _ in range(80 if tier == 'quick' else 800):                 # exchange rates
        u, t = rng.sample(curs, 2)
        rate = rng.choice([F(5, 4), F(1, 8), F(13245, 100), F(3, 1000), F(1)])
        m1, m2 = rng.choice([1, 10, 100]), rng.choice([1, 10, 100, 1000])
        r2 = rate if rng.random() < 0.7 else rate + F(1, 1000)
        u2, t2 = (u, t) if rng.random() < 0.85 else rng.sample(curs, 2)
        cases.append({'k': 'r', 'a': [u, m1, t, _spell(rng, rate * m1)],
                      'b': [u2, m2, t2, _spell(rng, r2 * m2)]})
    # a converter registered for a type WITH reference unit that disagrees with the scales:
    # equality (and the hash) follow the scales, the converter is not consulted
    # (seeded C19-h: converters first)
    for _ in range(20 if tier == 'quick' else 200):
        world = W.random_world(rng, n_classes=1, quantized_p=0.0)
        views = W.Views(world)
        syms = sorted(views.units)
        if len(syms) < 2:
            continue
        u, v = rng.sample(syms, 2)
        k = rng.choice([F(1024), F(3), F(1, 7)])
        tables = [{'cls': world['classes'][0]['name'], 'form': 'map',
                   'rows': [[u, v, ['frac', frs(k)], ['frac', '0/1']]]}]
        a = rng.choice([F(1), F(5, 2), F(-3)])
        for b in (a * k, a * views.units[u]['scale'] / views.units[v]['scale']):
            cases.append({'k': 'q', 'world': world, 'tables': tables,
                          'x': ['q', _spell(rng, a), u], 'y': ['q', _spell(rng, b), v]})
            cases.append({'k': 'q', 'world': world, 'tables': tables,
                          'x': ['q', _spell(rng, b), v], 'y': ['q', _spell(rng, a), u]})
    # a rate and the SAME rate quoted the other way round (exact reciprocals) are different
    # rates: not equal (and if they were, they would have to hash equal: seeded C19-g)
    for _ in range(24 if tier == 'quick' else 240):
        u, t = rng.sample(curs, 2)
        rate = rng.choice([F(1), F(5, 4), F(2), F(4), F(8), F(100), F(1, 2), F(4, 5)])
        m1, m2 = rng.choice([1, 10]), rng.choice([1, 100])
        cases.append({'k': 'r', 'a': [u, m1, t, _spell(rng, rate * m1)],
                      'b': [t, m2, u, _spell(rng, m2 / rate)]})
    # ALIASES: a second unit with exactly the scale of the reference unit (or of another
    # unit) of a user type - equal units, equal quantities, so equal hashes (seeded C19-j:
    # base units hashed by their symbol, the alias by its scale).  Drawn after the older
    # families so that those keep their random streams.
    for _ in range(16 if tier == 'quick' else 160):
        world = W.random_world(rng, n_classes=1, quantized_p=0.0)
        cls = world['classes'][0]
        ref = cls['ref']
        base = rng.choice([ref, ref] + [u['sym'] for u in cls['units'] if not u.get('via')])
        alias = ref[:-1] + 'al'
        cls['units'].append({'sym': alias, 'factor': '1/1', 'fkind': rng.choice(['int', 'dec']),
                             'base': base})
        for u, v in ((alias, base), (base, alias)):
            cases.append({'k': 'u', 'world': world, 'u': u, 'v': v})
        a = rng.choice(base_amts)
        cases.append({'k': 'q', 'world': world, 'x': ['q', _spell(rng, a), alias],
                      'y': ['q', _spell(rng, a), base]})
    return cases


def impl_run(case):
    W.set_mode('MHEVEN')
    k = case['k']
    if k == 't':
        return {'t': T07.impl_run(case['t'])}
    if k == 'r':
        from quantity.money import Money, ExchangeRate
        for c in ('EUR', 'USD', 'JPY', 'HKD'):
            Money.register_currency(c)
        a = ExchangeRate(case['a'][0], case['a'][1], case['a'][2], W.number(tuple(case['a'][3])))
        b = ExchangeRate(case['b'][0], case['b'][1], case['b'][2], W.number(tuple(case['b'][3])))
        return {'eq': a == b, 'heq': hash(a) == hash(b), 'n': len({a, b}),
                'fa': [frs(F(a._unit_multiple)), frs(F(a._term_amount))],
                'fb': [frs(F(b._unit_multiple)), frs(F(b._term_amount))]}
    units, classes = W.instantiate(case['world'])
    if case.get('tables'):
        Q._tables(case, units, classes)
    if k == 'u':
        a, b = units[case['u']], units[case['v']]
        return {'eq': W.guarded(lambda: a == b), 'heq': hash(a) == hash(b), 'n': len({a, b})}
    x = W.number(tuple(case['x'][1])) * units[case['x'][2]]
    y = W.number(tuple(case['y'][1])) * units[case['y'][2]]
    eq = W.guarded(lambda: x == y)
    n = None
    if eq['k'] == 'bool':
        n = len({x, y})
    return {'eq': eq, 'heq': hash(x) == hash(y), 'n': n,
            'ox': W.observe(x), 'oy': W.observe(y)}


CUR = {'EUR': 1, 'USD': 2, 'JPY': 3, 'HKD': 4}


def coq_case(case, r):
    k = case['k']
    if k == 't':
        return None          # terms: C07's model (Proofs/C07Proofs.vo is an obligation here)
    if k == 'r':
        def rate(spec, fields):
            return (f"(mkRate {cn(CUR[spec[0]])} {cn(CUR[spec[2]])} {cq(F(fields[0]))} "
                    f"{cq(F(fields[1]))})")
        return f"(HR {rate(case['a'], r['fa'])} {rate(case['b'], r['fb'])} {cbool(r['eq'])} {cbool(r['heq'])})"
    views = W.Views(case['world'])
    eq = W.coq_obs(r['eq'], views)
    if k == 'u':
        return f"(HU {views.coq(case['u'])} {views.coq(case['v'])} {eq} {cbool(r['heq'])})"
    cv = Q.coq_convs({'world': case['world'], 'tables': case.get('tables', [])}, views)
    p = f"(mkQty {cq(F(r['ox']['amt']))} {views.coq(case['x'][2])})"
    q = f"(mkQty {cq(F(r['oy']['amt']))} {views.coq(case['y'][2])})"
    return f"(HQ {cv} {p} {q} {eq} {cbool(r['heq'])})"


def coq_model_term(case, r):
    return f"h_model {coq_case(case, r)}"


def oracle(case, r):
    if case['k'] == 't':
        return T07.oracle(case['t'], r['t'])
    eq = r['eq'] if case['k'] == 'r' else (r['eq'].get('v') if r['eq']['k'] == 'bool' else None)
    if eq is True:
        if not r['heq']:
            return f"{_show(case)}: compare equal but their hashes differ"
        if r['n'] not in (None, 1):
            return f"{_show(case)}: compare equal but a set holds both ({r['n']} elements)"
    # equality itself must be what the values say (independent reference)
    if case['k'] == 'q':
        views = W.Views(case['world'])
        ux, uy = views.units[case['x'][2]], views.units[case['y'][2]]
        if ux['cls'] == uy['cls'] and ux['scale'] is not None and uy['scale'] is not None:
            want = F(r['ox']['amt']) * ux['scale'] == F(r['oy']['amt']) * uy['scale']
            if eq is not want:
                return f"{_show(case)}: == gave {r['eq']}, the reference values say {want}"
    return None


def _show(case):
    if case['k'] == 't':
        return f"terms {case['t']['query']}"
    if case['k'] == 'q':
        return f"{case['x'][1][1]} {case['x'][2]} and {case['y'][1][1]} {case['y'][2]}"
    if case['k'] == 'u':
        return f"units {case['u']} and {case['v']}"
    return f"rates {case['a']} and {case['b']}"


def classify(case, r, msg):
    if case['k'] == 't':
        return None
    if 'hashes differ' in msg or 'a set holds both' in msg:
        if case['k'] == 'q':
            views = W.Views(case['world'])
            ux, uy = views.units[case['x'][2]], views.units[case['y'][2]]
            if ux['cls'] == uy['cls'] and ux['scale'] is None and case['x'][2] != case['y'][2]:
                return KEY_CONV          # equal only through a registered converter
    return None


def labels(case, r):
    if case['k'] == 't':
        v = r['t']['res']
        return ['kind=t', f"eq={v.get('v', v.get('k'))}"]
    eq = r['eq'] if case['k'] == 'r' else (r['eq'].get('v') if r['eq']['k'] == 'bool' else r['eq'].get('e'))
    return ['kind=' + case['k'], f"eq={eq}", f"hash-equal={r['heq']}"]


def nontrivial_key(case, r):
    if case['k'] == 't':
        v = r['t']['res'].get('v')
        return str(case['t']['query']) if v is True else None
    eq = r['eq'] if case['k'] == 'r' else (r['eq'].get('v') if r['eq']['k'] == 'bool' else None)
    if eq is not True:
        return None
    if case['k'] == 'q' and case['x'][2] == case['y'][2] and case['x'][1] == case['y'][1]:
        return None
    if case['k'] == 'u' and case['u'] == case['v']:
        return None
    return str(case)
