"""C18 — construction is exact and the text form round-trips."""
import re
from fractions import Fraction as F

from vlib import core, siref, world as W, qtyops as Q
from vlib.core import cn, clist, copt
from vlib.pyround import to_quantum

PID = 'C18'
PROPERTY_FILE = 'Properties/C18.v'
# generated model parts (translate/) this property's model / proofs really depend on
GEN_DEPS = ['QuantityImpl']
MODEL_TARGETS = ['Corr/TextCorr.vo']
PROOF_TARGETS = ['Proofs/C18Proofs.vo']
COQ_CHECK = 't_check'
ISOLATE = True
SHARD = 250

PRE = {'predefined': True}
_PRE_VIEWS = W.Views(PRE)


def cq(x):
    """rational literal; big numbers in hexadecimal (Coq reads long decimal
    literals in quadratic time)"""
    x = F(x)
    n, d = x.numerator, x.denominator
    if abs(n) < 10 ** 15 and d < 10 ** 15:
        return f"(({n})%Z # {d})"
    sn = ('-' if n < 0 else '') + hex(abs(n))
    return f"(({sn})%Z # {d:#x})"


def coq_obs(o, views):
    """world.coq_obs with the literal writer above"""
    if o['k'] == 'qty' and not o.get('float') and o['sym'] in views.units:
        cid = views.cls_ids.get(o['cls'], 999999)
        return f"(OQty {cn(cid)} {cn(views.units[o['sym']]['id'])} {cq(F(o['amt']))})"
    return W.coq_obs(o, views)


def cstr(s):
    """compact string literal: code points as 21-bit digits below a leading 1
    (decoded by Corr.TextCorr.STR)"""
    n = 1
    for ch in s:
        n = (n << 21) | ord(ch)
    return f"(STR {n:#x}%N)"

RULE = ("round trip: every predefined symbol (113, incl. 'µm', '°C', 'm/s²', "
        "'kg·m²/s³'-style generated symbols) through the generic factory and its own "
        "type, other types, explicit units of the same / another type; user types "
        "with odd symbols (inner blanks, digits, number-like, non-ASCII, non-BMP, "
        "braces) and quantized types; amounts int / Fraction / Decimal (negative, "
        "huge, tiny) / float.hex incl. subnormals and 1e+-300.  number construction "
        "for all number kinds x callers x unit arguments.  free text: number "
        "spellings (exponent, n/d, sign, leading/trailing dot) x whitespace padding "
        "before the amount, between amount and symbol, after the symbol x callers; "
        "separate malformed stream (empty, blanks, unknown symbol, number only, "
        "'abc m', '1..2 m', 'm 1', tab as separator, bytes/None/inf/nan).  The "
        "model receives the implementation's actual str(q) and, as its numeric "
        "parser, the outcome of the library's Decimal-then-Fraction parse of the "
        "number part.  str.isspace compared with the model's table over all "
        "1114112 code points.  non-trivial = a text was parsed or a number "
        "constructed with a non-error outcome or a specific error; distinct by "
        "(kind, caller, unit, text/number).")
ASSUMPTIONS = [
    "num_contract (premise of C18_roundtrip*): the dependency's printer output "
    "contains no U+0020, is non-empty, does not start with whitespace, and its "
    "parser pair (decimalfp.Decimal(s), then fractions.Fraction(s)) reads it back "
    "to the same rational — validated on every round-trip case of every run "
    "(oracle) and satisfied by the proved instance toy_show/toy_parse",
    "Python's str.lstrip/strip/split(' ',1) and str.format field substitution are "
    "modelled (Model/Text.v); the whitespace table is compared exhaustively",
    "unit views given to the model come from vlib/siref.py or the declaration script",
]
EXHAUSTIVE = {'quick': False, 'thorough': False}
EXHAUSTIVE_NOTE = ("all 113 predefined symbols x {generic, own type} round trips "
                   "and all 1114112 code points of the whitespace table are "
                   "enumerated in both tiers; amounts and paddings are sampled")

# reference units by SI (independent of the library)
PRE_REF = {'Mass': 'kg', 'Length': 'm', 'Duration': 's', 'Area': 'm²',
           'Volume': 'm³', 'Velocity': 'm/s', 'Acceleration': 'm/s²',
           'Force': 'N', 'Energy': 'J', 'Power': 'W', 'Frequency': 'Hz',
           'DataVolume': 'B', 'DataThroughput': 'B/s', 'Temperature': None}

# ---------------------------------------------------------------- findings
# Real-code deviation from the property text, listed in
# /verif/known_findings.json under this key (status "known"): deterministic
# witnesses are generated in every run and reported as KNOWN-FINDING by the
# runner (classify below); the model agrees with the code on all of them.
KEY_EDGE = 'C18-edge-blank-symbol'
EDGE_SYMBOLS = [' x', 'y ', '\tq', 'q\n', '\xa0z', ' ', '\u3000w', ' a b ']
KNOWN_CANDIDATES = {
    KEY_EDGE: [
        # Quantity(str(1*u)) -> QuantityError "Unknown symbol 'x'."
        {'script': "X = QuantityMeta('X', (Quantity,), {}, ref_unit_symbol='xr'); "
                   "u = X.new_unit(' x', 'lead', Decimal(2)*X.ref_unit); "
                   "Quantity(str(1*u))  # QuantityError; X(str(1*u)) as well"},
    ],
}
# '1/0 m' raised ZeroDivisionError until repo commit 046398b; ordinary cases
# now (expected: QuantityError), also in corpus/C18/zero_denominator.json
ZERODEN_TEXTS = ['1/0', '-3/0', '0/0', '1/00', '+1/0']


def _edge_world():
    units = [{'sym': s, 'factor': f"{i + 2}/1", 'fkind': 'int', 'base': 'xr'}
             for i, s in enumerate(EDGE_SYMBOLS)]
    units.append({'sym': 'a b', 'factor': '3/2', 'fkind': 'frac', 'base': 'xr'})
    return {'predefined': True,
            'classes': [{'name': 'Edge', 'ref': 'xr', 'quantum': None, 'units': units}]}


# ---------------------------------------------------------------- worlds
ODD_SYMBOLS = ['a b', 'a  b', 'a b c', '1', '1/2', '-3', '1e3', 'µ', '日本', '€/h',
               'x\ty', 'a b', '{a}', '{u}', '{}', '%s', "'", '"', '\\', '😀',
               'kg·m²/s³', 'Ω', 'mm m', '/', '.', '0']


def odd_world(quantum=None, syms=None):
    """user types with odd symbols (a subset keeps the declaration cheap)"""
    units = []
    for i, s in enumerate(ODD_SYMBOLS):
        if syms is not None and s not in syms:
            continue
        if quantum is None:
            f = F(i + 2, (i % 4) + 1)
            kind = 'frac'
        else:
            f = (i + 2) * F(quantum)
            kind = 'frac'
        units.append({'sym': s, 'factor': f"{f.numerator}/{f.denominator}",
                      'fkind': kind, 'base': 'odd r'})
    return {'predefined': True, 'classes': [
        {'name': 'Odd', 'ref': 'odd r', 'quantum': quantum, 'units': units},
        {'name': 'Free', 'ref': None, 'quantum': None, 'units': [],
         'free': ['f 1', 'f2', '°X']},
        {'name': 'Other', 'ref': 'oth', 'quantum': None,
         'units': [{'sym': 'k oth', 'factor': '1000/1', 'fkind': 'int', 'base': 'oth'}]},
    ]}


def _coq_dir(views):
    return clist([f"({cstr(s)}, {views.coq(s)})" for s in views.units])


# fixed worlds: their directories are defined once per case file (header)
FIXED_WORLDS = [('pd_dir', PRE)]
COQ_HEADER = (
    "From QV Require Import Model.Num Model.Rounding Model.Quantity Model.Text "
    "Corr.Common Corr.Obs Corr.QtyCorr Corr.TextCorr.\n"
    + "\n".join(f"Definition {nm} : directory := {_coq_dir(W.Views(w))}."
                for nm, w in FIXED_WORLDS))


def world_classes(world):
    """class name -> reference symbol (or None)"""
    out = {}
    if world.get('predefined'):
        out.update(PRE_REF)
    for c in world.get('classes', []):
        out[c['name']] = c.get('ref')
    return out


# ---------------------------------------------------------------- numbers
FLOATS = [0.1, -2.5, 1e300, 1e-300, 5e-324, 3 * 5e-324, 1.7976931348623157e308,
          2.2250738585072014e-308, 1 / 3, 123456.789, -0.0, 2.0 ** 70, 1e22, 1e23]
NUMBERS = (
    [['int', f"{n}/1"] for n in (0, 1, -1, 7, 12, 10 ** 30, -10 ** 21, 2 ** 64)]
    + [['bool', '1'], ['bool', '0']]
    + [['frac', s] for s in ('1/3', '-22/7', '5/18', f"{10 ** 40}/7", '1/1', '-6/4',
                            f"1/{2 ** 70}", '355/113')]
    + [['dec', s] for s in ('254/100', '-15/10000', f"1/{10 ** 30}", '45359237/100000000',
                            '-1/8', f"{123456789012345678901234567890123456789}/1000000000",
                            '13/10', '1/16', '0/1', f"{7 * 10 ** 50}/1")]
    # stdlib decimals, also with more digits than the stdlib context's 28 (seeded C18-i)
    + [['stddec', s] for s in ('5/4', '-1/1000', '12/1',
                               '12345678901234567890123456789/10000000000000000000',
                               f"{2 ** 100}/1",
                               '1000000000000000000000000000000001/1000000000000000000000')]
    + [['float', x.hex()] for x in FLOATS])
NONNUMBERS = [['inf', '+'], ['inf', '-'], ['nan', ''], ['bytes', '1 m'], ['none', ''],
              ['list', ''], ['complex', '']]


def num_value(spec):
    """exact rational value of a number spec, independent of the library"""
    kind, val = spec
    if kind == 'float':
        return F(*float.fromhex(val).as_integer_ratio())
    if kind == 'bool':
        return F(int(val))
    if kind in ('inf', 'nan', 'bytes', 'none', 'list', 'complex'):
        return None
    return F(val)


SHORT_NUMBERS = [n for n in NUMBERS if len(str(num_value(n))) < 60]


def _mknum(spec):
    kind, val = spec
    if kind == 'bool':
        return bool(int(val))
    if kind == 'inf':
        return float(val + 'inf')
    if kind == 'nan':
        return float('nan')
    if kind == 'bytes':
        return val.encode()
    if kind == 'none':
        return None
    if kind == 'list':
        return [1]
    if kind == 'complex':
        return 1j
    return W.number(tuple(spec))


_DEC = re.compile(r'^([+-]?)([0-9]*)(?:\.([0-9]*))?(?:[eE]([+-]?[0-9]+))?$')
_FRAC = re.compile(r'^([+-]?[0-9]+)/([0-9]+)$')


def refnum(s):
    """Independent reading of a numeric text: decimal with optional fraction
    and exponent, or n/d.  None = not a number."""
    m = _FRAC.match(s)
    if m:
        d = int(m.group(2))
        return None if d == 0 else F(int(m.group(1)), d)
    m = _DEC.match(s)
    if not m:
        return None
    sign, ip, fp, ex = m.groups()
    if not ip and not fp:
        return None
    digits = (ip or '') + (fp or '')
    v = F(int(digits), 10 ** len(fp or ''))
    if ex:
        v *= F(10) ** int(ex)
    return -v if sign == '-' else v


NUMSTR = ['5', '-5', '+5', '0', '-0', '1.5', '.5', '5.', '1e3', '1E-3', '-1.5e-3',
          '1/3', '-22/7', '10/4', '+7/2', '1e400', '1e-400', '00012', '1.000',
          '123456789012345678901234567890.5', '0.1', '2.50', '-.25e+2', '1.3', '0.0625']
# spellings whose acceptance is the dependency's business: correspondence only
EXOTIC = ['1_000', '１２', '١٢٣', '1e1_0', '0x10', 'Infinity', 'nan', '-inf', '1/3e2',
          '1.5/3', '1/-3', '1//3', '5 ', ' 5', '1e', 'e5', '.', '+', '-', '1,5',
          '1/3/5', '½', '²', '5²', '1.e1', '1 /3', '0/5', '1e+', '--5', '5-']
PRE_PADS = ['', ' ', '   ', '\t', '\n ', ' ', '　 \t', '\x1f', '\x85']
MID_PADS = ['', ' ', '    ', '\t', ' \t ', ' ', ' ']
POST_PADS = ['', ' ', '\t\n', '   ', ' ', ' ']


# ---------------------------------------------------------------- generator
def _callers(views, usym, rng):
    own = views.units[usym]['clsname']
    others = sorted(c for c in views.cls_ids if c != own)
    return own, others


def gen_cases(rng, tier):
    thorough = tier == 'thorough'
    cases = [{'kind': 'spaces'}]
    dm0 = 'MHEVEN'
    pre_views = _PRE_VIEWS
    pre_syms = list(pre_views.units)
    quanta = [None, '1/8', '1/3']

    def pick_world():
        r = rng.random()
        if r < 0.45:
            return PRE
        if r < 0.75:
            return odd_world(rng.choice(quanta), rng.sample(ODD_SYMBOLS, 4))
        return dict(W.random_world(rng, n_classes=2), predefined=True)

    def pick_num():
        n = rng.choice(NUMBERS)
        if not thorough and n[0] == 'float' and len(str(num_value(n))) > 150 \
                and rng.random() < 0.6:
            return pick_num()        # quick tier: fewer 1000-digit texts
        return n

    def rt(world, sym, how, n, unit=None, dm=None):
        return {'kind': 'rt', 'world': world, 'dm': dm or rng.choice(W.MODES),
                'u': sym, 'how': how, 'n': n, 'unit': unit}

    # --- round trips: every predefined symbol x {generic, own}
    for sym in pre_syms:
        reps = 3 if thorough else 1
        for _ in range(reps):
            cases.append(rt(PRE, sym, 'generic', pick_num()))
            cases.append(rt(PRE, sym, 'own', pick_num()))
        if thorough:
            for n in NUMBERS[::8]:
                cases.append(rt(PRE, sym, rng.choice(['generic', 'own']), n))
    # every number x a few symbols
    for n in NUMBERS:
        for sym in rng.sample(pre_syms, 6 if thorough else 2):
            cases.append(rt(PRE, sym, rng.choice(['generic', 'own']), n))
    # odd symbols, quantized or not
    for qn in quanta:
        for sym in list(W.Views(odd_world(qn)).units):
            if sym in _PRE_VIEWS.units:
                continue
            for how in ('generic', 'own'):
                for _ in range(3 if thorough else 1):
                    w = odd_world(qn, [sym] + rng.sample(ODD_SYMBOLS, 2))
                    cases.append(rt(w, sym, how, pick_num()))
    # other class / explicit unit
    for _ in range(1200 if thorough else 120):
        w = pick_world()
        views = W.Views(w)
        syms = list(views.units)
        sym = rng.choice(syms)
        own, others = _callers(views, sym, rng)
        same = [s for s in syms if views.units[s]['clsname'] == own]
        r = rng.random()
        if r < 0.25 and others:
            cases.append(rt(w, sym, 'cls:' + rng.choice(others), pick_num()))
        else:
            v = rng.choice(same) if rng.random() < 0.8 else rng.choice(syms)
            how = rng.choice(['generic', 'own', 'own'] + (['cls:' + rng.choice(others)] if others else []))
            cases.append(rt(w, sym, how, pick_num(), unit=v))
    for u in siref.TEMPERATURE:            # converter-backed explicit units
        for v in siref.TEMPERATURE:
            cases.append(rt(PRE, u, rng.choice(['generic', 'own']),
                            rng.choice(NUMBERS[:20]), unit=v, dm=dm0))

    # --- numbers
    for _ in range(1500 if thorough else 120):
        w = pick_world()
        views = W.Views(w)
        syms = list(views.units)
        sym = rng.choice(syms)
        own, others = _callers(views, sym, rng)
        cls = rng.choice([None, own, own] + others[:1] + [rng.choice(others)] if others else [None, own])
        n = rng.choice(NUMBERS) if rng.random() < 0.9 else rng.choice(NONNUMBERS)
        r = rng.random()
        unit = sym if r < 0.8 else (None if r < 0.95 else {'bad': rng.choice(['str', 'int'])})
        cases.append({'kind': 'num', 'world': w, 'dm': rng.choice(W.MODES),
                      'cls': cls, 'n': n, 'unit': unit})
    grid = ((None, 'm'), ('Length', 'km'), ('Mass', 'm'), ('Length', None),
                          (None, None), ('Temperature', None), ('DataVolume', 'b'))
    for n in NUMBERS + NONNUMBERS:          # each number kind at least once per caller
        for cls, unit in (grid if thorough else rng.sample(grid, 3)):
            cases.append({'kind': 'num', 'world': PRE, 'dm': rng.choice(W.MODES),
                          'cls': cls, 'n': n, 'unit': unit})

    # --- free text
    def txt(world, cls, num, sym, pre='', mid='', post='', unit=None, sep=' '):
        text = pre + num + ('' if sym is None else sep + mid + sym) + post
        return {'kind': 'parse', 'world': world, 'dm': rng.choice(W.MODES), 'cls': cls,
                'unit': unit, 'text': text,
                'parts': {'num': num, 'sym': sym, 'sep': sep, 'post': post}}

    for _ in range(3000 if thorough else 300):
        w = pick_world()
        views = W.Views(w)
        syms = list(views.units)
        sym = rng.choice(syms)
        own, others = _callers(views, sym, rng)
        cls = rng.choice([None, None, own, own] + others[:2])
        num = rng.choice(NUMSTR) if rng.random() < 0.8 else rng.choice(EXOTIC)
        r = rng.random()
        unit = None
        if r < 0.15:
            same = [s for s in syms if views.units[s]['clsname'] == own]
            unit = rng.choice(same) if rng.random() < 0.8 else rng.choice(syms)
        elif r < 0.18:
            unit = {'bad': 'str'}
        r = rng.random()
        if r < 0.12:
            s = None                                   # number only
        elif r < 0.2:
            s = rng.choice(['qqq', '', 'M', sym + 'x', sym.upper() + '_', 'm m', '5'])
            if s in views.units:
                s = s + '?'
        else:
            s = sym
        post = rng.choice(POST_PADS) if (s is not None or rng.random() < 0.3) else ''
        cases.append(txt(w, cls, num, s, rng.choice(PRE_PADS), rng.choice(MID_PADS),
                         post, unit))
    # the malformed stream
    MALFORMED = ['', ' ', '   \t', '\n', 'abc m', '1..2 m', 'm 1', 'm', '5 qqq', '5\tm',
                 '5 m', '5m', '5 ', ' 5 ', '5  ', '1 2 m', 'one m', '- 5 m', '5 m m',
                 '5 m/s ²', '\x00', '5\x00 m', '5 m\x00']
    for t in MALFORMED:
        for cls in (None, 'Length', 'Temperature'):
            cases.append({'kind': 'parse', 'world': PRE, 'dm': dm0, 'cls': cls,
                          'unit': None, 'text': t, 'parts': None})
        cases.append({'kind': 'parse', 'world': PRE, 'dm': dm0, 'cls': None,
                      'unit': 'km', 'text': t, 'parts': None})
    for num in NUMSTR + EXOTIC:
        for sep in (' ', '\t', '', ' '):
            cases.append(txt(PRE, rng.choice([None, 'Length']), num, 'm', sep=sep))
        more = [txt(PRE, None, num, None), txt(PRE, 'Mass', num, None),
                txt(PRE, None, num, 'km', unit='mi'),
                txt(PRE, None, num, 'b'),               # quantized: rounded once
                txt(PRE, None, num, 'kb', unit='B')]
        cases.extend(more if thorough else rng.sample(more, 2))

    # --- format
    for _ in range(400 if thorough else 60):
        w = pick_world()
        views = W.Views(w)
        sym = rng.choice(list(views.units))
        k = rng.random()
        if k < 0.3:
            spec = []
        elif k < 0.45:
            spec = ['a', ' ', 'u']
        else:
            spec = [rng.choice(['a', 'u', ' ', ':', 'x y', '[', '] ', '—'])
                    for _ in range(rng.randint(1, 5))]
        cases.append({'kind': 'fmt', 'world': w, 'u': sym, 'n': rng.choice(SHORT_NUMBERS),
                      'spec': spec})

    # --- money: format(q) is str(q), large amounts included
    #     (seeded C18-h: digit grouping in Money's default format)
    MW = {'predefined': True, 'currencies': ['EUR', 'JPY', 'KWD']}
    for cur in MW['currencies']:
        for n in (['dec', '12345/10'], ['int', '-2500000/1'], ['frac', '100001/8'], ['int', '999/1'],
                  ['dec', '1234567891/1000']):
            cases.append({'kind': 'fmt', 'world': MW, 'u': cur, 'n': n, 'spec': []})
    # --- declaration of symbols
    for s in ['', ' ', 'ok', None, 5, 'm']:
        cases.append({'kind': 'decl', 'world': PRE, 'sym': s})

    # --- zero denominators (regression of repo commit 046398b)
    for t in ZERODEN_TEXTS:
        cases.append(txt(PRE, None, t, 'm'))
        cases.append(txt(PRE, 'Length', t, None))
        cases.append(txt(PRE, None, t, 'km', unit='m'))

    # --- known finding C18-edge-blank-symbol: deterministic witnesses first
    # (fixed amount and mode, independent of the seed), then seeded ones
    ew = _edge_world()
    for s in EDGE_SYMBOLS:
        for how in ('generic', 'own'):
            cases.append(rt(ew, s, how, ['int', '1/1'], dm=dm0))
            cases.append(rt(ew, s, how, pick_num()))
    return cases


# ---------------------------------------------------------------- implementation
def impl_setup():
    # every world of this property contains the predefined catalogue: load it
    # once in the worker; each case still runs in its own forked child, so user
    # declarations never leak from one case into another
    import quantity.predefined  # noqa


def _numparse(p):
    """what the library's parser pair makes of the number part"""
    from decimalfp import Decimal
    try:
        try:
            v = Decimal(p)
        except (TypeError, ValueError):
            v = F(p)
        v = F(v)
        return {'ok': f"{v.numerator}/{v.denominator}"}
    except BaseException as e:      # noqa
        return {'err': W.err_name(e), 'py': type(e).__name__}


def _unit_arg(spec, units):
    if spec is None:
        return ()
    if isinstance(spec, dict):
        return ('m',) if spec['bad'] == 'str' else (5,)
    return (units[spec],)


def impl_run(case):
    import quantity
    from quantity import Quantity
    k = case['kind']
    if k == 'spaces':
        ws = [c for c in range(0x110000) if chr(c).isspace()]
        st = [c for c in range(0x110000)
              if (chr(c) + 'x' + chr(c)).strip() == 'x' and (chr(c) + 'x').lstrip() == 'x']
        return {'spaces': ws, 'strip_agrees': ws == st}
    W.set_mode(case.get('dm', 'MHEVEN'))
    units, classes = W.instantiate(case['world'])

    def caller(name):
        return Quantity if name is None else classes[name]

    if k == 'decl':
        cls = classes['Length']
        s = case['sym']
        return {'res': W.guarded(lambda: cls.new_unit(s, 'some name'))}
    if k == 'num':
        n = _mknum(case['n'])
        ua = _unit_arg(case['unit'], units)
        cls = caller(case['cls'])
        return {'res': W.guarded(lambda: cls(n, *ua))}
    if k == 'parse':
        cls = caller(case['cls'])
        ua = _unit_arg(case['unit'], units)
        text = case['text']
        p = text.lstrip().split(' ', 1)[0]
        return {'numpart': p, 'numres': _numparse(p),
                'res': W.guarded(lambda: cls(text, *ua))}
    u = units[case['u']]
    n = _mknum(case['n'])
    try:
        q = u.qty_cls(n, u)
    except BaseException as e:      # noqa
        return {'q': {'k': 'err', 'e': W.err_name(e)}}
    text, shown = str(q), str(q.amount)
    if k == 'fmt':
        spec = ''.join({'a': '{a}', 'u': '{u}'}.get(p, p) for p in case['spec'])
        try:
            out = format(q, spec)
        except BaseException as e:      # noqa
            return {'q': W.observe(q), 'shown': shown, 'err': W.err_name(e)}
        return {'q': W.observe(q), 'shown': shown, 'out': out, 'plain': format(q),
                'text': text}
    how = case['how']
    cls = Quantity if how == 'generic' else (u.qty_cls if how == 'own' else classes[how[4:]])
    ua = _unit_arg(case['unit'], units)
    p = text.lstrip().split(' ', 1)[0]
    return {'q': W.observe(q), 'text': text, 'shown': shown, 'repr_amt': type(q.amount).__name__,
            'fmt_eq': format(q) == text, 'fmt_empty_eq': format(q, '') == text,
            'numpart': p, 'numres': _numparse(p),
            'res': W.guarded(lambda: cls(text, *ua)),
            'res_again_str': W.guarded(lambda: str(cls(text, *ua)) == text)}


# ---------------------------------------------------------------- model side
def _dir(case, views):
    for nm, w in FIXED_WORLDS:
        if case['world'] == w:
            return nm
    extra = [s for s in views.units if s not in _PRE_VIEWS.units]
    return "(pd_dir ++ " + clist([f"({cstr(s)}, {views.coq(s)})" for s in extra]) + ")"


def _caller(case, views, name):
    if name is None:
        return 'generic'
    ref = world_classes(case['world'])[name]
    return f"(mkCaller (Some {cn(views.cls_ids[name])}) {copt(ref, views.coq)})"


def _uarg(spec, views):
    if spec is None:
        return 'UNone'
    if isinstance(spec, dict):
        return 'UBad'
    return f"(UUnit {views.coq(spec)})"


def _numtable(r):
    nr = r['numres']
    out = f"(Ok {cq(F(nr['ok']))})" if 'ok' in nr else f"(Err {nr['err']})"
    return clist([f"({cstr(r['numpart'])}, {out})"])


def _numarg(spec):
    kind = spec[0]
    if kind == 'inf':
        return 'NInf'
    if kind == 'nan':
        return 'NNan'
    v = num_value(spec)
    return 'NOther' if v is None else f"(NFinite {cq(v)})"


def _piece(p):
    return {'a': 'PAmount', 'u': 'PUnit'}.get(p) or f"(PLit {cstr(p)})"


def coq_case(case, r):
    k = case['kind']
    if k == 'spaces':
        return f"(TSpaces {cn(0x110000)} {clist([cn(c) for c in r['spaces']])})"
    if k == 'decl':
        return None
    views = W.Views(case['world'])
    if k == 'num':
        return (f"(TNumber {case['dm']} {_caller(case, views, case['cls'])} "
                f"{_numarg(case['n'])} {_uarg(case['unit'], views)} "
                f"{coq_obs(r['res'], views)})")
    if k == 'parse':
        return (f"(TParse {case['dm']} {Q.coq_convs(case, views)} {_dir(case, views)} "
                f"{_numtable(r)} {_caller(case, views, case['cls'])} "
                f"{_uarg(case['unit'], views)} {cstr(case['text'])} "
                f"{coq_obs(r['res'], views)})")
    if r['q']['k'] != 'qty':
        return None
    a = cq(F(r['q']['amt']))
    if k == 'fmt':
        if 'out' not in r:
            return None
        return (f"(TFormat {_dir(case, views)} {cstr(r['shown'])} "
                f"{clist([_piece(p) for p in case['spec']])} {a} {views.coq(case['u'])} "
                f"{cstr(r['out'])})")
    how = case['how']
    cname = None if how == 'generic' else (views.units[case['u']]['clsname'] if how == 'own' else how[4:])
    if r['numpart'] != r['shown'] or not r['text'].startswith(r['shown']):
        # printer contract broken (the oracle reports it): plain parse case
        return (f"(TParse {case['dm']} {Q.coq_convs(case, views)} {_dir(case, views)} "
                f"{_numtable(r)} {_caller(case, views, cname)} "
                f"{_uarg(case['unit'], views)} {cstr(r['text'])} "
                f"{coq_obs(r['res'], views)})")
    nr = r['numres']
    numres = f"(Ok {cq(F(nr['ok']))})" if 'ok' in nr else f"(Err {nr['err']})"
    return (f"(TRound {case['dm']} {Q.coq_convs(case, views)} {_dir(case, views)} "
            f"{numres} {_caller(case, views, cname)} {_uarg(case['unit'], views)} "
            f"{cstr(r['shown'])} {a} {views.coq(case['u'])} "
            f"{cstr(r['text'][len(r['shown']):])} "
            f"{coq_obs(r['res'], views)})")


def coq_model_term(case, r):
    t = coq_case(case, r)
    return f"t_model {t}" if t else "tt"


# ---------------------------------------------------------------- oracle
def _isq(ob, cls, sym, amt):
    return (ob['k'] == 'qty' and not ob.get('float') and ob['cls'] == cls
            and ob['sym'] == sym and F(ob['amt']) == amt)


def _quantized(dm, a, u):
    return a if u['quantum'] is None else to_quantum(dm, a, u['quantum'])


def _convert_expect(views, dm, a, usym, vsym):
    """('qty', cls, sym, amount) | ('err', class or None=any error)"""
    u, v = views.units[usym], views.units[vsym]
    if u['clsname'] != v['clsname']:
        return ('err', 'EIncompatibleUnits')
    if usym == vsym:
        return ('qty', v['clsname'], vsym, _quantized(dm, a, v))
    if u['scale'] is not None and v['scale'] is not None:
        return ('qty', v['clsname'], vsym, _quantized(dm, a * u['scale'] / v['scale'], v))
    if (usym, vsym) in siref.TEMP_TABLE:
        f, o = siref.TEMP_TABLE[(usym, vsym)]
        return ('qty', v['clsname'], vsym, a * f + o)
    return ('err', 'EUnitConversion')


def expected(case, views, cls, value, sym, explicit):
    """What the property prescribes for cls(<number or text denoting `value`
    with symbol `sym`>, explicit).  sym None = no symbol part."""
    dm = case['dm']
    refs = world_classes(case['world'])
    if isinstance(explicit, dict):
        bad_unit = True
        explicit = None
    else:
        bad_unit = False
    if sym is not None:
        if sym not in views.units:
            return ('err', 'EQuantityError')
        if bad_unit:
            return ('err', 'ETypeError')
        if explicit is not None and explicit != sym:
            # = parse (constructor of the parsed unit's type), then convert
            first = _quantized(dm, value, views.units[sym])
            return _convert_expect(views, dm, first, sym, explicit)
        usym = sym
    else:
        if bad_unit:
            return ('err', 'ETypeError')
        usym = explicit if explicit is not None else (refs[cls] if cls is not None else None)
        if usym is None:
            return ('err', 'EQuantityError')
    u = views.units[usym]
    if cls is not None and cls != u['clsname']:
        return ('err', 'EQuantityError')
    return ('qty', u['clsname'], usym, _quantized(dm, value, u))


def _cmp(exp, ob, what):
    if exp[0] == 'err':
        if ob['k'] != 'err' or (exp[1] is not None and ob['e'] != exp[1]):
            return f"{what}: expected {exp[1] or 'an error'}, got {_short(ob)}"
        return None
    _, cls, sym, amt = exp
    if not _isq(ob, cls, sym, amt):
        return f"{what}: expected {cls} {amt} {sym!r}, got {_short(ob)}"
    return None


def _short(ob):
    if ob['k'] == 'qty':
        return f"{ob['cls']} {ob['amt']} {ob['sym']!r}"
    if ob['k'] == 'err':
        return f"{ob.get('py')}({ob.get('msg', '')[:60]})"
    return str(ob)[:80]


def oracle(case, r):
    k = case['kind']
    if k == 'spaces':
        return None if r['strip_agrees'] else "str.strip and str.isspace disagree"
    if k == 'decl':
        s = case['sym']
        ob = r['res']
        if s == '' and not (ob['k'] == 'err' and ob['e'] == 'EValueError'):
            return f"new_unit('') did not raise ValueError: {_short(ob)}"
        if not isinstance(s, str) and not (ob['k'] == 'err' and ob['e'] == 'ETypeError'):
            return f"new_unit({s!r}) did not raise TypeError: {_short(ob)}"
        return None
    views = W.Views(case['world'])
    if k == 'num':
        v = num_value(case['n'])
        ob = r['res']
        if v is None:
            if case['n'][0] in ('inf', 'nan'):
                return None if ob['k'] == 'err' else f"non-finite float accepted: {_short(ob)}"
            return _cmp(('err', 'ETypeError'), ob, f"amount {case['n'][0]}")
        return _cmp(expected(case, views, case['cls'], v, None, case['unit']), ob,
                    f"{case['cls'] or 'Quantity'}({case['n']}, {case['unit']})")
    if k == 'fmt':
        if r['q']['k'] != 'qty':
            return None
        if 'out' not in r:
            return f"format raised {r.get('err')}"
        want = ''.join({'a': r['shown'], 'u': case['u']}.get(p, p) for p in
                       (case['spec'] or ['a', ' ', 'u']))
        if r['out'] != want:
            return f"format(q, {case['spec']}) = {r['out']!r}, expected {want!r}"
        if r['plain'] != r['text']:
            return f"format(q) = {r['plain']!r} differs from str(q) = {r['text']!r}"
        return None
    if k == 'parse':
        ob = r['res']
        parts = case['parts']
        if parts is None:
            return _cmp(('err', 'EQuantityError'), ob, f"malformed {case['text']!r}")
        num, sym = parts['num'], parts['sym']
        if parts['sep'] != ' ' and sym is not None:
            # no U+0020 after the amount: amount and symbol are one token; it
            # denotes no number (the tokens used here contain a letter or a
            # second sign) -> malformed
            return _cmp(('err', 'EQuantityError'), ob, f"{case['text']!r}")
        if num in EXOTIC:
            # the dependency decides whether this spelling is a number; the
            # property only demands QuantityError if it is not
            if ob['k'] == 'err' and ob['e'] not in ('EQuantityError', 'ETypeError',
                                                    'EIncompatibleUnits', 'EUnitConversion'):
                return f"{case['text']!r}: raised {_short(ob)}, not QuantityError"
            return None
        v = refnum(num)
        if v is None:
            return _cmp(('err', 'EQuantityError'), ob, f"{case['text']!r}")
        if sym is None and parts['post'].startswith(' '):
            sym = ''            # a blank after the amount starts an (empty) symbol
        return _cmp(expected(case, views, case['cls'], v, sym, case['unit']), ob,
                    f"{case['cls'] or 'Quantity'}({case['text']!r}, {case['unit']})")
    # ---- round trip
    q = r['q']
    if q['k'] != 'qty':
        return f"could not construct the quantity: {q}"
    sym = case['u']
    u = views.units[sym]
    amt = F(q['amt'])
    v = num_value(case['n'])
    if amt != _quantized(case['dm'], v, u):
        return f"{case['n']} {sym!r}: holds {amt}, exact value {v}"
    shown, text = r['shown'], r['text']
    if text != shown + ' ' + sym:
        return f"str(q) = {text!r} is not amount, blank, symbol ({shown!r}, {sym!r})"
    if refnum(shown) != amt:
        return f"str(amount) = {shown!r} does not denote the amount {amt}"
    if ' ' in shown or not shown or shown[0].isspace():
        return f"numeric printer contract broken: {shown!r}"
    if r['numpart'] != shown or r['numres'].get('ok') is None or F(r['numres']['ok']) != amt:
        return f"numeric parser contract broken: {r['numpart']!r} -> {r['numres']}"
    if not r['fmt_eq'] or not r['fmt_empty_eq']:
        return "format(q) differs from str(q)"
    how = case['how']
    cname = None if how == 'generic' else (u['clsname'] if how == 'own' else how[4:])
    exp = expected(case, views, cname, amt, sym, case['unit'])
    msg = _cmp(exp, r['res'], f"round-trip {cname or 'Quantity'}({text!r}, {case['unit']})")
    if msg:
        return msg
    if exp[0] == 'qty' and case['unit'] in (None, sym) and r['res_again_str'] != {'k': 'bool', 'v': True}:
        return f"round-trip: str of the parsed quantity differs from {text!r}"
    return None


def classify(case, res, msg):
    if not isinstance(case, dict):
        return None
    if case.get('kind') == 'rt' and case['u'] != case['u'].strip() and 'round-trip' in msg:
        return KEY_EDGE
    return None


# ---------------------------------------------------------------- evidence
def labels(case, r):
    k = case['kind']
    out = ['kind=' + k]
    if k in ('spaces', 'decl'):
        return out
    cl = case['world'].get('classes')
    out.append('world=' + ('predefined' if not cl else
                           'predefined+odd-symbols' if cl[0]['name'] in ('Odd', 'Edge')
                           else 'predefined+random-user-types'))
    if cl and any(c.get('quantum') for c in cl):
        out.append('world=has-quantized-user-type')
    ob = r.get('res')
    if ob:
        out.append('result=' + (ob['e'] if ob['k'] == 'err' else ob['k']))
    if k in ('num', 'rt', 'fmt'):
        out.append('number=' + case['n'][0])
    if k == 'rt':
        out.append('caller=' + case['how'].split(':')[0])
        out.append('explicit-unit=' + ('none' if case['unit'] is None else
                                       'same' if case['unit'] == case['u'] else 'other'))
        if r.get('repr_amt'):
            out.append('amount-repr=' + r['repr_amt'])
        if not case['u'].isascii():
            out.append('symbol=non-ascii')
        if ' ' in case['u']:
            out.append('symbol=inner-blank')
    if k == 'parse':
        out.append('text=' + ('malformed-stream' if case['parts'] is None else
                              'exotic-number' if case['parts']['num'] in EXOTIC else 'structured'))
        if r.get('numres') and 'err' in r['numres']:
            out.append('number-part=' + r['numres']['err'])
    return out


def nontrivial_key(case, r):
    k = case['kind']
    if k in ('spaces', 'decl'):
        return (k, str(case.get('sym')))
    if k == 'num':
        return (k, case['cls'], str(case['unit']), tuple(case['n']))
    if k == 'fmt':
        return (k, case['u'], tuple(case['spec']), tuple(case['n']))
    if k == 'parse':
        return (k, case['cls'], str(case['unit']), case['text'])
    return (k, case['how'], case['u'], str(case['unit']), tuple(case['n']))
