"""C09 — exchange rates: normal form, accuracy, inversion, triangulation;
plus the money part of C10 (money * rate, rate * money, money / rate)."""
import math
from fractions import Fraction as F

from vlib import world as W
from vlib.core import cn, cq, cbool, clist
from vlib.pyround import to_quantum

PID = 'C09'
PROPERTY_FILE = 'Properties/C09.v'
# generated model parts (translate/) this property's model / proofs really depend on
GEN_DEPS = ['RatesImpl']
MODEL_TARGETS = ['Corr/RatesCorr.vo']
PROOF_TARGETS = ['Proofs/C09Proofs.vo', 'Proofs/C10MoneyProofs.vo']
COQ_HEADER = ("From QV Require Import Model.Num Model.Rounding Model.Quantity "
              "Model.Rates Model.RatesExt Corr.Common Corr.Obs Corr.RatesCorr.")
COQ_CHECK = 'rates_check'
ISOLATE = True
SHARD = 250
RULE = ("seeded generator over the currencies EUR USD JPY KWD (+ a user currency with "
        "smallest fraction 0.05 for money). kind=new: ExchangeRate(unit, multiple, term, "
        "amount) with currencies as objects / registered codes / unknown codes / "
        "non-currencies, multiples {1,2,3,5,7,10,50,99,100,755,1000,12345,10^k} as "
        "int/Decimal/Fraction/str/float/bool/decimal.Decimal plus non-integral, zero, "
        "negative, non-decimal fractions, amounts 10^-6..10^6 (and up to 10^30) as "
        "Decimal/Fraction/float/str/int/decimal.Decimal: exact powers of ten, "
        "10^k(1 +- 10^-j) for j in 3..20, thirds, sevenths, 7-9 digit mantissas, exact "
        "ties in the seventh decimal of the scaled amount, the validity limit 10^-6 and "
        "its neighbours, zero, negative; malformed stream (non-numeric strings, None, "
        "lists, inf, nan, complex) compared by exception class. kind=pair: two valid "
        "rates over every ordered pattern of (unit,term)x(unit,term) of 4 currencies "
        "(144 patterns): both constructions, a rescaled copy (multiple*10, amount*10), "
        "inverted(), r1*r2, r2*r1, r1/r2, r2/r1, ==, hash equality. kind=money: "
        "money*rate, rate*money, money/rate for matching and mismatching currencies, "
        "amounts on ties of the target currency's fraction. every case under one of the "
        "8 default rounding modes. Steps whose exact adjusted amount (or unit multiple) "
        "lies within 1e-12 relative distance below a power of ten are compared on "
        ".rate up to one unit in the sixth decimal only (label approx-step; float log10 "
        "in the implementation / in decimalfp's pure-Python magnitude), the oracle still "
        "checks the full property on them and reports the known finding "
        "C09-float-log10-truncating-mode (deterministic witnesses: corpus/C09 cases 1-3, 6). "
        "non-trivial = a constructed or derived rate "
        "whose term amount needed rounding or whose multiple was changed, or a money "
        "result that needed rounding; distinct by (step kind, mode, exact value).")
ASSUMPTIONS = [
    "decimalfp's Decimal(x, 6) under the default mode is modelled by rnd_ref on the "
    "grid 10^-6 (validated by this correspondence and by C13 on every run)",
    "floor(log10 x): the model is exact (theorem C09_magnitude_spec); the "
    "implementation's math.log10 / decimalfp's pure-Python Decimal.magnitude are "
    "floats — inputs within 1e-12 relative distance below a power of ten are "
    "compared on .rate only (counted under label approx-step)",
    "currency identity (`is`) is modelled by equality of ids; currency smallest "
    "fractions come from an independent parse of the ISO 4217 table",
    "decimalfp quirks relied on by the classification of malformed multiples: "
    "Decimal(None) == 0, Decimal('1_000') is rejected, Decimal(True) == 1",
]
EXHAUSTIVE = {'quick': True, 'thorough': True}
EXHAUSTIVE_NOTE = ("all 144 ordered patterns (u1,t1,u2,t2), u_i != t_i, of two rates over 4 "
                   "currencies, each with *, / in both operand orders, inverted(), ==/hash: "
                   "complete in both tiers (thorough: under all 8 default modes)")

CURS = ['EUR', 'USD', 'JPY', 'KWD']
USER = {'sym': 'XCF', 'fraction': '1/20', 'minor': 2, 'given_fraction': True}
WORLD = {'predefined': False, 'currencies': CURS, 'user_currencies': [USER]}
HALF = ('MHDOWN', 'MHEVEN', 'MHUP')
Q6 = F(1, 10**6)


def frs(f):
    f = F(f)
    return f"{f.numerator}/{f.denominator}"


def exact_mag(x):
    """floor(log10 x) for a positive Fraction, exactly (integer arithmetic)."""
    x = F(x)
    k = len(str(x.numerator)) - len(str(x.denominator))
    while F(10) ** k > x:
        k -= 1
    while F(10) ** (k + 1) <= x:
        k += 1
    return k


def hazard(x):
    """x within 1e-12 relative distance below a power of ten."""
    x = F(x)
    if x <= 0:
        return False
    p = F(10) ** (exact_mag(x) + 1)
    return (p - x) * 10**12 <= p


# ------------------------------------------------------------ input specs

def dec_str(f):
    """decimal literal of a decimal-representable Fraction"""
    f = F(f)
    d, p = f.denominator, 0
    while d != 1:
        f *= 10
        p += 1
        d = f.denominator
    s = str(abs(f.numerator)).rjust(p + 1, '0')
    out = (s[:-p] + '.' + s[-p:]) if p else s
    return ('-' if f < 0 else '') + out


def num_spec(f, rng, kinds):
    """choose a representation of the exact value f -> spec (value may change
    for 'float': the float nearest to f)"""
    f = F(f)
    ok = []
    for k in kinds:
        if k in ('dec', 'stddec') and not W.is_decimal(f):
            continue
        if k == 'int' and f.denominator != 1:
            continue
        if k == 'bool' and f != 1:
            continue
        if k == 'float' and not (f == 0 or F(1, 10**300) < abs(f) < F(10)**300):
            continue
        ok.append(k)
    k = rng.choice(ok or ['frac'])
    if k == 'float':
        return ['float', float(f).hex()]
    if k == 'str':
        if W.is_decimal(f):
            s = dec_str(f)
            v = rng.random()
            if v < 0.15:
                s = ' ' + s + ' '
            elif v < 0.25 and f > 0:
                s = '+' + s
            elif v < 0.4:
                m = exact_mag(abs(f)) if f != 0 else 0
                s = dec_str(f / F(10) ** m) + 'e%d' % m
        else:
            s = f"{f.numerator}/{f.denominator}"
        return ['str', s, frs(f)]
    if k == 'bool':
        return ['bool', '1/1']
    return [k, frs(f)]


def spec_value(spec):
    """exact value of a numeric spec, None for malformed ones"""
    k = spec[0]
    if k in ('int', 'dec', 'frac', 'stddec', 'bool'):
        return F(spec[1])
    if k == 'float':
        return F(float.fromhex(spec[1]))
    if k == 'str':
        return F(spec[2])
    return None


def spec_object(spec):
    k = spec[0]
    if k in ('int', 'dec', 'frac', 'stddec'):
        return W.number((k, spec[1]))
    if k == 'float':
        return float.fromhex(spec[1])
    if k in ('str', 'badstr'):
        return spec[1]
    if k == 'bool':
        return True
    if k == 'none':
        return None
    if k == 'list':
        return []
    if k == 'inf':
        return float('inf')
    if k == 'nan':
        return float('nan')
    if k == 'complex':
        return 1j
    raise ValueError(k)


def num_in(spec, role):
    """model-side classification (Model/RatesExt.v num_in), from the spec alone"""
    v = spec_value(spec)
    if v is not None:
        return f"(NNum {cq(v)})"
    k = spec[0]
    if k == 'none':
        return f"(NNum {cq(0)})" if role == 'mult' else "NBadType"
    if k in ('list', 'complex'):
        return "NBadType"
    return "NBadValue"          # badstr, inf, nan


MULT_KINDS = ('int', 'dec', 'frac', 'str', 'float', 'stddec', 'bool')
AMT_KINDS = ('dec', 'frac', 'float', 'str', 'int', 'stddec')
AMT_KINDS_NOFLOAT = ('dec', 'frac', 'str', 'int', 'stddec')
GOOD_MULTS = [1, 1, 1, 2, 3, 5, 7, 10, 50, 99, 100, 755, 1000, 12345, 10**4, 10**5, 10**6,
              10**8, 10**12, 10**20, 999999, 10**6 + 1]
BAD_MULTS = [F(3, 2), F(1, 2), F(5, 2), F(1, 3), F(100, 3), 0, -1, -100, F(-3, 2),
             F(999999, 10**6), F(1, 10**6), 10**17 - 1, 10**20 - 1]
MALFORMED_MULT = [['badstr', 'abc'], ['badstr', ''], ['badstr', '1_000'], ['badstr', '3/1'],
                  ['badstr', '0x10'], ['none'], ['list'], ['inf'], ['nan'], ['complex']]
MALFORMED_AMT = [['badstr', 'abc'], ['badstr', ''], ['badstr', '1,5'], ['badstr', '1/0x'],
                 ['none'], ['list'], ['inf'], ['nan'], ['complex']]


SMOOTH = [1, 2, 4, 5, 8, 10, 16, 25, 32, 125, 128, 625, 1024, 3125, 15625, 2**20, 5**9]


def gen_amount(rng):
    r = rng.random()
    k = rng.randint(-6, 6)
    p = F(10) ** k
    if r < 0.10:
        return p
    if r < 0.30:
        j = rng.choice([3, 6, 7, 9, 11, 12, 13, 16, 20, 25])
        return p * (1 + rng.choice([-1, 1]) * F(1, 10**j))
    if r < 0.38:
        return rng.choice([Q6, Q6 - F(1, 10**9), Q6 + F(1, 10**9), F(9, 10**7),
                           F(99999999, 10**14), F(1, 10**6) * F(2, 3), F(10, 10**7) + F(1, 3 * 10**9),
                           0, -Q6, -1, F(-5, 4), F(1, 10**7), F(1, 3 * 10**5) / 4])
    if r < 0.50:
        return p * rng.choice([F(1, 3), F(2, 3), F(1, 7), F(22, 7), F(1, 9), F(10, 3)])
    if r < 0.62:
        # ties / near-ties in the 7th decimal (for multiple 1 and amounts in [0.1, 10^6))
        n = rng.randint(10**5, 10**9)
        return F(n, 10**6) + rng.choice([F(1, 2), F(1, 2) + F(1, 10**6), F(1, 2) - F(1, 10**6),
                                          F(1, 2) + F(1, 3 * 10**4)]) * Q6
    if r < 0.70:
        return F(rng.randint(1, 10**9)) * F(10) ** rng.randint(6, 30)
    m = rng.randint(10**6, 10**9 - 1)
    return F(m, 10 ** (len(str(m)) - 1)) * p


def valid_rate_spec(rng, u, t, near_one=False):
    m = F(rng.choice(GOOD_MULTS[:16]))
    if near_one and rng.random() < 0.5:
        # 2^a 5^b rates: every product, quotient and reciprocal terminates
        a = m * F(rng.choice(SMOOTH), rng.choice(SMOOTH))
        while not (F(1, 10**5) <= a / m <= 10**5):
            a = m * F(rng.choice(SMOOTH), rng.choice(SMOOTH))
    elif near_one:
        a = m * F(rng.randint(2, 4000), rng.choice([10, 100, 1000, 3, 7]))
    else:
        a = gen_amount(rng)
        while a < Q6 or a > 10**12:
            a = gen_amount(rng)
    # floats carry ~50 decimal digits; decimalfp's pure-Python division is slow
    # on them (13 ms per operation), so scripts with many operations get few
    sa = num_spec(a, rng, AMT_KINDS if rng.random() < 0.08 else AMT_KINDS_NOFLOAT)
    if spec_value(sa) < Q6:          # float(10^-6) is below the limit
        sa = ['frac', frs(a)]
    return {'u': ['obj', u], 'm': num_spec(m, rng, MULT_KINDS), 't': ['obj', t], 'a': sa}


def gen_cases(rng, tier):
    thorough = tier == 'thorough'
    cases = []
    n_new = 4000 if thorough else 500
    for _ in range(n_new):
        dm = rng.choice(W.MODES) if rng.random() < 0.7 else 'MHEVEN'
        u, t = rng.sample(CURS, 2)
        cu = [rng.choice(['obj', 'obj', 'code']), u]
        ct = [rng.choice(['obj', 'obj', 'code']), t]
        r = rng.random()
        if r < 0.06:
            ct = [rng.choice(['obj', 'code']), u]   # identical currencies, any mix of spellings
        elif r < 0.08:
            cu = rng.choice([['unknown', 'CHF'], ['unknown', 'XXQ'], ['bad', 'int'], ['bad', 'none']])
        elif r < 0.10:
            ct = rng.choice([['unknown', 'GBP'], ['unknown', ''], ['bad', 'float'], ['bad', 'money']])
        r = rng.random()
        if r < 0.80:
            m = num_spec(rng.choice(GOOD_MULTS), rng, MULT_KINDS)
        elif r < 0.94:
            m = num_spec(rng.choice(BAD_MULTS), rng, MULT_KINDS)
        else:
            m = rng.choice(MALFORMED_MULT)
        if rng.random() < 0.95:
            a = num_spec(gen_amount(rng), rng, AMT_KINDS)
        else:
            a = rng.choice(MALFORMED_AMT)
        cases.append({'kind': 'new', 'dm': dm, 'u': cu, 'm': m, 't': ct, 'a': a})
    # pairs: every currency-sharing pattern
    pats = [(u1, t1, u2, t2) for u1 in CURS for t1 in CURS if u1 != t1
            for u2 in CURS for t2 in CURS if u2 != t2]
    modes = W.MODES if thorough else [None]
    for dm0 in modes:
        for rep in range(1):
            for (u1, t1, u2, t2) in pats:
                dm = dm0 or (rng.choice(W.MODES) if rng.random() < 0.6 else 'MHEVEN')
                near = rng.random() < 0.7
                cases.append({'kind': 'pair', 'dm': dm,
                              'r1': valid_rate_spec(rng, u1, t1, near),
                              'r2': valid_rate_spec(rng, u2, t2, near)})
    # money
    mcurs = CURS + ['XCF']
    frac = fractions()
    for _ in range(2000 if thorough else 200):
        dm = rng.choice(W.MODES) if rng.random() < 0.7 else 'MHEVEN'
        u, t = rng.sample(mcurs, 2)
        spec = valid_rate_spec(rng, u, t, True)
        r = rng.random()
        cur = u if r < 0.4 else t if r < 0.8 else rng.choice(mcurs)
        tgt = t if cur == u else u
        v = rng.random()
        if v < 0.35:
            # amount that lands on / next to a tie of the target's fraction
            m, a = spec_value(spec['m']), spec_value(spec['a'])
            rate = a / m
            k = rng.randint(-300, 3000)
            want = (k + rng.choice([F(1, 2), F(1, 2), F(1, 3), F(1, 2) + F(1, 10**6)])) * frac[tgt]
            amt = want / rate if cur == u else want * rate
            amt = to_quantum('MHEVEN', amt, frac[cur])
        elif v < 0.45:
            amt = F(rng.choice([0, -1, 1, -250, 10**9])) * frac[cur]
        else:
            amt = F(rng.randint(-10**6, 10**7)) * frac[cur]
        cases.append({'kind': 'money', 'dm': dm, 'r': spec, 'cur': cur,
                      'amt': num_spec(amt, rng, ('dec', 'frac', 'int'))})
    return cases


_FRACTIONS = None


def fractions():
    """smallest fractions of the currencies, from the independent ISO parse"""
    global _FRACTIONS
    if _FRACTIONS is None:
        from vlib import iso4217
        table, _ = iso4217.load()
        _FRACTIONS = {c: F(1, 10 ** table[c][1]) for c in CURS}
        _FRACTIONS[USER['sym']] = F(USER['fraction'])
    return _FRACTIONS


def impl_setup():
    import quantity.money      # noqa: F401  children fork with the ISO table loaded


# ------------------------------------------------------------ implementation

def _cur_object(spec, units):
    k, v = spec
    if k == 'obj':
        return units[v]
    if k in ('code', 'unknown'):
        return v
    if v == 'money':
        from quantity.money import Money
        return Money(1, units['EUR'])
    return {'int': 5, 'none': None, 'float': 1.5}[v]


def _obs_rate(r, units, full):
    """what a user sees of an ExchangeRate (public API only).  decimalfp's
    pure-Python division costs ~13 ms whenever the quotient does not terminate,
    so the reduced form (full=False, used inside long scripts) reads the
    inverse rate once, through inverse_quotation, and skips the repr round trip"""
    from decimalfp import Decimal
    from quantity.money import ExchangeRate
    rep = repr(r)
    u, mult, t, amt = eval(rep, {'__builtins__': {}, 'ExchangeRate': lambda *a: a,
                                 'Currency': lambda s: s, 'Decimal': Decimal})
    qu, qt, qr = r.quotation
    iu, it, ir = r.inverse_quotation
    if full:
        try:
            back = eval(rep, {'__builtins__': {}, 'ExchangeRate': ExchangeRate,
                              'Currency': lambda s: units[s], 'Decimal': Decimal})
            roundtrip = bool(back == r and hash(back) == hash(r))
        except Exception:       # noqa: a rate whose repr cannot be evaluated back
            roundtrip = False
        inv = r.inverse_rate
    else:
        roundtrip, inv = True, ir
    return {'k': 'rate', 'u': r.unit_currency.symbol, 't': r.term_currency.symbol,
            'ru': u, 'rt': t, 'mult': frs(mult), 'amt': frs(amt),
            'rate': frs(r.rate), 'inv': frs(inv),
            'quo': [qu.symbol, qt.symbol, frs(qr)], 'iquo': [iu.symbol, it.symbol, frs(ir)],
            'roundtrip': roundtrip, 'full': full,
            'amt_prec_ok': F(amt) * 10**6 == int(F(amt) * 10**6)}


def _rate(thunk, units, full=False):
    from quantity.money import ExchangeRate
    try:
        r = thunk()
    except BaseException as e:    # noqa: the exception class is the observation
        if isinstance(e, (KeyboardInterrupt, SystemExit, MemoryError)):
            raise
        return None, {'k': 'err', 'e': W.err_name(e), 'py': type(e).__name__, 'msg': str(e)[:160]}
    if not isinstance(r, ExchangeRate):
        return None, {'k': 'other', 'v': repr(r)[:100]}
    return r, _obs_rate(r, units, full)


def _build(spec, units, full=False):
    from quantity.money import ExchangeRate
    return _rate(lambda: ExchangeRate(_cur_object(spec['u'], units), spec_object(spec['m']),
                                      _cur_object(spec['t'], units), spec_object(spec['a'])),
                 units, full)


def impl_run(case):
    W.set_mode(case['dm'])
    units, classes = W.instantiate(WORLD)
    k = case['kind']
    if k == 'new':
        return {'new': _build(case, units, True)[1]}
    if k == 'pair':
        r1, o1 = _build(case['r1'], units)
        r2, o2 = _build(case['r2'], units)
        out = {'r1': o1, 'r2': o2}
        if r1 is None or r2 is None:
            return out
        s = dict(case['r1'])
        m, a = spec_value(s['m']), spec_value(s['a'])
        s['m'], s['a'] = ['int', frs(m * 10)], ['frac', frs(a * 10)]
        r1c, out['r1c'] = _build(s, units)
        i1, out['inv1'] = _rate(r1.inverted, units)
        out['inv2'] = _rate(r2.inverted, units)[1]
        if i1 is not None:
            # the inverse of an inverse is computed afresh from the stored inverse
            # (seeded C09-f: inverted() cached with a back-link)
            out['inv1b'] = _rate(i1.inverted, units)[1]
        out['mul12'] = _rate(lambda: r1 * r2, units)[1]
        out['mul21'] = _rate(lambda: r2 * r1, units)[1]
        out['div12'] = _rate(lambda: r1 / r2, units)[1]
        out['div21'] = _rate(lambda: r2 / r1, units)[1]
        out['eq12'] = [bool(r1 == r2), hash(r1) == hash(r2), bool(r1 != r2)]
        if r1c is not None:
            out['eq1c'] = [bool(r1 == r1c), hash(r1) == hash(r1c), bool(r1 != r1c)]
        out['eq_other'] = [bool(r1 == 1), bool(r1 == 'x'), bool(r1 == None)]   # noqa
        return out
    if k == 'money':
        r, o = _build(case['r'], units)
        out = {'r': o}
        if r is None:
            return out
        Money = classes['Money']
        mny = Money(spec_object(case['amt']), units[case['cur']])
        out['m'] = W.observe(mny)
        out['mul'] = W.guarded(lambda: mny * r)
        out['rmul'] = W.guarded(lambda: r * mny)
        out['div'] = W.guarded(lambda: mny / r)
        out['m_after'] = W.observe(mny)
        return out
    raise ValueError(k)


# ------------------------------------------------------------ model side

_VIEWS = None


def views():
    global _VIEWS
    if _VIEWS is None:
        _VIEWS = W.Views(WORLD)
    return _VIEWS


def cur_in(spec):
    k, v = spec
    if k in ('obj', 'code'):
        return f"(CCur {cn(views().uid(v))})"
    if k == 'unknown':
        return "CUnknownCode"
    return "CNotCurrency"


def coq_robs(o):
    V = views()
    if o['k'] == 'err':
        return f"(RErr {o['e']})"
    if o['k'] != 'rate' or o['ru'] != o['u'] or o['rt'] != o['t'] or not o['amt_prec_ok']:
        return "ROther"
    return (f"(ROk {cn(V.uid(o['u']))} {cn(V.uid(o['t']))} {cq(F(o['mult']))} {cq(F(o['amt']))} "
            f"{cq(F(o['rate']))} {cq(F(o['inv']))} {cn(V.uid(o['quo'][0]))} "
            f"{cn(V.uid(o['quo'][1]))} {cq(F(o['quo'][2]))} {cbool(o['roundtrip'])})")


def coq_rate(o):
    V = views()
    return (f"(mkRate {cn(V.uid(o['u']))} {cn(V.uid(o['t']))} {cq(F(o['mult']))} "
            f"{cq(F(o['amt']))})")


def new_hazard(spec):
    """the exact adjusted amount or the multiple is just below a power of ten"""
    m, a = spec_value(spec['m']), spec_value(spec['a'])
    if m is None or a is None or m < 1 or m.denominator != 1 or a < Q6:
        return False
    if hazard(m):
        return True
    return hazard(a * F(10) ** exact_mag(m) / m)


def steps_of(case, r):
    """-> list of (tag, coq step, approx flag)"""
    k = case['kind']
    out = []

    def new(spec, o, tag):
        hz = new_hazard(spec)
        out.append((tag, f"(SNew {cur_in(spec['u'])} {num_in(spec['m'], 'mult')} "
                         f"{cur_in(spec['t'])} {num_in(spec['a'], 'amt')} {cbool(hz)} "
                         f"{coq_robs(o)})", hz))

    if k == 'new':
        new(case, r['new'], 'new')
        return out
    if k == 'pair':
        new(case['r1'], r['r1'], 'new')
        new(case['r2'], r['r2'], 'new')
        o1, o2 = r['r1'], r['r2']
        if 'inv1' not in r:
            return out
        x1, x2 = F(o1['rate']), F(o2['rate'])
        for tag, o, x in (('inv1', o1, 1 / x1), ('inv2', o2, 1 / x2)):
            hz = hazard(x)
            out.append(('inv', f"(SInv {coq_rate(o)} {cbool(hz)} {coq_robs(r[tag])})", hz))
        if r.get('inv1b') and r['inv1'].get('k') == 'rate':
            xi = 1 / F(r['inv1']['rate'])
            out.append(('inv', f"(SInv {coq_rate(r['inv1'])} {cbool(hazard(xi))} "
                               f"{coq_robs(r['inv1b'])})", hazard(xi)))
        for tag, a, b, x in (('mul12', o1, o2, x1 * x2), ('mul21', o2, o1, x1 * x2)):
            hz = hazard(x)
            out.append(('mul', f"(SMul {coq_rate(a)} {coq_rate(b)} {cbool(hz)} {coq_robs(r[tag])})", hz))
        for tag, a, b, x in (('div12', o1, o2, x1 / x2), ('div21', o2, o1, x2 / x1)):
            hz = hazard(x)
            out.append(('div', f"(SDiv {coq_rate(a)} {coq_rate(b)} {cbool(hz)} {coq_robs(r[tag])})", hz))
        e = r['eq12']
        out.append(('eq', f"(SEq {coq_rate(o1)} {coq_rate(o2)} {cbool(e[0])} {cbool(e[1])})", False))
        if 'eq1c' in r and r['r1c']['k'] == 'rate':
            e = r['eq1c']
            out.append(('eq', f"(SEq {coq_rate(o1)} {coq_rate(r['r1c'])} {cbool(e[0])} {cbool(e[1])})", False))
        return out
    if k == 'money':
        new(case['r'], r['r'], 'new')
        if 'm' not in r:
            return out
        V = views()
        us = clist([V.coq(s) for s in CURS + [USER['sym']]])
        m = r['m']
        qty = f"(mkQty {cq(F(m['amt']))} {V.coq(m['sym'])})"
        rt = coq_rate(r['r'])
        out.append(('money-mul', f"(SMoneyMul {us} {qty} {rt} {W.coq_obs(r['mul'], V)} "
                                 f"{W.coq_obs(r['rmul'], V)})", False))
        out.append(('money-div', f"(SMoneyDiv {us} {qty} {rt} {W.coq_obs(r['div'], V)})", False))
        return out
    raise ValueError(k)


def coq_case(case, r):
    return f"(KRates {case['dm']} {clist([s for _, s, _ in steps_of(case, r)])})"


def coq_model_term(case, r):
    return f"rates_model {coq_case(case, r)}"


# ------------------------------------------------------------ oracle

def is_pow10_ge1(x):
    x = F(x)
    if x.denominator != 1 or x < 1:
        return False
    s = str(x.numerator)
    return s[0] == '1' and set(s[1:]) <= {'0'}


TRUNCATING = ('MDOWN', 'MFLOOR', 'M05UP')
KNOWN_KEY = 'C09-float-log10-truncating-mode'
KNOWN_MARK = '[float-log10 hazard below a power of ten, truncating default mode]'


def known_pattern(o, dm, hz):
    """the one known way to a term amount of magnitude -2 (known_findings.json,
    key C09-float-log10-truncating-mode): the float log10 takes an adjusted
    amount within 1e-12 (relative) below a power of ten for that power, the
    amount is scaled one decade too little, and a truncating default mode
    (ROUND_DOWN / ROUND_FLOOR / ROUND_05UP) rounds 0.0999999... to 0.099999.
    Anything else below 1/10 is an unknown violation."""
    return (bool(hz) and dm in TRUNCATING and o['k'] == 'rate'
            and F(o['amt']) == F(99999, 10**6))


def check_rate(o, dm, u, t, x, what, hz=None):
    """property text on an observed rate: currencies (u -> t), normal form,
    accuracy against the exact rate x, self-consistency of the views"""
    if hz is None:
        hz = hazard(x)
    if o['k'] != 'rate':
        return f"{what}: expected a rate {u}->{t} for exact rate {x}, got {o}"
    if (o['u'], o['t']) != (u, t) or (o['ru'], o['rt']) != (u, t):
        return f"{what}: currencies {o['u']}->{o['t']} (repr {o['ru']}->{o['rt']}), expected {u}->{t}"
    mult, amt, rate, inv = F(o['mult']), F(o['amt']), F(o['rate']), F(o['inv'])
    if not is_pow10_ge1(mult):
        return f"{what}: unit multiple {mult} is not a power of ten >= 1"
    if amt <= 0 or (amt * 10**6).denominator != 1:
        return f"{what}: term amount {amt} not positive with at most 6 fractional digits"
    if amt < F(1, 10):
        mark = ' ' + KNOWN_MARK if known_pattern(o, dm, hz) else ''
        return f"{what}: term amount {amt} has magnitude < -1 (mode {dm}){mark}"
    err = abs(amt - x * mult)
    if dm in HALF:
        if err > Q6 / 2:
            return f"{what}: |{amt} - {x}*{mult}| = {err} > 1/2 * 10^-6 (mode {dm})"
    elif err >= Q6:
        return f"{what}: |{amt} - {x}*{mult}| = {err} >= 10^-6 (directed mode {dm})"
    if rate != amt / mult or inv != mult / amt or rate * inv != 1:
        return f"{what}: rate/inverse_rate inconsistent: {rate}, {inv} for {amt}/{mult}"
    if o['quo'] != [u, t, frs(rate)] or o['iquo'] != [t, u, frs(inv)]:
        return f"{what}: quotation {o['quo']} / inverse quotation {o['iquo']}"
    if not o['roundtrip']:
        return f"{what}: eval(repr(r)) != r or hashes differ"
    return None


def expect_error(o, cls, what):
    if o['k'] != 'err' or o['e'] != cls:
        return f"{what}: expected {cls}, got {o}"
    return None


def oracle_new(spec, o, dm, what='ExchangeRate(...)'):
    if spec['u'][0] not in ('obj', 'code') or spec['t'][0] not in ('obj', 'code'):
        return None
    u, t = spec['u'][1], spec['t'][1]
    if u == t:
        return expect_error(o, 'EValueError', what + ' identical currencies')
    m, a = spec_value(spec['m']), spec_value(spec['a'])
    if m is None:
        return None
    if m.denominator != 1 or m < 1:
        return expect_error(o, 'EValueError', what + f" multiple {m}")
    if a is None:
        return None
    if a < Q6:
        return expect_error(o, 'EValueError', what + f" amount {a}")
    return check_rate(o, dm, u, t, a / m, what + f" {u} {m} {t} {a}", new_hazard(spec))


def oracle_derived(o, dm, u, t, x, what):
    if u == t:
        return None      # no two remaining currencies: outside the property text
    if x < Q6:
        return expect_error(o, 'EValueError', what + f" (rate {x} < 10^-6)")
    return check_rate(o, dm, u, t, x, what)


def first_message(msgs):
    """unknown failures first: a known finding must never hide another one"""
    msgs = [m for m in msgs if m]
    msgs.sort(key=lambda m: KNOWN_MARK in m)
    return msgs[0] if msgs else None


def oracle(case, r):
    k, dm = case['kind'], case['dm']
    if k == 'new':
        return oracle_new(case, r['new'], dm)
    if k == 'pair':
        o1, o2 = r['r1'], r['r2']
        msgs = [oracle_new(case['r1'], o1, dm, 'r1'), oracle_new(case['r2'], o2, dm, 'r2')]
        if 'inv1' not in r:
            return first_message(msgs) or "valid rates could not be built"
        if any(m and KNOWN_MARK not in m for m in msgs):
            return first_message(msgs)
        for o, inv, nm in ((o1, r['inv1'], 'r1'), (o2, r['inv2'], 'r2')):
            msgs.append(oracle_derived(inv, dm, o['t'], o['u'], 1 / F(o['rate']), nm + '.inverted()'))
        if r.get('inv1b') and r['inv1'].get('k') == 'rate':
            i = r['inv1']
            msgs.append(oracle_derived(r['inv1b'], dm, i['t'], i['u'], 1 / F(i['rate']),
                                       'r1.inverted().inverted()'))
        for a, b, res, nm in ((o1, o2, r['mul12'], 'r1*r2'), (o2, o1, r['mul21'], 'r2*r1')):
            x = F(a['rate']) * F(b['rate'])
            s1, s2 = a['u'] == b['t'], a['t'] == b['u']
            if s1 and s2:
                continue
            if s1:      # b: ub -> (tb = ua), a: ua -> ta  ==> ub -> ta
                msgs.append(oracle_derived(res, dm, b['u'], a['t'], x, nm))
            elif s2:    # a: ua -> (ta = ub), b: ub -> tb  ==> ua -> tb
                msgs.append(oracle_derived(res, dm, a['u'], b['t'], x, nm))
            else:
                msgs.append(expect_error(res, 'EValueError', nm + ' without shared currency'))
        for a, b, res, nm in ((o1, o2, r['div12'], 'r1/r2'), (o2, o1, r['div21'], 'r2/r1')):
            x = F(a['rate']) / F(b['rate'])
            s1, s2 = a['u'] == b['u'], a['t'] == b['t']
            if s1 and s2:
                continue
            if s1:      # 1 X = ra Y, 1 X = rb Z  ==>  1 Z = ra/rb Y : Z -> Y
                msgs.append(oracle_derived(res, dm, b['t'], a['t'], x, nm))
            elif s2:    # 1 X = ra Z, 1 Y = rb Z  ==>  1 X = ra/rb Y : X -> Y
                msgs.append(oracle_derived(res, dm, a['u'], b['u'], x, nm))
            else:
                msgs.append(expect_error(res, 'EValueError', nm + ' without shared currency'))
        same = (o1['u'], o1['t'], F(o1['rate'])) == (o2['u'], o2['t'], F(o2['rate']))
        e = r['eq12']
        if e[0] != same or e[2] == e[0] or (same and not e[1]):
            msgs.append(f"r1 == r2: {e}, equal quotations: {same}")
        if 'eq1c' in r:
            oc = r['r1c']
            if oc['k'] != 'rate':
                msgs.append(f"rescaled copy of r1 rejected: {oc}")
            else:
                same = (o1['u'], o1['t'], F(o1['rate'])) == (oc['u'], oc['t'], F(oc['rate']))
                e = r['eq1c']
                if e[0] != same or e[2] == e[0] or (same and not e[1]):
                    msgs.append(f"r1 == rescaled r1: {e}, equal quotations: {same}")
        if any(r['eq_other']):
            msgs.append(f"rate == non-rate: {r['eq_other']}")
        return first_message(msgs)
    if k == 'money':
        o = r['r']
        msg = oracle_new(case['r'], o, dm, 'r')
        if 'm' not in r:
            return msg or "valid rate could not be built"
        if msg and KNOWN_MARK not in msg:
            return msg
        fr = fractions()
        m = r['m']
        if r['m_after'] != m:
            return "money operand changed"
        amt, cur, rate = F(m['amt']), m['sym'], F(o['rate'])

        def want(res, tgt, x, what):
            exp = to_quantum(dm, x, fr[tgt])
            if res['k'] != 'qty' or res['cls'] != 'Money' or res['sym'] != tgt \
                    or res.get('float') or F(res['amt']) != exp:
                return f"{what}: got {res}, expected {exp} {tgt}"
            return None
        msgs = [msg]
        for res, nm in ((r['mul'], 'money*rate'), (r['rmul'], 'rate*money')):
            msgs.append(want(res, o['t'], amt * rate, nm) if cur == o['u']
                        else expect_error(res, 'EValueError', nm + ' currency mismatch'))
        msgs.append(want(r['div'], o['u'], amt / rate, 'money/rate') if cur == o['t']
                    else expect_error(r['div'], 'EValueError', 'money/rate currency mismatch'))
        return first_message(msgs)
    return None


def classify(case, res, msg):
    """key of a known finding (known_findings.json).  Exactly the pattern of
    [known_pattern], recognised by the oracle from the exact inputs and marked
    in its message; for a plain constructor case it is re-derived here from
    the case and the observation.  Any other magnitude < -1 gets no key and
    stays a VIOLATION."""
    if msg is None or KNOWN_MARK not in msg or 'has magnitude < -1' not in msg:
        return None
    if case.get('dm') not in TRUNCATING:
        return None
    if case.get('kind') == 'new':
        o = (res or {}).get('new') or {}
        if not (new_hazard(case) and o.get('k') == 'rate'
                and F(o['amt']) == F(99999, 10**6)):
            return None
    return KNOWN_KEY


# ------------------------------------------------------------ evidence

def _res_label(o):
    return o['e'] if o['k'] == 'err' else o['k']


def _rates_in(r):
    return [v for v in r.values() if isinstance(v, dict) and v.get('k') == 'rate']


def labels(case, r):
    k = case['kind']
    out = ['kind=' + k, 'dflt=' + case['dm']]
    steps = steps_of(case, r)
    for tag, _, hz in steps:
        out.append('step=' + tag)
        if hz:
            out.append('approx-step')
    for o in _rates_in(r):
        if o['k'] == 'rate' and F(o['amt']) < F(1, 10):
            out.append('known-finding:magnitude<-1')
    if k == 'new':
        out.append('new-result=' + _res_label(r['new']))
        out.append('mult-kind=' + case['m'][0])
        out.append('amt-kind=' + case['a'][0])
        out.append('cur-kinds=' + case['u'][0] + '/' + case['t'][0])
        m, a = spec_value(case['m']), spec_value(case['a'])
        if m is not None and a is not None and m >= 1 and m.denominator == 1 and a >= Q6:
            adj = a * F(10) ** exact_mag(m) / m
            out.append('adj-magnitude=%+d' % max(-8, min(8, exact_mag(adj))))
            if r['new']['k'] == 'rate':
                x = a / m * F(r['new']['mult']) * 10**6
                d = x - math.floor(x)
                out.append('tie' if d == F(1, 2) else 'exact' if d == 0 else 'inexact')
    elif k == 'pair':
        for nm in ('inv1', 'inv2', 'mul12', 'mul21', 'div12', 'div21'):
            if nm in r:
                out.append(nm[:3] + '-result=' + _res_label(r[nm]))
        if 'eq12' in r:
            out.append('eq12=' + str(r['eq12'][0]))
        if 'eq1c' in r:
            out.append('eq-rescaled=' + str(r['eq1c'][0]))
    elif k == 'money' and 'mul' in r:
        out.append('money-mul=' + _res_label(r['mul']))
        out.append('money-div=' + _res_label(r['div']))
    return out


def nontrivial_key(case, r):
    k, dm = case['kind'], case['dm']
    if k == 'new':
        o = r['new']
        m, a = spec_value(case['m']), spec_value(case['a'])
        if o['k'] != 'rate' or m is None or a is None:
            return None
        if F(o['mult']) != m or F(o['amt']) != a:
            return ('new', dm, m, a)
        return None
    if k == 'pair':
        if 'mul12' not in r:
            return None
        oks = tuple(nm for nm in ('inv1', 'inv2', 'mul12', 'mul21', 'div12', 'div21')
                    if r[nm]['k'] == 'rate')
        if not oks:
            return None
        return ('pair', dm, r['r1']['u'], r['r1']['t'], r['r2']['u'], r['r2']['t'],
                r['r1']['rate'], r['r2']['rate'])
    if k == 'money':
        if 'mul' not in r:
            return None
        for nm, f in (('mul', lambda a, x: a * x), ('div', lambda a, x: a / x)):
            res = r[nm]
            if res['k'] == 'qty' and F(res['amt']) != f(F(r['m']['amt']), F(r['r']['rate'])):
                return ('money', dm, nm, r['m']['amt'], r['r']['rate'], res['sym'])
        return None
    return None
