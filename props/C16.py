"""C16 — rejected declarations leave no trace."""
from vlib import world as W, regops as R, regworld as RW, core
import props.C15 as C15
import props.C11 as C11

PID = 'C16'
PROPERTY_FILE = 'Properties/C16.v'
# generated model parts (translate/) this property's model / proofs really depend on
GEN_DEPS = ['EffectsImpl', 'StateInventory']
MODEL_TARGETS = R.MODEL_TARGETS
PROOF_TARGETS = ['Proofs/C15Proofs.vo', 'Proofs/C11Proofs.vo', 'Proofs/EffectsProofs.vo']
COQ_HEADER = R.COQ_HEADER
COQ_CHECK = R.COQ_CHECK
ISOLATE = True
SHARD = 300


def coq_case(case, r):
    if case.get('k') == 'conv':
        return None        # the converter's model is C11's (Proofs/C11Proofs.vo is an obligation here)
    return R.coq_case(case, r)


def coq_model_term(case, r):
    return R.coq_model_term(case, r)
RULE = ("declaration histories of 4-22 steps with faults injected at random positions (about "
        "35 % of the steps: duplicate / empty symbol, dimension already taken with and without "
        "an own reference symbol, definition of another type or dimension, wrong base units, "
        "quantum without reference unit, invalid currency parameters), then declarations that "
        "re-use the symbols of the rejected steps, then the full observation vector: Unit(sym) "
        "for every symbol ever mentioned, cls.units() of every type, the generic factory on "
        "'1 sym', and products / quotients of the units involved in rejected steps.  Every history is run twice in fresh processes: as given, and with the "
        "rejected steps left out (the twin); the oracle demands identical observations and "
        "identical outcomes of all later steps.  The model runs the history as given.  "
        "Rejected updates of a money converter: update histories with rejected updates (invalid "
        "validity, mixed kinds, bad entries; also as the very first update) through C11's harness, "
        "model and oracle (theorem C11_failed_update_unchanged). "
        "non-trivial = at least one step was rejected; distinct by script.")
ASSUMPTIONS = C15.ASSUMPTIONS
EXHAUSTIVE = {}


def gen_cases(rng, tier):
    cases = []
    n = 220 if tier == 'quick' else 3500
    for i in range(n):
        tag = ''.join(rng.choice('abcdefghk') for _ in range(3))
        script, w, exp = RW.gen_history(rng, tag, fault_p=0.35)
        # later valid declarations re-using the symbols of rejected steps
        late = []
        base = next((c for c in w.classes.values() if c['base'] and c['ref'] and not c['money']), None)
        for d, e in zip(script, exp):
            if e is None or base is None:
                continue
            sym = d.get('sym') or d.get('ref')
            if sym and sym not in w.units and sym.strip() == sym and len(late) < 3:
                dd = {'d': 'unit', 'cls': base['name'], 'sym': sym,
                      'def': ['qty', ['int', '3/1'], base['ref']]}
                if w.apply(dd) is None:
                    late.append(dd)
        # products / quotients evaluated after the history: a rejected unit must not be
        # reachable through the definition directory either
        probes = []
        for d, e in zip(script, exp):
            if d['d'] == 'derive' and len(d['units']) == 2 and d['cls'] in w.classes \
                    and w.classes[d['cls']]['cdef'] and all(u in w.units for u in d['units']):
                es = [x for _, x in w.classes[d['cls']]['cdef']]
                if len(es) == 2 and es[0] == 1 and es[1] in (1, -1):
                    probes.append(['mul' if es[1] == 1 else 'div',
                                   ['q', ['int', '6/1'], d['units'][0]], ['q', ['int', '2/1'], d['units'][1]]])
        us = [s for s in w.order if not w.units[s].get('sf')]
        for _ in range(3):
            if len(us) >= 2:
                probes.append([rng.choice(['mul', 'div']), ['u', rng.choice(us)], ['u', rng.choice(us)]])
        cases.append({'dm': rng.choice(W.MODES), 'pre': False, 'script': script, 'hist': probes[:8],
                      'late': late, 'q': C15._dirq(w, script + late)})
    # a derived type rejected for the SYMBOL of its reference unit, then declared properly: the
    # products that resolve to its dimension must find the second type's unit, not a leftover
    # of the first attempt (seeded C17-h: unit entered in the definition directory first)
    for i in range(12 if tier == 'quick' else 120):
        tag = ''.join(rng.choice('abcdefghk') for _ in range(3))
        e = rng.choice([1, -1])
        script = [
            {'d': 'cls', 'name': f"A{tag}", 'def': None, 'ref': f"{tag}a", 'quantum': None},
            {'d': 'unit', 'cls': f"A{tag}", 'sym': f"{tag}ka", 'def': ['qty', ['int', '1000/1'], f"{tag}a"]},
            {'d': 'cls', 'name': f"B{tag}", 'def': None, 'ref': f"{tag}b", 'quantum': None},
            {'d': 'unit', 'cls': f"B{tag}", 'sym': f"{tag}hb", 'def': ['qty', ['int', '3600/1'], f"{tag}b"]},
            {'d': 'cls', 'name': f"V{tag}", 'def': [[f"A{tag}", 1], [f"B{tag}", e]],
             'ref': rng.choice([f"{tag}b", f"{tag}ka"]), 'quantum': None},          # rejected
            {'d': 'cls', 'name': f"W{tag}", 'def': [[f"A{tag}", 1], [f"B{tag}", e]], 'ref': None,
             'quantum': None},
        ]
        w = RW.RefWorld()
        for d in script:
            w.apply(d)
        o = 'mul' if e > 0 else 'div'
        probes = [[o, ['q', ['int', '3/1'], f"{tag}ka"], ['q', ['int', '2/1'], f"{tag}hb"]],
                  [o, ['u', f"{tag}a"], ['u', f"{tag}b"]], [o, ['u', f"{tag}ka"], ['q', ['int', '5/1'], f"{tag}b"]]]
        cases.append({'dm': 'MHEVEN', 'pre': False, 'script': script, 'hist': probes, 'late': [],
                      'q': C15._dirq(w, script)})
    # rejected updates of a money converter (C11's harness and independent oracle)
    for i in range(24 if tier == 'quick' else 240):
        sc = (C11.gen_script_rejected_first, C11.gen_script, C11.gen_script_unregistered)[i % 3](rng)
        cases.append({'k': 'conv', 'c': sc})
    return cases


def impl_run(case):
    if case.get('k') == 'conv':
        return {'conv': C11.impl_run(case['c'])}
    tag, full = core.run_isolated(R.impl_run, case)
    if tag != 'ok':
        raise RuntimeError(full)
    keep = [d for d, s in zip(case['script'], full['steps']) if s is None]
    tag, twin = core.run_isolated(R.impl_run, dict(case, script=keep))
    if tag != 'ok':
        raise RuntimeError(twin)
    full['twin'] = {'res': twin['res'], 'late': twin['late'], 'steps': twin['steps'],
                    'hist': twin['hist']}
    return full


def oracle(case, r):
    if case.get('k') == 'conv':
        msg = C11.oracle(case['c'], r['conv'])
        # what C11 lists as known findings (identity rate, unrepresentable derived rate)
        # concerns the reported rate, not traces of rejected updates
        return None if msg and C11.classify(case['c'], r['conv'], msg) else msg
    merged = dict(case, script=case['script'] + case['late'])
    msg = C15.oracle(merged, dict(r, steps=r['steps'] + r['late']))
    if msg:
        return msg
    tw = r['twin']
    if any(s is not None for s in tw['steps']):
        return f"a step accepted in the full history is rejected when the rejected steps are left out: {tw['steps']}"
    if [s and s['e'] for s in tw['late']] != [s and s['e'] for s in r['late']]:
        return (f"later declarations behave differently after rejected attempts: "
                f"{[s and s['e'] for s in r['late']]} vs {[s and s['e'] for s in tw['late']]} without them")
    if any(s is not None for s in r['late']):
        return f"a symbol of a rejected declaration is not available afterwards: {r['late']}"
    if tw['hist'] != r['hist']:
        diff = [(m, a, b) for m, a, b in zip(case['hist'], r['hist'], tw['hist']) if a != b]
        return (f"a rejected declaration changed a later result: {diff[0][0]} gives {diff[0][1]} "
                f"but {diff[0][2]} when the rejected steps are left out")
    if tw['res'] != r['res']:
        a, b = r['res'], tw['res']
        for k in ('us', 'cs', 'parse'):
            if a[k] != b[k]:
                diff = [(s, x, y) for s, x, y in zip(case['q']['syms' if k != 'cs' else 'clss'], a[k], b[k]) if x != y]
                return f"rejected declarations left a trace ({k}): {diff[:3]}"
    return None


def labels(case, r):
    if case.get('k') == 'conv':
        return ['kind=converter-updates']
    return C15.labels(case, r) + ['rejected=%d' % sum(1 for s in r['steps'] if s is not None),
                                  'redeclared=%d' % len(case['late'])]


def nontrivial_key(case, r):
    if case.get('k') == 'conv':
        return str(case['c']['steps'])
    if any(s is not None for s in r['steps']):
        return str(case['script'])
    return None
