"""C12 — converter registration is last-in-first-out and restores prior behaviour."""
import hashlib
import itertools
import json
from fractions import Fraction as F
from math import lcm

from vlib import world as W
from vlib.core import cq, cn, clist

PID = 'C12'
PROPERTY_FILE = 'Properties/C12.v'
# generated model parts (translate/) this property's model / proofs really depend on
GEN_DEPS = ['ConvStackImpl', 'StateInventory']
MODEL_TARGETS = ['Corr/ConvStackCorr.vo']
PROOF_TARGETS = ['Proofs/GenConvStackEq.vo', 'Proofs/C12Proofs.vo']
COQ_REQUIRE = ("From QV Require Import Model.Num Model.Quantity Model.ConvStack "
               "Corr.Common Corr.ConvStackCorr.")
COQ_CHECK = 'c12_check'
# the cases clean the two converter registries up through the public API and
# verify that they start empty; no fork per case (150 000 cases in thorough)
ISOLATE = False
SHARD = 1200
RULE = ("EXHAUSTIVE: every sequence of register/remove calls of length 0..5 (quick) / "
        "0..6 (thorough) over 3 real MoneyConverter objects with distinguishable "
        "constant rates (each call made either through Money.register_converter/"
        "remove_converter or through __enter__/__exit__, incl. __exit__ with "
        "exception info), the same over 3 converters (two TableConverters, one plain "
        "callable returning None for some pairs) of a user type without reference "
        "unit, and every sequence of length 1..3 / 1..4 over the 12-letter alphabet "
        "reg/rem/enter/leave x 3.  Observed per sequence: the result or exception "
        "class of every call, then list(registered_converters()) and two probe "
        "conversions after the last call (every prefix is a case of its own, so the "
        "registry is observed after every call of every sequence).  EXHAUSTIVE: every "
        "forest of <= 3 (quick) / 4 (thorough) real `with` blocks x every assignment "
        "of 3 converters x a raise at every program point (or none), run with real "
        "`with` statements, a probe conversion at every program point.  Plus seeded "
        "random call sequences up to length 40 with random rate tables, a "
        "non-MoneyConverter object, same-currency conversions, and random block "
        "programs (nested with / try / raise / unguarded failing conversions / direct "
        "calls inside blocks, non-empty initial registry).  Rates given to the model "
        "come from the case script.  non-trivial = at least two converters were "
        "registered at once or a call was refused (programs: nesting depth >= 2 or a "
        "block left by an exception); distinct by the call sequence / program.")
ASSUMPTIONS = [
    "behaviour tables of the converters are computed by the case script from the "
    "declared rates (direct, inverse, cross rate; table forward then reverse) and "
    "are validated against the library only through the observed conversions",
    "amounts are chosen so that converted money amounts lie on the currency's "
    "quantum grid (the constructor's rounding, property C05/C08, is not modelled here)",
    "the with-statement protocol of CPython (__exit__ is called on normal and "
    "exceptional exit; a None result lets the exception propagate) is mirrored, not proved",
]
EXHAUSTIVE = {'quick': True, 'thorough': True}
EXHAUSTIVE_NOTE = ("all register/remove sequences of length <= 5 (quick) / <= 6 (thorough) "
                   "over 3 converters for Money and for a user type; all sequences of "
                   "length <= 3 / <= 4 over reg/rem/enter/leave x 3; all block forests "
                   "with <= 3 / 4 blocks x converter assignment x raise position")

CURS = ['EUR', 'USD', 'GBP']           # unit ids 0, 1, 2
NGEN = 3                               # units of the user type
ERRS = ['EKeyError', 'EZeroDivision', 'EValueError', 'EOther']


def frs(f):
    f = F(f)
    return f"{f.numerator}/{f.denominator}"


# ------------------------------------------------------------ behaviour tables
# (independent of the library: what the declared rates MEAN)

def mc_table(spec):
    """MoneyConverter(base) with constant rates 'r term per 1 base'."""
    b = spec['base']
    rates = {t: F(r) for t, r in spec['rates']}
    tab = {}
    for t, r in rates.items():
        tab[(b, t)] = (r, F(0))
        tab[(t, b)] = (1 / r, F(0))
    for t1, r1 in rates.items():
        for t2, r2 in rates.items():
            if t1 != t2:
                tab[(t1, t2)] = (r2 / r1, F(0))
    return tab


def table_table(spec):
    """TableConverter: forward entry first, else the reverse formula."""
    fwd = {}
    for f, t, k, o in spec['e']:
        fwd[(f, t)] = (F(k), F(o))
    tab = dict(fwd)
    for (f, t), (k, o) in fwd.items():
        if (t, f) not in fwd:
            tab[(t, f)] = (1 / k, -o / k)
    return tab


def fn_table(spec):
    return {(f, t): (F(k), F(o)) for f, t, k, o in spec['e']}


def conv_table(spec):
    return {'mc': mc_table, 'table': table_table, 'fn': fn_table,
            'plain': lambda s: {}}[spec['t']](spec)


def apply_table(tab, a, f, t):
    e = tab.get((f, t))
    return None if e is None else e[0] * F(a) + e[1]


# ------------------------------------------------------------ generation

MC3 = [
    {'t': 'mc', 'base': 0, 'rates': [[1, '5/4'], [2, '1/2']]},
    {'t': 'mc', 'base': 0, 'rates': [[1, '2']]},
    {'t': 'mc', 'base': 2, 'rates': [[0, '4']]},
]
MPROBES = [['10', 0, 1], ['30', 2, 0]]
GEN3 = [
    {'t': 'table', 'map': False, 'e': [[0, 1, '2', '0'], [1, 2, '1/3', '5']]},
    {'t': 'table', 'map': True, 'e': [[0, 1, '3', '1']]},
    {'t': 'fn', 'bound': True, 'e': [[0, 2, '7', '0'], [1, 0, '1/4', '-1']]},
]
GPROBES = [['10', 0, 1], ['9', 2, 0]]
RATES = ['1/2', '2', '5/4', '4/5', '4', '1/4', '5/2', '2/5', '1', '10', '5', '1/5']


def _api(rng, ops):
    """choose for every call the public entry point it is made through"""
    out = []
    for k, i in ops:
        r = rng.random()
        if k == 'reg':
            out.append(['enter', i] if r < 0.5 else ['reg', i])
        else:
            out.append(['leave', i, rng.choice([None, None] + ERRS[:2])] if r < 0.5
                       else ['rem', i])
    return out


def _random_mc(rng):
    base = rng.randrange(3)
    terms = [t for t in range(3) if t != base and rng.random() < 0.7]
    return {'t': 'mc', 'base': base, 'rates': [[t, rng.choice(RATES)] for t in terms]}


def _money_convs(rng):
    convs = [_random_mc(rng) for _ in range(rng.randint(2, 4))]
    if rng.random() < 0.5:
        convs.append({'t': 'plain'})
    return convs


def _grid_amount(rng, convs):
    """an amount whose image under every rate of the case is integral"""
    den = 1
    for sp in convs:
        for k, o in conv_table(sp).values():
            den = lcm(den, k.denominator)
            # ExchangeRate keeps 6 fractional digits: the declared rates are exact
            assert (k * 10 ** 6).denominator == 1, k
    return den * rng.randint(1, 9)


def _money_probes(rng, convs):
    ps = []
    for _ in range(2):
        f, t = rng.randrange(3), rng.randrange(3)
        ps.append([str(_grid_amount(rng, convs)), f, t])
    return ps


def _random_money_ops(rng, convs, n):
    ops = []
    depth = []           # bias towards well-nested use, with disturbances
    for _ in range(n):
        r = rng.random()
        i = rng.randrange(len(convs))
        plain = convs[i]['t'] != 'mc'      # no context manager: direct calls only
        if r < 0.30:
            ops.append(['reg' if plain else rng.choice(['reg', 'enter']), i])
            depth.append(i)
        elif r < 0.55 and depth:
            j = depth.pop() if rng.random() < 0.8 else i
            ops.append(['leave', j, rng.choice([None] + ERRS[:2])]
                       if rng.random() < 0.5 and convs[j]['t'] == 'mc' else ['rem', j])
        elif r < 0.65:
            ops.append(['rem', i])
        elif r < 0.9:
            ops.append(['conv', str(_grid_amount(rng, convs)),
                        rng.randrange(3), rng.randrange(3)])
        else:
            ops.append(['list'])
    return ops


def _random_gen_conv(rng):
    pairs = [(f, t) for f in range(NGEN) for t in range(NGEN) if f != t]
    es = []
    for f, t in rng.sample(pairs, rng.randint(0, 3)):
        if any(e[0] == t and e[1] == f for e in es):
            continue
        es.append([f, t, rng.choice(['2', '1/3', '-5', '9/5', '1']),
                   rng.choice(['0', '0', '32', '-1/2'])])
    kind = rng.choice(['table', 'table', 'fn'])
    sp = {'t': kind, 'e': es}
    if kind == 'table':
        sp['map'] = rng.random() < 0.5
    else:
        sp['bound'] = rng.random() < 0.6
        if rng.random() < 0.35:
            # a converter FUNCTION may answer with a float (any Real): dyadic factors and
            # offsets keep the float exact, so the expected amounts stay the same (seeded C12-i)
            for e in sp['e']:
                e[2], e[3] = rng.choice(['2', '1/4', '-8', '1/2']), rng.choice(['0', '32', '-1/2'])
            sp['float'] = True
    return sp


def _forests(n):
    """all forests with exactly n nodes: list of trees, tree = list of children"""
    if n == 0:
        return [[]]
    out = []
    for k in range(1, n + 1):          # size of the first tree
        for first in _forests(k - 1):
            for rest in _forests(n - k):
                out.append([first] + rest)
    return out


def _forest_prog(forest, assign, raise_at):
    """program of a forest: a probe conversion at every program point; the
    point number raise_at additionally raises"""
    counter = {'blk': 0, 'pt': 0}

    def point():
        k = counter['pt']
        counter['pt'] += 1
        p = ['op', ['conv', '10', 0, 1]]
        if k == raise_at:
            p = ['seq', p, ['raise', ERRS[k % 2]]]
        return p

    def seq(ps):
        r = ps[-1]
        for p in reversed(ps[:-1]):
            r = ['seq', p, r]
        return r

    def body(fr):
        ps = [point()]
        for tree in fr:
            c = assign[counter['blk']]
            counter['blk'] += 1
            ps.append(['block', c, body(tree)])
            ps.append(point())
        return seq(ps)

    b = body(forest)
    return ['seq', ['try', b], ['seq', ['op', ['conv', '10', 0, 1]], ['op', ['list']]]]


def _random_prog(rng, convs, mcs, depth, pure):
    r = rng.random()
    if depth <= 0 or r < 0.15:
        r2 = rng.random()
        if r2 < 0.45:
            return ['op', ['conv', str(_grid_amount(rng, convs)),
                           rng.randrange(3), rng.randrange(3)]]
        if r2 < 0.6:
            return ['convu', str(_grid_amount(rng, convs)),
                    rng.randrange(3), rng.randrange(3)]
        if r2 < 0.7:
            return ['raise', rng.choice(ERRS)]
        if r2 < 0.8:
            return ['op', ['list']]
        if r2 < 0.9 and not pure:
            i = rng.randrange(len(convs))
            if convs[i]['t'] != 'mc':
                return ['op', rng.choice([['reg', i], ['rem', i]])]
            return ['op', rng.choice([['reg', i], ['rem', i], ['enter', i],
                                      ['leave', i, None]])]
        return ['skip']
    if r < 0.5:
        return ['block', rng.choice(mcs), _random_prog(rng, convs, mcs, depth - 1, pure)]
    if r < 0.85:
        return ['seq', _random_prog(rng, convs, mcs, depth - 1, pure),
                _random_prog(rng, convs, mcs, depth - 1, pure)]
    return ['try', _random_prog(rng, convs, mcs, depth - 1, pure)]


def gen_cases(rng, tier):
    thorough = tier == 'thorough'
    cases = []
    L = 6 if thorough else 5
    alpha = [(k, i) for k in ('reg', 'rem') for i in range(3)]
    # 1. exhaustive flat sequences, Money
    for n in range(0, L + 1):
        for seq in itertools.product(alpha, repeat=n):
            cases.append({'kind': 'money', 'convs': MC3, 'probes': MPROBES,
                          'ops': _api(rng, seq), 'x': 1})
    alpha12 = [[k, i] for k in ('reg', 'rem', 'enter', 'leave') for i in range(3)]
    for n in range(1, (4 if thorough else 3) + 1):
        for seq in itertools.product(alpha12, repeat=n):
            cases.append({'kind': 'money', 'convs': MC3, 'probes': MPROBES,
                          'ops': [list(o) + ([None] if o[0] == 'leave' else [])
                                  for o in seq], 'x': 1})
    # 2. exhaustive flat sequences, user type without reference unit
    for n in range(0, L + 1):
        for seq in itertools.product(alpha, repeat=n):
            cases.append({'kind': 'gen', 'convs': GEN3, 'probes': GPROBES,
                          'ops': [list(o) for o in seq], 'x': 1})
    # 3. exhaustive block forests
    for n in range(0, (4 if thorough else 3) + 1):
        for forest in _forests(n):
            for assign in itertools.product(range(3), repeat=n):
                for raise_at in [None] + list(range(2 * n + 1)):
                    cases.append({'kind': 'prog', 'convs': MC3, 'probes': MPROBES,
                                  'pre': [], 'x': 1,
                                  'prog': _forest_prog(forest, assign, raise_at)})
    # 4. random
    n = 4000 if thorough else 500
    for k in range(n):
        r = k % 10
        if r < 4:
            convs = _money_convs(rng)
            cases.append({'kind': 'money', 'convs': convs,
                          'probes': _money_probes(rng, convs),
                          'ops': _random_money_ops(rng, convs, rng.randint(1, 40))})
        elif r < 6:
            convs = [_random_gen_conv(rng) for _ in range(rng.randint(2, 4))]
            ops = []
            for _ in range(rng.randint(1, 40)):
                q = rng.random()
                i = rng.randrange(len(convs))
                if q < 0.4:
                    ops.append(['reg', i])
                elif q < 0.65:
                    ops.append(['rem', i])
                elif q < 0.92:
                    ops.append(['conv', rng.choice(['10', '1/3', '-7/2', '0']),
                                rng.randrange(NGEN), rng.randrange(NGEN)])
                else:
                    ops.append(['list'])
            cases.append({'kind': 'gen', 'convs': convs,
                          'probes': [[rng.choice(['10', '2/7']), rng.randrange(NGEN),
                                      rng.randrange(NGEN)] for _ in range(2)],
                          'ops': ops})
        else:
            convs = _money_convs(rng)
            mcs = [i for i, sp in enumerate(convs) if sp['t'] == 'mc']
            pure = r < 8
            pre = [['reg', rng.choice(mcs)] for _ in range(rng.randint(0, 2))]
            cases.append({'kind': 'prog', 'convs': convs,
                          'probes': _money_probes(rng, convs), 'pre': pre,
                          'prog': _random_prog(rng, convs, mcs, rng.randint(2, 5), pure)})
    return cases


# ------------------------------------------------------------ implementation

_GEN = {}


def impl_setup():
    """runs once in every worker: the three currencies and the user type are
    declared up front (parsing the ISO 4217 table per case would dominate the
    run); the converter registries are empty at the start of every case"""
    from quantity import Quantity
    from quantity.money import Money
    for c in CURS:
        Money.register_currency(c)
    if not _GEN:
        meta = type(Quantity)
        cls = meta('C12Qty', (Quantity,), {})
        _GEN['cls'] = cls
        _GEN['units'] = [cls.new_unit(f"c12u{i}", f"c12 unit {i}") for i in range(NGEN)]


class _Ctx:
    pass


class _Holder:
    def __init__(self, fn):
        self.fn = fn

    def convert(self, q, u):
        return self.fn(q, u)


class _Bound:
    """stands for `holder.convert`, taken afresh at every use"""
    def __init__(self, holder):
        self.holder = holder


def _ref(ctx, i):
    c = ctx.convs[i]
    return c.holder.convert if isinstance(c, _Bound) else c


def _setup(case):
    from quantity.converter import TableConverter
    ctx = _Ctx()
    if not _GEN:
        impl_setup()
    if case['kind'] == 'gen':
        cls, units = _GEN['cls'], _GEN['units']
        convs = []
        for sp in case['convs']:
            es = [(units[f], units[t], F(k), F(o)) for f, t, k, o in sp['e']]
            if sp['t'] == 'table':
                if sp.get('map'):
                    convs.append(TableConverter({(f, t): (k, o) for f, t, k, o in es}))
                else:
                    convs.append(TableConverter(es))
            else:
                tab = {(f, t): (k, o) for f, t, k, o in es}

                def fn(q, u, tab=tab, as_float=bool(sp.get('float'))):
                    e = tab.get((q.unit, u))
                    if e is None:
                        return None
                    v = e[0] * q.amount + e[1]
                    if as_float and F(float(v)) == F(v):
                        return float(v)         # a float whenever it is exact
                    return v
                if sp.get('bound'):
                    # a bound method: every `holder.convert` is a NEW object that is equal
                    # to, but not identical with, the one registered before (seeded C12-f/g)
                    convs.append(_Bound(_Holder(fn)))
                else:
                    convs.append(fn)
    else:
        from quantity.money import Money, MoneyConverter
        cls = Money
        units = [Money.register_currency(c) for c in CURS]
        convs = []
        for sp in case['convs']:
            if sp['t'] == 'mc':
                c = MoneyConverter(units[sp['base']])
                c.update(None, [(units[t], W.number(('dec', r)), 1)
                                for t, r in sp['rates']])
            else:
                c = TableConverter({})
            convs.append(c)
    ctx.cls, ctx.units, ctx.convs = cls, units, convs
    if list(cls.registered_converters()):
        raise RuntimeError("converter registry not empty at the start of a case")
    return ctx


def _cleanup(ctx):
    """empty the registry again, through the public API only (most recent
    first: the only order Money accepts)"""
    for _ in range(10000):
        cs = list(ctx.cls.registered_converters())
        if not cs:
            return
        ctx.cls.remove_converter(cs[0])
    raise RuntimeError("converter registry could not be emptied")


def _listing(ctx):
    out = []
    for c in ctx.cls.registered_converters():
        idx = [i for i, x in enumerate(ctx.convs)
               if x is c or (isinstance(x, _Bound) and c == x.holder.convert)]
        out.append(idx[0] if idx else 999)
    return out


def _convert(ctx, a, f, t):
    o = W.guarded(lambda: ctx.cls(W.number(('dec', a)), ctx.units[f])
                  .convert(ctx.units[t]))
    o['to'] = t           # the requested target unit, to check the result's unit
    return o


def _none_or(r, ok):
    return {'k': 'none'} if ok else {'k': 'other', 'v': repr(r)[:80]}


_EXC = {'EKeyError': KeyError, 'EZeroDivision': ZeroDivisionError,
        'EValueError': ValueError, 'EOther': RuntimeError}


def _call(ctx, op):
    """one guarded call; returns its observation"""
    k = op[0]
    try:
        if k == 'reg':
            r = ctx.cls.register_converter(_ref(ctx, op[1]))
            return _none_or(r, r is None)
        if k == 'rem':
            r = ctx.cls.remove_converter(_ref(ctx, op[1]))
            return _none_or(r, r is None)
        if k == 'enter':
            r = ctx.convs[op[1]].__enter__()
            return _none_or(r, r is ctx.convs[op[1]])
        if k == 'leave':
            if op[2] is None:
                r = ctx.convs[op[1]].__exit__(None, None, None)
            else:
                e = _EXC[op[2]]('app')
                r = ctx.convs[op[1]].__exit__(type(e), e, None)
            return _none_or(r, r is None)
        if k == 'conv':
            return _convert(ctx, op[1], op[2], op[3])
        if k == 'list':
            return {'k': 'list', 'v': _listing(ctx)}
    except Exception as e:     # noqa: the exception class is the observation
        return {'k': 'err', 'e': W.err_name(e), 'py': type(e).__name__}
    raise ValueError(k)


def _probes(ctx, case):
    return [_convert(ctx, a, f, t) for a, f, t in case['probes']]


def _run_prog(ctx, p, log):
    """interpret a program with REAL with-blocks, raise and try/except"""
    k = p[0]
    if k == 'skip':
        return
    if k == 'op':
        log.append(_call(ctx, p[1]))
    elif k == 'convu':
        r = ctx.cls(W.number(('dec', p[1])), ctx.units[p[2]]).convert(ctx.units[p[3]])
        o = W.observe(r)
        o['to'] = p[3]
        log.append(o)
    elif k == 'raise':
        raise _EXC[p[1]]('app')
    elif k == 'seq':
        _run_prog(ctx, p[1], log)
        _run_prog(ctx, p[2], log)
    elif k == 'block':
        with ctx.convs[p[1]]:
            _run_prog(ctx, p[2], log)
    elif k == 'try':
        try:
            _run_prog(ctx, p[1], log)
        except Exception as e:     # noqa
            log.append({'k': 'err', 'e': W.err_name(e), 'py': type(e).__name__})
    else:
        raise ValueError(k)


def impl_run(case):
    ctx = _setup(case)
    try:
        if case['kind'] in ('money', 'gen'):
            rs = [_call(ctx, op) for op in case['ops']]
            return {'r': rs, 'l': _listing(ctx), 'p': _probes(ctx, case)}
        for op in case['pre']:
            _call(ctx, op)
        before = {'l': _listing(ctx), 'p': _probes(ctx, case)}
        log = []
        try:
            _run_prog(ctx, case['prog'], log)
            out = None
        except Exception as e:     # noqa
            out = W.err_name(e)
        return {'before': before, 'log': log, 'out': out, 'l': _listing(ctx),
                'p': _probes(ctx, case)}
    finally:
        _cleanup(ctx)


# ------------------------------------------------------------ model side

def _is_money(case):
    return case['kind'] != 'gen'


def _sym(case, u):
    return CURS[u] if _is_money(case) else f"c12u{u}"


def _clsname(case):
    return 'Money' if _is_money(case) else 'C12Qty'


def c_result(case, o, to=None):
    k = o['k']
    if to is None:
        to = o.get('to')
    if k == 'none':
        return "RNone"
    if k == 'err':
        return f"(RErr {o['e']})"
    if k == 'list':
        return f"(RList {clist([cn(i) for i in o['v']])})"
    if k == 'qty' and not o.get('float') and o['cls'] == _clsname(case) \
            and (to is None or o['sym'] == _sym(case, to)):
        return f"(RAmt {cq(F(o['amt']))})"
    return "(RErr EOther)"


def c_table(tab):
    return clist([f"(({cn(f)}, {cn(t)}), ({cq(k)}, {cq(o)}))"
                  for (f, t), (k, o) in tab.items()])


def c_behaviours(case):
    if case['convs'] == MC3:
        return "c12_mc3"
    if case['convs'] == GEN3:
        return "c12_gen3"
    return clist([f"({cn(i)}, {c_table(conv_table(sp))})"
                  for i, sp in enumerate(case['convs'])])


def c_mcs(case):
    if case['convs'] == MC3:
        return "c12_mcs3"
    return clist([cn(i) for i, sp in enumerate(case['convs']) if sp['t'] == 'mc'])


def c_probes(case):
    if case['probes'] == MPROBES:
        return "c12_mp"
    if case['probes'] == GPROBES:
        return "c12_gp"
    return clist([f"({cq(F(a))}, {cn(f)}, {cn(t)})" for a, f, t in case['probes']])


def c_mop(op):
    k = op[0]
    if k == 'conv':
        return f"(MConvert {cq(F(op[1]))} {cn(op[2])} {cn(op[3])})"
    if k == 'list':
        return "MList"
    return "(%s %s)" % ({'reg': 'MRegister', 'rem': 'MRemove', 'enter': 'MEnter',
                         'leave': 'MLeave'}[k], cn(op[1]))


def c_gop(op):
    k = op[0]
    if k == 'conv':
        return f"(GConvert {cq(F(op[1]))} {cn(op[2])} {cn(op[3])})"
    if k == 'list':
        return "GList"
    return "(%s %s)" % ({'reg': 'GRegister', 'rem': 'GRemove'}[k], cn(op[1]))


def c_prog(p):
    k = p[0]
    if k == 'skip':
        return "PSkip"
    if k == 'op':
        return f"(POp {c_mop(p[1])})"
    if k == 'convu':
        return f"(PConvertU {cq(F(p[1]))} {cn(p[2])} {cn(p[3])})"
    if k == 'raise':
        return f"(PRaise {p[1]})"
    if k == 'seq':
        return f"(PSeq {c_prog(p[1])} {c_prog(p[2])})"
    if k == 'block':
        return f"(PBlock {cn(p[1])} {c_prog(p[2])})"
    if k == 'try':
        return f"(PTry {c_prog(p[1])})"
    raise ValueError(k)


def _runobs(case, r):
    rs = clist([c_result(case, o) for o in r['r']])
    ps = clist([c_result(case, o) for o in r['p']])
    return f"({rs}, {clist([cn(i) for i in r['l']])}, {ps})"


def coq_case(case, r):
    k = case['kind']
    if k == 'money':
        return (f"(KMoney {c_behaviours(case)} {c_mcs(case)} {c_probes(case)} "
                f"{clist([c_mop(o) for o in case['ops']])} {_runobs(case, r)})")
    if k == 'gen':
        return (f"(KGeneric {c_behaviours(case)} {c_probes(case)} "
                f"{clist([c_gop(o) for o in case['ops']])} {_runobs(case, r)})")
    log = clist([c_result(case, o) for o in r['log']])
    out = "Normal" if r['out'] is None else f"(Raised {r['out']})"
    ps = clist([c_result(case, o, t) for o, (_, _, t) in zip(r['p'], case['probes'])])
    return (f"(KProg {c_behaviours(case)} {c_mcs(case)} {c_probes(case)} "
            f"{clist([c_mop(o) for o in case['pre']])} {c_prog(case['prog'])} "
            f"({log}, {out}, {clist([cn(i) for i in r['l']])}, {ps}))")


def coq_model_term(case, r):
    return f"c12_model {coq_case(case, r)}"


COQ_HEADER = (COQ_REQUIRE + "\nOpen Scope Z_scope.\n"
              + "Definition c12_mc3 : list (N * table) := "
              + clist([f"({cn(i)}, {c_table(conv_table(sp))})" for i, sp in enumerate(MC3)])
              + ".\nDefinition c12_gen3 : list (N * table) := "
              + clist([f"({cn(i)}, {c_table(conv_table(sp))})" for i, sp in enumerate(GEN3)])
              + ".\nDefinition c12_mcs3 : list N := [0%N; 1%N; 2%N]."
              + "\nDefinition c12_mp : list probe := "
              + clist([f"({cq(F(a))}, {cn(f)}, {cn(t)})" for a, f, t in MPROBES])
              + ".\nDefinition c12_gp : list probe := "
              + clist([f"({cq(F(a))}, {cn(f)}, {cn(t)})" for a, f, t in GPROBES])
              + ".")


# ------------------------------------------------------------ oracle
# The property itself, simulated on the HISTORY of calls and their observed
# outcomes — pure Python, Fractions, the case script's tables.

def _active(hist, init=()):
    """most recent first: registrations not cancelled by a later successful
    unregistration (backward walk through the history)"""
    out, skip = [], 0
    for kind, c, ok in reversed(hist):
        if not ok:
            continue
        if kind in ('rem', 'leave'):
            skip += 1
        elif kind in ('reg', 'enter'):
            if skip:
                skip -= 1
            else:
                out.append(c)
    rest = list(init)[skip:]
    return out + rest


def _expect_money_conv(tabs, top, a, f, t):
    if f == t:
        return F(a)
    if top is None:
        return None
    return apply_table(tabs[top], a, f, t)


def _expect_gen_conv(tabs, listing, a, f, t):
    if f == t:
        return F(a)
    for c in listing:                     # most recent first
        x = apply_table(tabs[c], a, f, t)
        if x is not None:
            return x
    return None


def _conv_ok(case, o, exp, t):
    """observed conversion o agrees with expected amount exp (None = must
    raise UnitConversionError)"""
    if exp is None:
        return o['k'] == 'err' and o['e'] == 'EUnitConversion'
    return (o['k'] == 'qty' and not o.get('float') and o['cls'] == _clsname(case)
            and o['sym'] == _sym(case, t) and F(o['amt']) == exp)


def _oracle_money(case, r):
    tabs = [conv_table(sp) for sp in case['convs']]
    hist = []
    for n, (op, res) in enumerate(zip(case['ops'], r['r'])):
        before = _active(hist)
        k = op[0]
        if k in ('reg', 'enter', 'rem', 'leave'):
            ok = res['k'] == 'none'
            if k in ('reg', 'enter'):
                if case['convs'][op[1]]['t'] == 'mc' and not ok:
                    return f"step {n}: registering a MoneyConverter failed: {res}"
                if case['convs'][op[1]]['t'] != 'mc' and \
                        not (res['k'] == 'err' and res['e'] == 'ETypeError'):
                    return f"step {n}: a non-MoneyConverter was not rejected with TypeError: {res}"
            else:
                is_top = bool(before) and before[0] == op[1]
                if is_top and not ok:
                    return f"step {n}: unregistering the most recent converter failed: {res}"
                if not is_top and res['k'] != 'err':
                    return (f"step {n}: unregistering converter {op[1]} which is not the "
                            f"most recent one ({before[:1]}) did not raise")
            hist.append((k, op[1], ok))
        elif k == 'conv':
            exp = _expect_money_conv(tabs, before[0] if before else None, op[1], op[2], op[3])
            if not _conv_ok(case, res, exp, op[3]):
                return (f"step {n}: conversion {op} with most recent active converter "
                        f"{before[:1]} gave {res}, expected {exp}")
        elif k == 'list':
            if res.get('v') != before:
                return f"step {n}: listing {res} expected {before}"
    after = _active(hist)
    if r['l'] != after:
        return (f"after {case['ops']}: registered converters {r['l']}, expected "
                f"{after} (most recent first)")
    for o, (a, f, t) in zip(r['p'], case['probes']):
        exp = _expect_money_conv(tabs, after[0] if after else None, a, f, t)
        if not _conv_ok(case, o, exp, t):
            return (f"after {case['ops']}: conversion {a} {CURS[f]}->{CURS[t]} gave {o}; "
                    f"the most recent active converter {after[:1]} gives {exp}")
    return None


def _oracle_gen(case, r):
    tabs = [conv_table(sp) for sp in case['convs']]
    reg = []                              # registration order
    for n, (op, res) in enumerate(zip(case['ops'], r['r'])):
        k = op[0]
        if k == 'reg':
            if res['k'] != 'none':
                return f"step {n}: register raised {res}"
            if op[1] not in reg:
                reg.append(op[1])
        elif k == 'rem':
            if op[1] in reg:
                if res['k'] != 'none':
                    return f"step {n}: removing a registered converter raised {res}"
                reg.remove(op[1])
            elif not (res['k'] == 'err' and res['e'] == 'EValueError'):
                return f"step {n}: removing an unregistered converter gave {res}"
        elif k == 'conv':
            exp = _expect_gen_conv(tabs, reg[::-1], op[1], op[2], op[3])
            if not _conv_ok(case, res, exp, op[3]):
                return f"step {n}: conversion {op} gave {res}, expected {exp}"
        elif k == 'list':
            if res.get('v') != reg[::-1]:
                return f"step {n}: listing {res} expected {reg[::-1]}"
    if r['l'] != reg[::-1]:
        return f"after {case['ops']}: registered converters {r['l']}, expected {reg[::-1]}"
    for o, (a, f, t) in zip(r['p'], case['probes']):
        exp = _expect_gen_conv(tabs, reg[::-1], a, f, t)
        if not _conv_ok(case, o, exp, t):
            return (f"after {case['ops']}: conversion {a} u{f}->u{t} gave {o}, expected "
                    f"{exp} (most recent first: {reg[::-1]})")
    return None


class _Raised(Exception):
    def __init__(self, e):
        self.e = e


def _blocks_only(p):
    k = p[0]
    if k == 'op':
        return p[1][0] in ('conv', 'list')
    if k == 'seq':
        return _blocks_only(p[1]) and _blocks_only(p[2])
    if k in ('block', 'try'):
        return _blocks_only(p[-1])
    return True


def _spec_prog(case, tabs, p, stack, log):
    """expected log of a program: `stack` = active converters, most recent
    LAST; a with-block pushes on entry and pops on exit"""
    k = p[0]
    if k == 'skip':
        return
    if k == 'op':
        op = p[1]
        if op[0] == 'conv':
            log.append(('conv', _expect_money_conv(tabs, stack[-1] if stack else None,
                                                   op[1], op[2], op[3]), op[3]))
        elif op[0] == 'list':
            log.append(('list', stack[::-1]))
        elif op[0] in ('reg', 'enter'):
            if case['convs'][op[1]]['t'] == 'mc':
                stack.append(op[1])
                log.append(('none',))
            else:
                log.append(('err', 'ETypeError'))
        else:
            if stack and stack[-1] == op[1]:
                stack.pop()
                log.append(('none',))
            else:
                log.append(('err', None))          # must raise, class not prescribed
    elif k == 'convu':
        exp = _expect_money_conv(tabs, stack[-1] if stack else None, p[1], p[2], p[3])
        if exp is None:
            raise _Raised('EUnitConversion')
        log.append(('conv', exp, p[3]))
    elif k == 'raise':
        raise _Raised(p[1])
    elif k == 'seq':
        _spec_prog(case, tabs, p[1], stack, log)
        _spec_prog(case, tabs, p[2], stack, log)
    elif k == 'block':
        stack.append(p[1])
        try:
            _spec_prog(case, tabs, p[2], stack, log)
        finally:
            # leaving: only the most recent converter can be unregistered
            if stack and stack[-1] == p[1]:
                stack.pop()
            else:
                raise _Raised(None)               # __exit__ must raise
    elif k == 'try':
        try:
            _spec_prog(case, tabs, p[1], stack, log)
        except _Raised as e:
            log.append(('err', e.e))


def _log_entry_ok(case, exp, o):
    if exp[0] == 'conv':
        return _conv_ok(case, o, exp[1], exp[2])
    if exp[0] == 'list':
        return o['k'] == 'list' and o['v'] == exp[1]
    if exp[0] == 'none':
        return o['k'] == 'none'
    return o['k'] == 'err' and (exp[1] is None or o['e'] == exp[1])


def _oracle_prog(case, r):
    tabs = [conv_table(sp) for sp in case['convs']]
    hist = [(op[0], op[1], True) for op in case['pre']]
    init = _active(hist)
    if r['before']['l'] != init:
        return f"registry before the program {r['before']['l']}, expected {init}"
    stack = init[::-1]
    log = []
    try:
        _spec_prog(case, tabs, case['prog'], stack, log)
        out = 'normal'
    except _Raised as e:
        out = e.e
    if len(log) != len(r['log']):
        return f"program log has {len(r['log'])} entries, expected {len(log)}: {r['log']}"
    for n, (exp, o) in enumerate(zip(log, r['log'])):
        if not _log_entry_ok(case, exp, o):
            return f"program log entry {n}: {o}, expected {exp}"
    if out == 'normal':
        if r['out'] is not None:
            return f"program raised {r['out']}, expected normal end"
    elif r['out'] is None or (out is not None and r['out'] != out):
        return f"program ended with {r['out']}, expected exception {out}"
    if r['l'] != stack[::-1]:
        return f"registry after the program {r['l']}, expected {stack[::-1]}"
    if _blocks_only(case['prog']):
        # the property's claim proper: as before the first block was entered
        if r['l'] != r['before']['l']:
            return (f"registry after all blocks were left {r['l']} differs from "
                    f"the one before {r['before']['l']}")
        if r['p'] != r['before']['p']:
            return (f"conversions after all blocks were left {r['p']} differ from "
                    f"before {r['before']['p']}")
    for o, (a, f, t) in zip(r['p'], case['probes']):
        exp = _expect_money_conv(tabs, stack[-1] if stack else None, a, f, t)
        if not _conv_ok(case, o, exp, t):
            return f"conversion after the program {a} {f}->{t}: {o}, expected {exp}"
    return None


def oracle(case, r):
    return {'money': _oracle_money, 'gen': _oracle_gen,
            'prog': _oracle_prog}[case['kind']](case, r)


# ------------------------------------------------------------ evidence

def _prog_stats(p, d=0):
    k = p[0]
    if k == 'block':
        n, m, e = _prog_stats(p[2], d + 1)
        return n + 1, max(m, d + 1), e
    if k == 'seq':
        a, b = _prog_stats(p[1], d), _prog_stats(p[2], d)
        return a[0] + b[0], max(a[1], b[1]), a[2] + b[2]
    if k == 'try':
        return _prog_stats(p[1], d)
    return 0, d, 1 if k in ('raise', 'convu') else 0


def _max_registered(case, r):
    """largest number of simultaneously registered converters (from the
    observed outcomes of the calls)"""
    n = m = 0
    for op, res in zip(case['ops'], r['r']):
        if res['k'] != 'none':
            continue
        if op[0] in ('reg', 'enter'):
            n += 1
        elif op[0] in ('rem', 'leave'):
            n -= 1
        m = max(m, n)
    return max(m, len(r['l']))


def labels(case, r):
    k = case['kind']
    out = ['kind=' + k, 'stream=' + ('exhaustive' if case.get('x') else 'random')]
    if k in ('money', 'gen'):
        out.append('len=%d' % len(case['ops']))
        errs = {o['e'] for o in r['r'] if o['k'] == 'err'}
        out += ['raised=' + e for e in sorted(errs)]
        out.append('max-registered>=%d' % min(3, _max_registered(case, r)))
    else:
        n, depth, e = _prog_stats(case['prog'])
        out.append('blocks=%d' % n)
        out.append('depth=%d' % depth)
        out.append('end=' + (r['out'] or 'normal'))
        out.append('blocks-only=%s' % _blocks_only(case['prog']))
    return out


def nontrivial_key(case, r):
    k = case['kind']
    if k in ('money', 'gen'):
        deep = _max_registered(case, r) >= 2
        refused = any(o['k'] == 'err' and op[0] in ('rem', 'leave', 'reg', 'enter')
                      for op, o in zip(case['ops'], r['r']))
        if not (deep or refused):
            return None
        body = [case['convs'], case['ops']]
    else:
        n, depth, e = _prog_stats(case['prog'])
        if depth < 2 and not (e and n):
            return None
        body = [case['convs'], case['pre'], case['prog']]
    return (k, hashlib.sha1(json.dumps(body, sort_keys=True).encode()).hexdigest()[:16])
