"""C10 — applying an exchange rate converts money and prices correctly."""
from fractions import Fraction as F

from vlib import world as W, regops as R, regworld as RW
from vlib.qtyops import num_value, frs
from vlib.pyround import to_quantum

PID = 'C10'
PROPERTY_FILE = 'Properties/C10.v'
# generated model parts (translate/) this property's model / proofs really depend on
GEN_DEPS = ['OpsImpl', 'QuantityImpl', 'StateInventory']
MODEL_TARGETS = R.MODEL_TARGETS
PROOF_TARGETS = ['Proofs/GenOpsEq.vo', 'Proofs/C10Proofs.vo', 'Proofs/C10MoneyProofs.vo']
COQ_HEADER = R.COQ_HEADER
COQ_CHECK = R.COQ_CHECK
ISOLATE = True
SHARD = 300
impl_run = R.impl_run
coq_case = R.coq_case
coq_model_term = R.coq_model_term
RULE = ("catalogues with Money (4 currencies with smallest fractions 1/100, 1, 1/1000, 1/20), one or "
        "two other base types (with scaled units), money-per-quantity types (Money/X, Money/X**2, "
        "Money/(X*Y)) with units derived for SOME (currency, unit) combinations, and types without "
        "money; operations money*rate, rate*money, money/rate, price*rate, rate*price, price/rate "
        "with rates between all ordered currency pairs (multiples 1, 100, 5; amounts with up to 6 "
        "decimals), matching and non-matching currencies, declared and missing target units, "
        "quantities that involve no money; 8 default rounding modes.  The model builds the rate "
        "with its own constructor (C09) from the same arguments.  non-trivial = the operand is a "
        "price or the currencies differ; distinct by (script, operation).")
ASSUMPTIONS = ["exchange-rate construction is Model/Rates.v (proved and validated in C09)",
               "normalised definitions are represented by their denotation (C07)"]
EXHAUSTIVE = {}

CURS = [('EUR', '1/100'), ('JPY', '1/1'), ('BHD', '1/1000'), ('XCH', '1/20')]
RATES = ['5/4', '13245033/100000', '1/8', '3/1000', '9/1', '146506779/1000000', '1/3', '250/1']


def _world(rng, tag):
    script = [{'d': 'money'}]
    for c, sf in CURS:
        minor = {'1/100': 2, '1/1': 0, '1/1000': 3}.get(sf)
        script.append({'d': 'currency', 'sym': c, 'minor': minor, 'sf': None} if minor is not None
                      else {'d': 'currency', 'sym': c, 'minor': None, 'sf': sf})
    bases = []
    for i in range(rng.choice([1, 2])):
        name, ref = f"B{tag}{i}", f"{tag}{i}r"
        script.append({'d': 'cls', 'name': name, 'def': None, 'ref': ref, 'quantum': None})
        us = [ref]
        for j in range(rng.randint(1, 2)):
            sym = f"{tag}{i}u{j}"
            script.append({'d': 'unit', 'cls': name, 'sym': sym,
                           'def': ['qty', ['frac', rng.choice(RW.FACTORS)], rng.choice(us)]})
            us.append(sym)
        if rng.random() < 0.5:
            # a second spelling of one unit (l and dm3): units derived from either have
            # equivalent definitions, the FIRST one declared is the one looked up
            # (seeded C10-h: registry prepends)
            twin = f"{tag}{i}w"
            script.append({'d': 'unit', 'cls': name, 'sym': twin,
                           'def': ['qty', ['int', '1/1'], rng.choice(us)]})
            us.append(twin)
        bases.append((name, us))
    prices = []
    for i in range(rng.choice([1, 2])):
        ks = rng.sample(bases, rng.randint(1, len(bases)))
        cdef = [['Money', 1]] + [[b, rng.choice([-1, -1, -2])] for b, _ in ks]
        name = f"P{tag}{i}"
        if any(p[1] == cdef for p in prices):
            continue
        script.append({'d': 'cls', 'name': name, 'def': cdef, 'ref': None, 'quantum': None})
        syms = []
        for _ in range(rng.randint(1, 2)):
            other = [rng.choice(u) for _, u in ks]
            for cur, _ in rng.sample(CURS, rng.randint(2, 4)):     # targets for several currencies
                d = {'d': 'derive', 'cls': name, 'units': [cur] + other, 'sym': None}
                if d not in script:
                    script.append(d)
        prices.append((name, cdef))
        if rng.random() < 0.5:
            # a money type declared THROUGH another derived money type (price per X, per Y):
            # its own definition mentions no Money, its normalised definition does (seeded C10-g)
            b2, us2 = rng.choice(bases)
            cdef2 = [[name, 1], [b2, -1]]
            n2 = f"F{tag}{i}"
            script.append({'d': 'cls', 'name': n2, 'def': cdef2, 'ref': None, 'quantum': None})
            # only declarations the reference bookkeeping accepts (no duplicate symbols)
            w0 = RW.RefWorld()
            try:
                ok = all(w0.apply(x) is None for x in script)
            except Exception:       # noqa
                ok = False
            if not ok:
                script.pop()
                continue
            u2 = rng.choice(us2)
            for psym in [s for s in w0.order if w0.units[s]['cls'] == name][:4]:
                d = {'d': 'derive', 'cls': n2, 'units': [psym, u2], 'sym': None}
                try:
                    if w0.apply(d) is None:
                        script.append(d)
                except Exception:   # noqa
                    pass
    # a type without money, derived from the bases
    script.append({'d': 'cls', 'name': f"N{tag}", 'def': [[bases[0][0], 2]], 'ref': None, 'quantum': None})
    return script


def gen_cases(rng, tier):
    cases = []
    for i in range(110 if tier == 'quick' else 1500):
        tag = ''.join(rng.choice('abcdefghk') for _ in range(3))
        script = _world(rng, tag)
        w = RW.RefWorld()
        ok = True
        for d in script:
            try:
                if w.apply(d) is not None:
                    ok = False
            except Exception:   # noqa
                ok = False
        if not ok:
            continue
        for _ in range(4):
            cu, ct = rng.sample([c for c, _ in CURS], 2)
            mult = rng.choice(['1/1', '1/1', '100/1', '5/1'])
            amt = F(rng.choice(RATES)) * F(mult)
            r = [cu, ['int', mult], ct, ['dec' if W.is_decimal(amt) else 'frac', frs(amt)]]
            x = rng.random()
            money = [c for c, _ in CURS]
            prices = [s for s in w.order if w.units[s]['cls'][0] in 'PF']
            others = [s for s in w.order if w.units[s]['cls'][0] not in 'PF' and s not in money]
            if x < 0.3:
                u = rng.choice([cu, cu, ct, rng.choice(money)])
            elif x < 0.9 and prices:
                u = rng.choice(prices)
            else:
                u = rng.choice(others)
            o = rng.choice(['mul', 'rmul', 'div'])
            if u in prices and rng.random() < 0.7:
                # a rate FROM the price's own currency (in the direction of the operation)
                pc = next(c for c, _ in CURS if w.unit_value(u)[1].get(c))
                oc = rng.choice([c for c, _ in CURS if c != pc])
                cu, ct = (pc, oc) if o != 'div' else (oc, pc)
                r = [cu, r[1], ct, r[3]]
            a = rng.choice(['1/1', '3/1', '5/2', '1/3', '999/1000', '-7/4', '0/1', '123456/1000'])
            kind = 'dec' if W.is_decimal(F(a)) and rng.random() < 0.6 else 'frac'
            q = {'k': 'rate', 'o': o, 'x': ['q', [kind, a], u], 'r': r}
            if rng.random() < 0.35:
                # with a money converter registered that knows every currency (seeded C10-d:
                # a non-matching currency must still be rejected, not converted first)
                base = rng.choice(money)
                q['conv'] = {'base': base,
                             'rates': [[c, ['dec', rng.choice(['11/10', '17/20', '1623/10'])]]
                                       for c in money if c != base]}
            cases.append({'dm': rng.choice(W.MODES), 'pre': False, 'script': script, 'hist': [],
                          'q': q})
    # boundary-directed: money amounts whose exact product / quotient lies as close
    # as arithmetically possible to a rounding tie of the target currency (a hidden
    # intermediate rounding flips the result there)
    from vlib.nearties import near_tie_multiples
    sfs = dict(CURS)
    tag = 'ntx'
    script = _world(rng, tag)
    for i in range(16 if tier == 'quick' else 80):
        cu, ct = rng.sample([c for c, _ in CURS], 2)
        # rates with 8-9 significant digits: the closest non-tie is then within 1e-10
        amt = F(rng.choice(['146506779/1000000', '109876313/1000000', '123456789/1000000',
                            '839580401/1000000', '132450331/1000000', '998877665/1000000']))
        r = [cu, ['int', '1/1'], ct, ['dec', frs(amt)]]
        for o in ('mul', 'div'):
            k = _rate_fields(r, 'MHEVEN')
            src, dst = (cu, ct) if o == 'mul' else (ct, cu)
            if o == 'div':
                k = 1 / k
            for n in near_tie_multiples(k, F(sfs[src]), F(sfs[dst]), count=4):
                a = n * F(sfs[src])
                if a > 10 ** 12:
                    continue
                for sign in (1, -1):
                    cases.append({'dm': rng.choice(W.MODES), 'pre': False, 'script': script,
                                  'hist': [], 'q': {'k': 'rate', 'o': o if o == 'div' else rng.choice(['mul', 'rmul']),
                                                    'x': ['q', ['dec', frs(sign * a)], src], 'r': r}})
    return cases


def _rate_fields(r, dm):
    """independent statement of the exchange-rate normal form (C09)"""
    import math
    mult, amt = num_value(r[1]), num_value(r[3])

    def mag(q):
        m = 0
        while F(10) ** m > q:
            m -= 1
        while F(10) ** (m + 1) <= q:
            m += 1
        return m
    km = mag(mult)
    adj = amt * F(10) ** km / mult
    m10 = F(10) ** (km - min(0, mag(adj) + 1))
    stored = to_quantum(dm, amt * m10 / mult, F(1, 10 ** 6))
    return stored / m10


def oracle(case, r):
    w, _ = RW.replay(case)
    if any(s is not None for s in r['steps']):
        return f"a declaration of the catalogue was rejected: {r['steps']}"
    q, res, dm = case['q'], r['res'], case['dm']
    x, rt = q['x'], q['r']
    u = w.units[x[2]]
    mul = q['o'] != 'div'
    src, dst = (rt[0], rt[2]) if mul else (rt[2], rt[0])
    rate = _rate_fields(rt, dm)
    k = rate if mul else 1 / rate
    a = num_value(x[1])
    qu = w.unit_quantum(x[2])
    if qu is not None:
        a = to_quantum(dm, a, qu)
    what = f"{x[1][1]} {x[2]} {q['o']} rate({rt[0]}->{rt[2]} = {rate})"
    if res.get('float'):
        return f"{what}: inexact float {res}"
    if u['cls'] == 'Money':
        if x[2] != src:
            return None if res['k'] == 'err' and res['e'] == 'EValueError' else \
                f"{what}: non-matching currency did not raise ValueError: {res}"
        want = to_quantum(dm, a * k, w.unit_quantum(dst))
        if res['k'] != 'qty' or res['cls'] != 'Money' or res['sym'] != dst or F(res['amt']) != want:
            return f"{what}: expected {want} {dst} (exact product rounded once), got {res}"
        return None
    # compound: currency replaced inside the unit
    f, d = w.unit_value(x[2])
    dd = RW.vmul(d, {dst: 1})
    dd = RW.vmul(dd, {src: -1})
    target = None
    for s in w.order:
        sf, sd = w.unit_value(s)
        if sd == dd and w.units[s]['cls'] == u['cls'] and (sf == f or sf == 1):
            target = s if (target is None or sf == f) else target
    involves = d.get(src, 0) == 1
    if target is None or not involves:
        if target is None:
            return None if res['k'] == 'err' and res['e'] == 'EQuantityError' else \
                f"{what}: no unit declared for the converted price, expected QuantityError, got {res}"
        return None
    if res['k'] != 'qty' or res['cls'] != u['cls']:
        return f"{what}: expected a {u['cls']} in {target}, got {res}"
    rf, rd = w.unit_value(res['sym'])
    if rd != dd or F(res['amt']) * rf != a * f * k:
        return (f"{what}: result {res['amt']} {res['sym']} does not equal the amount scaled by "
                f"exactly the rate ({a * f * k} in base units of {dd})")
    return None


def labels(case, r):
    q = case['q']
    w, _ = RW.replay(case)
    cls = w.units[q['x'][2]]['cls']
    kind = 'money' if cls == 'Money' else 'price' if cls.startswith('P') else 'no-money'
    res = r['res']
    return ['op=' + q['o'], 'operand=' + kind, 'mode=' + case['dm'],
            'result=' + (res['e'] if res['k'] == 'err' else res['k'])]


def nontrivial_key(case, r):
    return str(case['script']) + str(case['q'])
