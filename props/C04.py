"""C04 — equality and ordering agree with exact reference values."""
import itertools
from fractions import Fraction as F

from vlib import siref, world as W, qtyops as Q
from vlib.qtyops import frs

PID = 'C04'
PROPERTY_FILE = 'Properties/C04.v'
# generated model parts (translate/) this property's model / proofs really depend on
GEN_DEPS = ['QuantityImpl']
MODEL_TARGETS = Q.MODEL_TARGETS
PROOF_TARGETS = ['Proofs/GenQuantityEq.vo', 'Proofs/C03C04Proofs.vo']
COQ_HEADER = Q.COQ_HEADER
COQ_CHECK = Q.COQ_CHECK
ISOLATE = True
impl_run = Q.impl_run
coq_case = Q.coq_case
coq_model_term = Q.coq_model_term
RULE = ("all ordered unit pairs of every predefined linear type (sampled in quick) "
        "x the six comparison operators, with amounts chosen equal across units "
        "(a*scale(u) = b*scale(v)), one part in 10^30 apart, and unrelated; both "
        "Decimal and Fraction representations of the same value; unit-vs-unit "
        "comparison for all pairs; sorted() of 2-8 quantities in mixed units; "
        "user-declared chains. non-trivial = different units or representations; "
        "distinct by (op, operands).")
ASSUMPTIONS = ["unit views are independent of the library (siref / declaration script)"]
EXHAUSTIVE = {}

OPS = ['lt', 'le', 'gt', 'ge', 'eq', 'ne']
BASE = [F(1), F(-1), F(0), F(1, 3), F(1000), F(254, 100), F(-22, 7), F(10) ** 18,
        F(1, 10 ** 12), F(5, 18)]


def _spec(rng, a):
    kind = 'dec' if (W.is_decimal(a) and rng.random() < 0.5) else 'frac'
    return [kind, frs(a)]


def _pair(rng, su, sv):
    a = rng.choice(BASE)
    mode = rng.random()
    b = a * su / sv                      # equal across units
    if mode < 0.35:
        b += rng.choice([1, -1]) * abs(b if b else 1) / F(10) ** 30    # near tie
    elif mode < 0.55:
        b = rng.choice(BASE)
    return a, b


def gen_cases(rng, tier):
    cases = []
    pre = {'predefined': True}
    vpre = W.Views(pre)
    for cls in siref.LINEAR_TYPES:
        us = siref.units_of(cls)
        pairs = list(itertools.product(us, us))
        if tier == 'quick':
            pairs = rng.sample(pairs, min(len(pairs), 45))
        for u, v in pairs:
            su, sv = vpre.units[u]['scale'], vpre.units[v]['scale']
            for o in (OPS if tier == 'thorough' else rng.sample(OPS, 2)):
                a, b = _pair(rng, su, sv)
                cases.append({'world': pre, 'dm': 'MHEVEN', 'op': {
                    'o': o, 'x': ['q', _spec(rng, a), u], 'y': ['q', _spec(rng, b), v]}})
            cases.append({'world': pre, 'dm': 'MHEVEN', 'op': {
                'o': 'ucmp', 'c': rng.choice(OPS[:4]), 'u': u, 'v': v}})
            cases.append({'world': pre, 'dm': 'MHEVEN', 'op': {'o': 'ueq', 'u': u, 'v': v}})
        for _ in range(3 if tier == 'quick' else 40):
            xs = [['q', _spec(rng, rng.choice(BASE) * rng.choice([1, 1000, F(1, 1000)])),
                   rng.choice(us)] for _ in range(rng.randint(2, 8))]
            cases.append({'world': pre, 'dm': 'MHEVEN', 'op': {'o': 'sorted', 'xs': xs}})
    # temperature: comparison through the table converter (model only + C14)
    for u, v in itertools.product(siref.TEMPERATURE, siref.TEMPERATURE):
        for o in OPS:
            cases.append({'world': pre, 'dm': 'MHEVEN', 'op': {
                'o': o, 'x': ['q', _spec(rng, rng.choice(BASE)), u],
                'y': ['q', _spec(rng, rng.choice(BASE)), v]}})
    for _ in range(250 if tier == 'quick' else 4000):
        world = W.random_world(rng, n_classes=1, quantized_p=0.0)
        views = W.Views(world)
        syms = sorted(views.units)
        u, v = rng.choice(syms), rng.choice(syms)
        a, b = _pair(rng, views.units[u]['scale'], views.units[v]['scale'])
        cases.append({'world': world, 'dm': 'MHEVEN', 'op': {
            'o': rng.choice(OPS), 'x': ['q', _spec(rng, a), u], 'y': ['q', _spec(rng, b), v]}})
    return cases


import operator
PYOP = {'lt': operator.lt, 'le': operator.le, 'gt': operator.gt, 'ge': operator.ge,
        'eq': operator.eq, 'ne': operator.ne}


def oracle(case, r):
    views = W.Views(case['world'])
    op = case['op']
    o = op['o']
    res = r['res']
    if o in OPS:
        ux, uy = views.units[op['x'][2]], views.units[op['y'][2]]
        if ux['scale'] is None or uy['scale'] is None:
            return None
        rx = F(r['ops'][0]['amt']) * ux['scale']
        ry = F(r['ops'][1]['amt']) * uy['scale']
        exp = PYOP[o](rx, ry)
        if res != {'k': 'bool', 'v': exp}:
            return (f"{r['ops'][0]['amt']} {op['x'][2]} {o} {r['ops'][1]['amt']} {op['y'][2]}: "
                    f"got {res}, reference values give {exp}")
        return None
    if o == 'ucmp':
        su, sv = views.units[op['u']]['scale'], views.units[op['v']]['scale']
        exp = PYOP[op['c']](su, sv)
        return None if res == {'k': 'bool', 'v': exp} else \
            f"unit {op['u']} {op['c']} {op['v']}: got {res}, scales give {exp}"
    if o == 'ueq':
        su, sv = views.units[op['u']]['scale'], views.units[op['v']]['scale']
        return None if res == {'k': 'bool', 'v': su == sv} else \
            f"unit {op['u']} == {op['v']}: got {res}, scales give {su == sv}"
    if o == 'sorted':
        if res['k'] != 'list':
            return f"sorted raised {res}"
        vals = [Q.refvalue(views, ob) for ob in res['v']]
        if vals != sorted(vals):
            return f"sorted() result not ordered by reference value: {res['v']}"
        if sorted(vals) != sorted(Q.refvalue(views, ob) for ob in r['ops']):
            return "sorted() lost or changed an element"
        return None
    return None


def labels(case, r):
    op = case['op']
    out = ['op=' + op['o'],
           'world=' + ('predefined' if case['world'].get('predefined') else 'user')]
    if op['o'] in OPS and r['ops'][0] and r['ops'][1]:
        out.append('reprs=' + r['ops'][0]['repr'] + '/' + r['ops'][1]['repr'])
        views = W.Views(case['world'])
        ux, uy = views.units[op['x'][2]], views.units[op['y'][2]]
        if ux['scale'] is not None and uy['scale'] is not None:
            rx = F(r['ops'][0]['amt']) * ux['scale']
            ry = F(r['ops'][1]['amt']) * uy['scale']
            out.append('relation=' + ('equal' if rx == ry else 'near-tie'
                                      if abs(rx - ry) <= abs(rx) / 10 ** 20 else 'apart'))
    return out


def nontrivial_key(case, r):
    op = case['op']
    if op['o'] in OPS and op['x'][2] == op['y'][2] and op['x'][1] == op['y'][1]:
        return None
    if op['o'] in ('ucmp', 'ueq') and op['u'] == op['v']:
        return None
    return str(op) + ('' if case['world'].get('predefined') else str(case['world']))
