"""C20 — the predefined catalogue matches SI / the international yard and
pound / IEC, and its documentation."""
import itertools
from fractions import Fraction as F

from translate import catalogue as TC
from vlib import siref, world as W
from vlib.core import cn, cq, cz, cbool, copt
from vlib.pyround import to_quantum

PID = 'C20'
PROPERTY_FILE = 'Properties/C20.v'
# generated model parts (translate/) this property's model / proofs really depend on
GEN_DEPS = ['Catalogue', 'Prefixes', 'DocTables', 'QuantityImpl']
MODEL_TARGETS = ['Corr/C20Corr.vo']
PROOF_TARGETS = ['Proofs/C20Proofs.vo']
COQ_HEADER = ("From Coq Require Import String.\n"
              "From QV Require Import Model.Num Model.Rounding Model.Quantity "
              "Model.Catalogue Corr.Common Corr.Obs Corr.C20Corr.\n"
              "Open Scope string_scope.")
COQ_CHECK = 'c20_check'
ISOLATE = True
RULE = ("exhaustive: every unit object of quantity.predefined (symbol, name, type, "
        "is_ref_unit, (1*u).convert(reference unit)) with its index in the generated "
        "catalogue; every ordered pair of units of each of the 14 types (temperature "
        "included) with 3 amounts (thorough: 8 amounts, random default rounding mode, plus "
        "the quantized type's pairs x 3 off-grid amounts x all 8 modes); "
        "every entry of quantity.si_prefixes.SI_PREFIXES; every row of every table of "
        "the live quantity.predefined.__doc__ with the equivalent computed by the "
        "implementation; every temperature formula with 3 amounts. The model's scales "
        "are computed INSIDE Coq from the generated declarations; the oracle uses "
        "vlib/siref.py only. non-trivial = a conversion between different units, a "
        "non-reference unit's scale, a prefix, a documentation row.")
ASSUMPTIONS = [
    "Ref/SIRef.v and vlib/siref.py are specifications: they are trusted to state the "
    "SI / 1959 yard-and-pound / IEC values",
    "component-wise scale computation is valid because reference units of derived "
    "types are products of reference units and every defined unit has the dimension "
    "of its type — checked on the generated data (C20_coherence), not assumed",
]
EXHAUSTIVE = {'quick': True, 'thorough': True}
EXHAUSTIVE_NOTE = ("finite domains enumerated completely in both tiers: all predefined "
                   "units, all ordered unit pairs per type, all SI prefixes, all "
                   "documentation rows / fixed points / formulas; amounts are a fixed "
                   "finite list (3 quick, 8 thorough)")

# the coherent reference unit of each type, written from SI (independent of /repo)
REF_UNIT = {'Mass': 'kg', 'Length': 'm', 'Duration': 's', 'Area': 'm²',
            'Volume': 'm³', 'Velocity': 'm/s', 'Acceleration': 'm/s²',
            'Force': 'N', 'Energy': 'J', 'Power': 'W', 'Frequency': 'Hz',
            'DataVolume': 'B', 'DataThroughput': 'B/s', 'Temperature': None}

AMOUNTS_Q = [F(1), F(-1, 3), F(12345, 10)]
AMOUNTS_T = AMOUNTS_Q + [F(0), F(10) ** 30, F(10) ** -30, F(22, 7),
                         F(-45359237, 10 ** 8)]


def frs(f):
    f = F(f)
    return f"{f.numerator}/{f.denominator}"


def _spec(a, rng):
    a = F(a)
    if a.denominator == 1 and rng.random() < 0.3:
        return ['int', frs(a)]
    if W.is_decimal(a) and rng.random() < 0.6:
        return ['dec', frs(a)]
    return ['frac', frs(a)]


# ------------------------------------------------------------ catalogue indices

def _idx():
    d = TC.dump()
    uidx = {u['sym']: i for i, u in enumerate(d['units'])}
    cidx = {t['name']: i for i, t in enumerate(d['types'])}
    return d, uidx, cidx


def gen_cases(rng, tier):
    d, uidx, cidx = _idx()
    cases = []
    syms = [u['sym'] for u in d['units']]
    # every unit of the implementation, and every unit the reference expects
    for s in syms + [s for s in list(siref.REF) + list(siref.TEMPERATURE) if s not in uidx]:
        cases.append({'k': 'scale', 'sym': s})
    amounts = AMOUNTS_Q if tier == 'quick' else AMOUNTS_T
    for t in d['types']:
        us = t['units']
        for u, v in itertools.product(us, us):
            for a in amounts:
                dm = 'MHEVEN' if tier == 'quick' else rng.choice(W.MODES)
                cases.append({'k': 'conv', 'u': u, 'v': v, 'a': _spec(a, rng), 'dm': dm})
        if tier != 'quick' and t['quantum'] is not None:
            # the quantized type: off-grid amounts under every default rounding mode
            for u, v in itertools.product(us, us):
                for a in (F(1, 3), F(-7, 16), F(1234567, 1000)):
                    for dm in W.MODES:
                        cases.append({'k': 'conv', 'u': u, 'v': v, 'a': _spec(a, rng),
                                      'dm': dm})
    npre = len(TC.scan_prefixes()[0])
    for i in range(npre):
        cases.append({'k': 'prefix', 'i': i})
    cases.append({'k': 'count'})        # nothing beyond the enumerated lists
    p = TC.doc_tables()
    for si, s in enumerate(p['sections']):
        for ri in range(len(s['rows'])):
            cases.append({'k': 'docrow', 'si': si, 'ri': ri})
        if not s['rows']:
            cases.append({'k': 'docsec', 'si': si})
    ne = sum(len(r['entries']) - 1 for r in p['temp_rows'])
    for i in range(ne):
        cases.append({'k': 'docequiv', 'i': i})
    for i in range(len(p['temp_formulas'])):
        for a in amounts:
            cases.append({'k': 'docformula', 'i': i, 'x': _spec(a, rng)})
    for i in range(len(p['temp_rows'])):
        cases.append({'k': 'docnl', 'i': i})
    return cases


# ------------------------------------------------------------ implementation

_DOC = None


def impl_setup():
    """Once per worker process: declare the catalogue (children are forked
    from here) and parse the LIVE module documentation."""
    global _DOC
    import quantity.predefined as pd
    _DOC = TC.parse_doc(pd.__doc__)


def _doc_live():
    if _DOC is None:
        impl_setup()
    return _DOC


def _equiv_entries(p):
    out = []
    for r in p['temp_rows']:
        a0 = r['entries'][0]
        for e in r['entries'][1:]:
            out.append({'from': a0['unit'], 'a': frs(a0['amount']), 'to': e['unit'],
                        'val': frs(e['amount']), 'exact': e['rel'] == '=',
                        'dec': e['decimals'], 'text': f"{a0['text']} {e['rel']} {e['text']}"})
    return out


def _unit(sym):
    from quantity import Unit
    return Unit(sym)


def impl_run(case):
    import quantity
    import quantity.predefined as pd          # noqa: F401  (declares the catalogue)
    k = case['k']
    W.set_mode(case.get('dm', 'MHEVEN'))
    if k == 'scale':
        try:
            u = _unit(case['sym'])
        except ValueError as e:
            return {'missing': True, 'msg': str(e)}
        ref = u.qty_cls.ref_unit
        return {'sym': u.symbol, 'name': u.name, 'cls': u.qty_cls.__name__,
                'isref': bool(u.is_ref_unit()),
                'ref': None if ref is None else ref.symbol,
                'exported': any(getattr(pd, n, None) is u for n in pd.__all__),
                'res': W.guarded(lambda: (1 * u).convert(ref)) if ref is not None
                else {'k': 'none'}}
    if k == 'conv':
        u, v = _unit(case['u']), _unit(case['v'])
        x = W.number(tuple(case['a'])) * u
        recv = W.observe(x)
        res = W.guarded(lambda: x.convert(v))
        return {'recv': recv, 'res': res, 'unchanged': W.observe(x) == recv}
    if k == 'count':
        from quantity import si_prefixes as sp
        objs = [getattr(pd, n) for n in pd.__all__]
        return {'types': sum(1 for o in objs if isinstance(o, type)),
                'units': len({id(o) for o in objs if isinstance(o, quantity.Unit)}),
                'prefixes': len(sp.SI_PREFIXES),
                'prefix_objs': sum(1 for o in vars(sp).values()
                                   if isinstance(o, sp.SIPrefix))}
    if k == 'prefix':
        from quantity import si_prefixes as sp
        lst = sp.SI_PREFIXES
        pfx = lst[case['i']]
        var = [n for n, o in vars(sp).items() if o is pfx]
        return {'n': len(lst), 'var': var[0] if len(var) == 1 else None,
                'name': pfx.name, 'abbr': pfx.abbr, 'exp': pfx.exp,
                'factor': W.guarded(lambda: pfx.factor),
                'mapped': W.guarded(lambda: sp.SI_PREFIX_MAP[pfx.factor] is pfx)}
    if k == 'f10':
        # regression for the repaired finding F10: the old text must be gone
        c, kv = _unit('°C'), _unit('K')
        return {'old_text_present': case['text'] in (pd.__doc__ or ''),
                'res': W.guarded(lambda: (0 * c).convert(kv)),
                'back': W.guarded(lambda: (0 * kv).convert(c))}
    p = _doc_live()
    if k in ('docrow', 'docsec'):
        s = p['sections'][case['si']]
        out = {'type': s['type'], 'ref': s['ref_sym'], 'definition': s['definition'],
               'ref_name': s['ref_name']}
        cls = getattr(pd, s['type'], None)
        out['cls_definition'] = None if cls is None or not cls.is_derived_cls() \
            else str(cls.definition)
        if k == 'docsec':
            return out
        r = s['rows'][case['ri']]
        out.update({'sym': r['sym'], 'name': r['name'], 'def': r['def'],
                    'equiv': frs(r['equiv'])})
        try:
            u = _unit(r['sym'])
        except ValueError:
            out['res'] = {'k': 'err', 'e': 'EValueError', 'py': 'ValueError', 'msg': 'no unit'}
            return out
        ref = u.qty_cls.ref_unit
        out['unit_name'] = u.name
        out['unit_def'] = str(u.definition)
        out['res'] = W.guarded(lambda: (1 * u).convert(ref)) if ref is not None \
            else {'k': 'none'}
        return out
    if k == 'docequiv':
        e = _equiv_entries(p)[case['i']]
        out = dict(e)
        out['res'] = W.guarded(lambda: (W.number(('frac', e['a'])) * _unit(e['from']))
                               .convert(_unit(e['to'])))
        return out
    if k == 'docformula':
        fn, tn, ts, fs, pre, f, post, _ = p['temp_formulas'][case['i']]
        x = W.number(tuple(case['x'])) * _unit(fs)
        return {'from': fs, 'to': ts, 'pre': frs(pre), 'factor': frs(f), 'post': frs(post),
                'recv': W.observe(x), 'res': W.guarded(lambda: x.convert(_unit(ts)))}
    if k == 'docnl':
        r = p['temp_rows'][case['i']]
        out = {'type': r['type'], 'sym': r['sym'], 'name': r['name']}
        try:
            u = _unit(r['sym'])
            out['unit_name'] = u.name
            out['cls'] = u.qty_cls.__name__
        except ValueError:
            out['cls'] = None
        return out
    raise ValueError(k)


# ------------------------------------------------------------ model side

def cstring(s):
    return TC.cstring(s)


def _obs(o, uidx, cidx):
    k = o['k']
    if k == 'qty':
        if o.get('float'):
            return "OFloat"
        if o['sym'] not in uidx:
            return "OUnknownUnit"
        return f"(OQty {cn(cidx.get(o['cls'], 999999))} {cn(uidx[o['sym']])} {cq(F(o['amt']))})"
    if k == 'num':
        return f"(ONum {cq(F(o['v']))})"
    if k == 'err':
        return f"(OErr {o['e']})"
    if k == 'none':
        return "ONone"
    if k == 'bool':
        return f"(OBool {cbool(o['v'])})"
    return "OOther"


def coq_case(case, r):
    _, uidx, cidx = _idx()
    k = case['k']
    if k == 'scale':
        if r.get('missing') or r['sym'] not in uidx:
            return None                  # the oracle reports it
        return (f"(KScale {cn(uidx[r['sym']])} {cstring(r['sym'])} {cstring(r['name'])} "
                f"{cstring(r['cls'])} {cbool(r['isref'])} {_obs(r['res'], uidx, cidx)})")
    if k == 'conv':
        if case['u'] not in uidx or case['v'] not in uidx:
            return None
        return (f"(KConv {case['dm']} {cn(uidx[case['u']])} {cn(uidx[case['v']])} "
                f"{cq(F(r['recv']['amt']))} {_obs(r['res'], uidx, cidx)})")
    if k == 'count':
        return f"(KCount {cn(r['types'])} {cn(r['units'])} {cn(r['prefixes'])})"
    if k == 'prefix':
        if r['var'] is None or r['factor']['k'] != 'num':
            return f"(KPrefix {cn(999999)} \"\" \"\" \"\" 0%Z {cq(0)})"
        return (f"(KPrefix {cn(case['i'])} {cstring(r['var'])} {cstring(r['name'])} "
                f"{cstring(r['abbr'])} {cz(r['exp'])} {cq(F(r['factor']['v']))})")
    if k == 'docrow':
        return (f"(KDocRow {cn(case['si'])} {cn(case['ri'])} {cstring(r['type'])} "
                f"{copt(r['ref'], cstring)} {cstring(r['sym'])} {cstring(r['name'])} "
                f"{cstring(r['def'])} {cq(F(r['equiv']))} {_obs(r['res'], uidx, cidx)})")
    if k == 'docequiv':
        return (f"(KDocEquiv {cn(case['i'])} {cstring(r['from'])} {cq(F(r['a']))} "
                f"{cstring(r['to'])} {cq(F(r['val']))} {cbool(r['exact'])} {cz(r['dec'])} "
                f"{_obs(r['res'], uidx, cidx)})")
    if k == 'docformula':
        return (f"(KDocFormula {cn(case['i'])} {cstring(r['from'])} {cstring(r['to'])} "
                f"{cq(F(r['pre']))} {cq(F(r['factor']))} {cq(F(r['post']))} "
                f"{cq(F(r['recv']['amt']))} {_obs(r['res'], uidx, cidx)})")
    if k == 'docnl':
        return (f"(KDocNonlinear {cn(case['i'])} {cstring(r['type'])} {cstring(r['sym'])} "
                f"{cstring(r['name'])})")
    return None


def coq_model_term(case, r):
    t = coq_case(case, r)
    return f"(c20_aligned {t}, c20_model {t})" if t else "tt"


# ------------------------------------------------------------ oracle (siref only)

def _is_qty(res, cls, sym):
    return res['k'] == 'qty' and not res.get('float') and res['cls'] == cls and res['sym'] == sym


def _ref_conv(a, u, v, dm):
    """Expected amount of (a u).convert(v) from the reference tables only."""
    if u in siref.TEMPERATURE and v in siref.TEMPERATURE:
        if u == v:
            return a
        f, o = siref.TEMP_TABLE[(u, v)]
        return f * a + o
    (cu, su), (cv, sv) = siref.REF[u], siref.REF[v]
    assert cu == cv
    exp = a * su / sv
    q = siref.QUANTUM.get(cu)
    if q is not None:
        exp = to_quantum(dm, exp, q / sv)
    return exp


def _cls_of(sym):
    if sym in siref.TEMPERATURE:
        return 'Temperature'
    return siref.REF[sym][0] if sym in siref.REF else None


def oracle(case, r):
    k = case['k']
    if k == 'scale':
        s = case['sym']
        if r.get('missing'):
            return f"the reference unit '{s}' is not defined by the catalogue"
        cls = _cls_of(s)
        if cls is None:
            return (f"catalogue unit '{s}' ({r['cls']}) is unknown to the SI / "
                    f"yard-pound / IEC reference")
        if r['cls'] != cls:
            return f"unit '{s}' belongs to {r['cls']}, reference says {cls}"
        if not r['exported']:
            return f"unit '{s}' is not exported by quantity.predefined"
        if r['ref'] != REF_UNIT[cls]:
            return f"reference unit of {cls} is {r['ref']}, SI says {REF_UNIT[cls]}"
        if r['isref'] != (s == REF_UNIT[cls]):
            return f"is_ref_unit() of '{s}' is {r['isref']}"
        if cls == 'Temperature':
            return None
        want = siref.REF[s][1]
        if not _is_qty(r['res'], cls, REF_UNIT[cls]) or F(r['res']['amt']) != want:
            return (f"1 {s} = {r['res'].get('amt', r['res'])} {REF_UNIT[cls]} on the "
                    f"implementation, the reference says {want}")
        return None
    if k == 'conv':
        u, v = case['u'], case['v']
        cu, cv = _cls_of(u), _cls_of(v)
        if cu is None or cv is None:
            return None                      # reported by the 'scale' case of that unit
        if not r['unchanged']:
            return "convert changed its receiver"
        a = F(r['recv']['amt'])
        exp = _ref_conv(a, u, v, case['dm'])
        if not _is_qty(r['res'], cv, v) or F(r['res']['amt']) != exp:
            return (f"{a} {u} -> {v}: got {r['res'].get('amt', r['res'])}, the ratio of "
                    f"the reference scales gives {exp}")
        return None
    if k == 'count':
        want = (len(REF_UNIT), len(siref.REF) + len(siref.TEMPERATURE), len(siref.SI_PREFIX))
        got = (r['types'], r['units'], r['prefixes'])
        if got != want or r['prefix_objs'] != r['prefixes']:
            return f"(types, units, prefixes) = {got}, the reference expects {want}"
        return None
    if k == 'prefix':
        e = siref.SI_PREFIX.get(r['abbr'])
        if e is None:
            return f"prefix '{r['abbr']}' ({r['name']}) is not an SI prefix"
        if r['exp'] != e or r['factor'].get('k') != 'num' or F(r['factor']['v']) != F(10) ** e:
            return (f"prefix {r['name']} ('{r['abbr']}'): exp {r['exp']}, factor "
                    f"{r['factor'].get('v')}; SI says 10^{e}")
        if r['mapped'] != {'k': 'bool', 'v': True}:
            return f"SI_PREFIX_MAP does not map 10^{e} to {r['name']}"
        return None
    if k == 'f10':
        if r['old_text_present']:
            return f"documentation again contains `{case['text']}` (finding F10)"
        if not _is_qty(r['res'], 'Temperature', 'K') or F(r['res']['amt']) != F(27315, 100) \
                or not _is_qty(r['back'], 'Temperature', '°C') \
                or F(r['back']['amt']) != F(-27315, 100):
            return f"0 °C -> K = {r['res']}, 0 K -> °C = {r['back']}; SI says +-273.15"
        return None
    if k == 'docsec':
        if r['type'] not in REF_UNIT:
            return f"documentation section for unknown type {r['type']}"
        if r['ref'] != REF_UNIT[r['type']]:
            return f"documentation: reference unit of {r['type']} given as {r['ref']}"
        return None
    if k == 'docrow':
        s = r['sym']
        if s not in siref.REF:
            return f"documentation row for unknown unit '{s}'"
        cls, want = siref.REF[s]
        if r['type'] != cls or r['ref'] != REF_UNIT[cls]:
            return (f"documentation lists '{s}' under {r['type']} (reference unit "
                    f"{r['ref']}); it is a {cls} unit")
        if r['definition'] != r['cls_definition']:
            return (f"documentation: Definition of {r['type']} is {r['definition']!r}, "
                    f"the class says {r['cls_definition']!r}")
        if F(r['equiv']) != want:
            return (f"documentation row '{s}': equivalent {F(r['equiv'])} "
                    f"{r['ref']}, the reference says {want}")
        if not _is_qty(r['res'], cls, REF_UNIT[cls]) or F(r['res']['amt']) != F(r['equiv']):
            return (f"documentation row '{s}': equivalent {F(r['equiv'])}, the "
                    f"implementation computes {r['res'].get('amt', r['res'])}")
        return None
    if k == 'docequiv':
        u, v = r['from'], r['to']
        if u not in siref.TEMPERATURE or v not in siref.TEMPERATURE:
            return f"documentation: fixed point between unknown units {u}, {v}"
        exp = _ref_conv(F(r['a']), u, v, 'MHEVEN')
        if not _is_qty(r['res'], 'Temperature', v) or F(r['res']['amt']) != exp:
            return (f"{r['a']} {u} -> {v}: implementation {r['res'].get('amt', r['res'])}, "
                    f"reference {exp}")
        val = F(r['val'])
        ok = (val == exp) if r['exact'] else abs(val - exp) <= F(1, 2) / F(10) ** r['dec']
        if not ok:
            return (f"documentation row `{r['text']}`: the catalogue (and the "
                    f"reference) give {float(exp)} {v}")
        return None
    if k == 'docformula':
        u, v = r['from'], r['to']
        if u not in siref.TEMPERATURE or v not in siref.TEMPERATURE or u == v:
            return f"documentation: formula between {u} and {v}"
        x = F(r['recv']['amt'])
        doc = (x + F(r['pre'])) * F(r['factor']) + F(r['post'])
        exp = _ref_conv(x, u, v, 'MHEVEN')
        if not _is_qty(r['res'], 'Temperature', v) or F(r['res']['amt']) != exp:
            return f"{x} {u} -> {v}: implementation {r['res'].get('amt', r['res'])}, reference {exp}"
        if doc != exp:
            return (f"documented formula [{v}] = ([{u}] + {r['pre']}) * {r['factor']} + "
                    f"{r['post']} gives {doc} for {x}, the reference gives {exp}")
        return None
    if k == 'docnl':
        if r['sym'] not in siref.TEMPERATURE or r['type'] != 'Temperature' \
                or r['cls'] != 'Temperature':
            return f"documentation: '{r['sym']}' listed under {r['type']}"
        return None
    return None


def extra_checks(tier):
    """Coverage both ways between the dumped catalogue and the reference."""
    out = []
    d = TC.dump()
    have = {u['sym'] for u in d['units']}
    want = set(siref.REF) | set(siref.TEMPERATURE)
    if have != want:
        out.append((f"catalogue and reference differ: only in catalogue "
                    f"{sorted(have - want)}, only in reference {sorted(want - have)}",
                    {'k': 'coverage'}))
    if {t['name'] for t in d['types']} != set(REF_UNIT):
        out.append(("quantity types differ from the reference",
                    {'k': 'coverage-types'}))
    for t in d['types']:
        q = None if t['quantum'] is None else F(*t['quantum'])
        if q != siref.QUANTUM.get(t['name']):
            out.append((f"quantum of {t['name']} is {q}", {'k': 'quantum', 't': t['name']}))
    p = TC.doc_tables()
    docsyms = [r['sym'] for s in p['sections'] for r in s['rows']] \
        + [r['sym'] for r in p['temp_rows']]
    nonref = sorted(s for s in want if s not in REF_UNIT.values())
    if sorted(docsyms) != nonref:
        out.append((f"documentation does not tabulate exactly the non-reference units: "
                    f"missing {sorted(set(nonref) - set(docsyms))}, extra/duplicate "
                    f"{sorted(s for s in docsyms if s not in nonref or docsyms.count(s) > 1)}",
                    {'k': 'doc-coverage'}))
    return out


# ------------------------------------------------------------ evidence

def labels(case, r):
    k = case['k']
    out = ['kind=' + k]
    if k == 'scale' and not r.get('missing'):
        out.append('type=' + r['cls'])
        out.append('ref-unit' if r['isref'] else 'defined-unit')
    elif k == 'conv':
        out.append('type=' + str(_cls_of(case['u'])))
        out.append('dflt=' + case['dm'])
        out.append('amount-repr=' + r['recv']['repr'])
        out.append('result=' + (r['res']['e'] if r['res']['k'] == 'err' else r['res']['k']))
    elif k == 'docrow':
        if r.get('unit_name') is not None and r['unit_name'] != r['name']:
            out.append('doc-name-differs')
        if r.get('unit_def') is not None and r['unit_def'] != r['def']:
            out.append('doc-definition-text-differs')
    elif k == 'docnl':
        if r.get('unit_name') is not None and r['unit_name'] != r['name']:
            out.append('doc-name-differs')
    elif k == 'docequiv':
        out.append('exact' if r['exact'] else 'approximate')
    return out


def nontrivial_key(case, r):
    k = case['k']
    if k == 'scale':
        return None if r.get('missing') or r['isref'] else ('scale', case['sym'])
    if k == 'conv':
        return None if case['u'] == case['v'] else ('conv', case['u'], case['v'], case['a'][1])
    if k == 'prefix':
        return ('prefix', case['i'])
    if k == 'docformula':
        return (k, case['i'], case['x'][1])
    return (k, case.get('si'), case.get('ri'), case.get('i'))
