"""C01 — unit conversion within a quantity type is exact and coherent."""
import itertools
from fractions import Fraction as F

from vlib import siref, world as W, qtyops as Q
from vlib.qtyops import frs

PID = 'C01'
PROPERTY_FILE = 'Properties/C01.v'
# generated model parts (translate/) this property's model / proofs really depend on
GEN_DEPS = ['QuantityImpl']
MODEL_TARGETS = Q.MODEL_TARGETS
PROOF_TARGETS = ['Proofs/GenQuantityEq.vo', 'Proofs/C01Proofs.vo', 'Proofs/ViewInv.vo']
COQ_HEADER = Q.COQ_HEADER
COQ_CHECK = Q.COQ_CHECK
ISOLATE = True
impl_run = Q.impl_run
coq_case = Q.coq_case
coq_model_term = Q.coq_model_term
RULE = ("exhaustive over all ordered pairs of predefined units of each of the 13 "
        "linear types (1310 pairs; triples sampled in quick, all 18596 in thorough) "
        "with amounts drawn from {0, +-1, +-1/3, 10^+-30, 2^-60, decimals, "
        "fractions}; random user-declared types (chains of depth 1-5 with "
        "int/decimal/fraction factors, quantized or not); cross-type targets. "
        "Scales on the model side come from the independent SI reference table "
        "or from the declaration script, never from the library. non-trivial = "
        "source and target unit differ; distinct by (units, amount).")
ASSUMPTIONS = ["unit views (scale, quantum) given to the model are computed from "
               "vlib/siref.py (predefined) or from the declaration script (user types)"]
EXHAUSTIVE = {'quick': False, 'thorough': False}
EXHAUSTIVE_NOTE = ("all ordered pairs of predefined units per linear type are "
                   "enumerated in both tiers; amounts are sampled")

AMOUNTS = [F(0), F(1), F(-1), F(1, 3), F(-1, 3), F(10) ** 30, F(10) ** -30,
           F(1, 2 ** 60), F(254, 100), F(-45359237, 10 ** 8), F(22, 7),
           F(123456789, 1000), F(5, 18)]


def _amount(rng):
    a = rng.choice(AMOUNTS)
    kind = 'dec' if (W.is_decimal(a) and rng.random() < 0.6) else 'frac'
    if a.denominator == 1 and rng.random() < 0.3:
        kind = 'int'
    return [kind, frs(a)]


def gen_cases(rng, tier):
    cases = []
    pre = {'predefined': True}
    dm = 'MHEVEN'
    for cls in siref.LINEAR_TYPES:
        us = siref.units_of(cls)
        for u, v in itertools.product(us, us):
            reps = 1 if tier == 'quick' else 4
            for _ in range(reps):
                o = rng.choice(['convert', 'convert', 'conveq', 'via'])
                op = {'o': o, 'x': ['q', _amount(rng), u], 'v': v}
                if o == 'via':
                    op = {'o': 'via', 'x': ['q', _amount(rng), u], 'w': v, 'v': u}
                cases.append({'world': pre, 'dm': rng.choice(W.MODES), 'op': op})
        trip = list(itertools.product(us, us, us))
        if tier == 'quick':
            trip = rng.sample(trip, min(len(trip), 25))
        for u, w, v in trip:
            cases.append({'world': pre, 'dm': dm,
                          'op': {'o': 'via', 'x': ['q', _amount(rng), u], 'w': w, 'v': v}})
    # the conversion requested through the text form with an explicit target unit (both
    # factories); units of equal scale included: the result carries the REQUESTED unit
    # (seeded C01-f, C01-g)
    for cls in siref.LINEAR_TYPES:
        us = siref.units_of(cls)
        pairs = list(itertools.product(us, us))
        same = [(u, v) for u, v in pairs if u != v and siref.REF[u][1] == siref.REF[v][1]]
        for u, v in same + rng.sample(pairs, min(len(pairs), 6 if tier == 'quick' else 60)):
            a = rng.choice([x for x in AMOUNTS if ' ' not in str(x)])
            cases.append({'world': pre, 'dm': dm,
                          'op': {'o': 'convert', 'x': ['q', ['dec' if W.is_decimal(a) else 'frac', frs(a)], u],
                                 'v': v, 'text': rng.choice(['cls', 'factory'])}})
    allsyms = sorted(siref.REF) + list(siref.TEMPERATURE)
    for _ in range(60 if tier == 'quick' else 600):      # other type
        u, v = rng.choice(allsyms), rng.choice(allsyms)
        cases.append({'world': pre, 'dm': dm,
                      'op': {'o': 'convert', 'x': ['q', _amount(rng), u], 'v': v,
                             'text': rng.choice(['cls', 'tcls', 'tcls', 'factory'])}})
    for _ in range(60 if tier == 'quick' else 600):      # other type
        u, v = rng.choice(allsyms), rng.choice(allsyms)
        cases.append({'world': pre, 'dm': dm,
                      'op': {'o': 'convert', 'x': ['q', _amount(rng), u], 'v': v}})
    for _ in range(500 if tier == 'quick' else 8000):    # user-declared chains
        world = W.random_world(rng, n_classes=rng.choice([1, 2]))
        views = W.Views(world)
        syms = sorted(views.units)
        u = rng.choice(syms)
        same = [s for s in syms if views.units[s]['cls'] == views.units[u]['cls']]
        v = rng.choice(same if rng.random() < 0.9 else syms)
        o = rng.choice(['convert', 'convert', 'conveq', 'via', 'via'])
        op = {'o': o, 'x': ['q', _amount(rng), u], 'v': v}
        if o == 'via':
            w = rng.choice(same)
            op['w'] = w
            if rng.random() < 0.5:
                op['w'], op['v'] = v if v in same else w, u     # round trip
        cases.append({'world': world, 'dm': rng.choice(W.MODES), 'op': op})
    # units given as TERMS  int x reference unit  (plain Python ints): every ordered pair
    # (the ratio of two int scales must not become a float: finding F21)
    for t in range(3 if tier == 'quick' else 30):
        tag = ''.join(rng.choice('abcdefghij') for _ in range(3))
        fs = rng.sample([3, 7, 12, 60, 1000, 1024, 9, 11], 4)
        units = [{'sym': f"{tag}t{i}", 'factor': f"{f}/1", 'fkind': 'int', 'base': f"{tag}r",
                  'via': 'term'} for i, f in enumerate(fs)]
        world = {'predefined': False,
                 'classes': [{'name': f"Ut{tag}", 'ref': f"{tag}r", 'quantum': None, 'units': units}]}
        syms = [u['sym'] for u in units]
        for u, v in itertools.permutations(syms, 2):
            cases.append({'world': world, 'dm': rng.choice(W.MODES),
                          'op': {'o': rng.choice(['convert', 'conveq']),
                                 'x': ['q', _amount(rng), u], 'v': v}})
    # units given by a two-item term  number ** k x unit  with k != 1 (rpm = 60 ** -1 Hz,
    # KiB = 2 ** 10 B): the scale is the POWER times the scale of the unit (seeded C01-j:
    # the exponent ignored); chains on top of such a unit too
    for t in range(14 if tier == 'quick' else 140):
        nb, nk = rng.choice([(60, -1), (2, 10), (10, -3), (3, -2), (12, 2), (2, -4), (10, 6)])
        world = W.random_world(rng, n_classes=1, quantized_p=0.0, with_npow=(nb, nk, rng.randint(0, 5)))
        cls = world['classes'][0]
        np_sym = cls['units'][-1]['sym']
        if rng.random() < 0.5:
            cls['units'].append({'sym': np_sym + 'k', 'factor': '1000/1', 'fkind': 'int',
                                 'base': np_sym})
        views = W.Views(world)
        syms = sorted(views.units)
        mine = [np_sym] + ([np_sym + 'k'] if np_sym + 'k' in views.units else [])
        for u in mine:
            for v in rng.sample(syms, min(len(syms), 3)):
                for a, b in ((u, v), (v, u)):
                    cases.append({'world': world, 'dm': rng.choice(W.MODES),
                                  'op': {'o': rng.choice(['convert', 'conveq']),
                                         'x': ['q', _amount(rng), a], 'v': b}})
    return cases


def oracle(case, r):
    views = W.Views(case['world'])
    op = case['op']
    x = r['ops'][0]
    u = views.units[op['x'][2]]
    tgt = views.units[op['v']]
    res = r['res']
    if r.get('unchanged') is False:
        return "convert changed its receiver"
    chain = [tgt] if op['o'] != 'via' else [views.units[op['w']], tgt]
    if any(c['cls'] != u['cls'] for c in chain):
        # first foreign unit in the chain decides
        if not Q.is_err(res, 'EIncompatibleUnits'):
            return f"conversion to a unit of another type did not raise IncompatibleUnitsError: {res}"
        return None
    if u['scale'] is None or any(c['scale'] is None for c in chain):
        return None          # not a linear type (C14's domain)
    if op['o'] == 'conveq':
        if res != {'k': 'bool', 'v': True}:
            return f"converted quantity does not equal the original: {res}"
        return None
    exp = F(x['amt']) * u['scale'] / tgt['scale']
    if not Q.is_qty(res, tgt['clsname'], op['v']):
        return f"expected a {tgt['clsname']} in {op['v']}, got {res}"
    if F(res['amt']) != exp:
        return (f"{x['amt']} {x['sym']} -> {op['v']}"
                f"{' via ' + op['w'] if op['o'] == 'via' else ''}: "
                f"got {res['amt']}, exact ratio of scales gives {exp}")
    return None


def labels(case, r):
    op = case['op']
    out = ['op=' + op['o'],
           'world=' + ('predefined' if case['world'].get('predefined') else 'user'),
           'result=' + (r['res']['e'] if r['res']['k'] == 'err' else r['res']['k'])]
    if r['ops'] and r['ops'][0]:
        out.append('amount-repr=' + r['ops'][0]['repr'])
    return out


def nontrivial_key(case, r):
    op = case['op']
    if op['x'][2] == op['v'] and op['o'] != 'via':
        return None
    return (op['o'], op['x'][2], op.get('w'), op['v'], op['x'][1][1],
            None if case['world'].get('predefined') else str(case['world']))
