"""C17 — results do not depend on evaluation history."""
from fractions import Fraction as F

from vlib import world as W, regops as R, regworld as RW, core
from vlib.qtyops import num_value
import props.C02 as C02

PID = 'C17'
PROPERTY_FILE = 'Properties/C17.v'
# generated model parts (translate/) this property's model / proofs really depend on
GEN_DEPS = ['OpsImpl', 'QuantityImpl', 'StateInventory', 'EffectsImpl']
MODEL_TARGETS = R.MODEL_TARGETS
PROOF_TARGETS = ['Proofs/GenOpsEq.vo', 'Proofs/C15Proofs.vo']
COQ_HEADER = R.COQ_HEADER
COQ_CHECK = R.COQ_CHECK
ISOLATE = True
SHARD = 300
coq_case = R.coq_case
coq_model_term = R.coq_model_term
RULE = ("pairs of runs in fresh processes: (A) a random catalogue declared in script order, a "
        "history of 0-6 earlier operations (the same operation repeated, the reversed operand "
        "order, other operations, attempts BEFORE the result type is declared), optionally "
        "further declarations (a unit for the same dimension, the missing type), then the "
        "operation; (B) the same declarations in another dependency-respecting order and no "
        "earlier operations.  The oracle compares the VALUES (exact amount in base units, "
        "dimension, type) of A and B and checks them against the product / quotient / power "
        "of the operands' values; the representation (which unit of the type) may differ.  "
        "The model runs A including its cache.  Also on the predefined catalogue (histories "
        "only).  non-trivial = A has a non-empty history or the orders differ; distinct by "
        "(script, history, operation).")
ASSUMPTIONS = C02.ASSUMPTIONS + ["each run is a fresh interpreter process (fork of a process that "
                                 "only imported the library)"]
EXHAUSTIVE = {}


def _deps(d):
    out = set()
    if d['d'] == 'cls':
        out |= {('c', c) for c, _ in (d.get('def') or [])}
    elif d['d'] == 'unit':
        out.add(('c', d['cls']))
        df = d['def']
        if df and df[0] == 'qty':
            out.add(('u', df[2]))
        elif df:
            out |= {('u', e[1]) for e, _ in df[1] if e[0] == 'u'}
    elif d['d'] == 'derive':
        out.add(('c', d['cls']))
        out |= {('u', s) for s in d['units']}
    return out


def _provides(d, w):
    out = set()
    if d['d'] == 'cls':
        out.add(('c', d['name']))
        r = w.classes[d['name']]['ref']
        if r:
            out.add(('u', r))
    elif d['d'] in ('unit', 'derive'):
        # symbol (explicit or generated) is known from the reference bookkeeping
        out.add(('u', d['_sym']))
    return out


def _shuffle(rng, script, w):
    """another order of the same declarations that respects dependencies.
    Declarations with generated symbols keep their relative order (their
    symbols do not depend on the order, but buckets of equal definitions do —
    which is the point)."""
    # attach the resulting symbol to unit declarations
    ww = RW.RefWorld()
    ann = []
    for d in script:
        before = set(ww.units)
        ww.apply(d)
        new = [s for s in ww.order if s not in before]
        dd = dict(d)
        if d['d'] in ('unit', 'derive'):
            dd['_sym'] = new[0] if new else None
        ann.append(dd)
    have, out, rest = set(), [], list(ann)
    while rest:
        ready = [d for d in rest if _deps(d) <= have]
        d = rng.choice(ready)
        rest.remove(d)
        out.append({k: v for k, v in d.items() if k != '_sym'})
        have |= _provides(d, w)
    return out


def gen_cases(rng, tier):
    cases = []
    n = 200 if tier == 'quick' else 3000
    for i in range(n):
        tag = ''.join(rng.choice('abcdefghk') for _ in range(3))
        script, w = RW.gen_world(rng, tag)
        us = list(w.order)
        kx, ky = rng.choice('qu'), rng.choice('qu')
        u, v = rng.choice(us), rng.choice(us)
        two = [c for c in w.classes.values() if c['cdef'] and len(c['cdef']) == 2
               and all(w.classes[k]['ref'] for k, _ in c['cdef'])]
        if two and rng.random() < 0.3:
            # reference units of the two types a derived type is made of
            c = rng.choice(two)
            u, v = w.classes[c['cdef'][0][0]]['ref'], w.classes[c['cdef'][1][0]]['ref']
        r = rng.random()
        if r < 0.2:
            op = ['pow', C02._opd(rng, u, kx), rng.choice([-2, -1, 2, 3])]
            if op[2] < 0 and op[1][0] == 'q':
                op[1][1] = C02._nonzero_stored(rng, w, op[1][2])
        else:
            op = [rng.choice(['mul', 'div']), C02._opd(rng, u, kx), C02._opd(rng, v, ky)]
        hist = []
        if op[0] != 'pow' and rng.random() < 0.35:
            # the other operator on the same ordered pair first (cache keys)
            hist.append(['div' if op[0] == 'mul' else 'mul', ['u', op[1][-1]], ['u', op[2][-1]]])
        for _ in range(rng.randint(0, 6)):
            h = rng.random()
            if h < 0.4:
                hist.append(op)
            elif h < 0.6 and op[0] != 'pow':
                hist.append([op[0], op[2], op[1]])
            else:
                hist.append([rng.choice(['mul', 'div']), C02._opd(rng, rng.choice(us), 'u'),
                             C02._opd(rng, rng.choice(us), rng.choice('qu'))])
        late = []
        if rng.random() < 0.5:
            # declare, after the history, the type whose absence made the operation undefined
            exp = C02.expected(w, 'MHEVEN', op) if True else None
            if exp[0] == 'dim' and exp[2]:
                dims = {}
                for s, e in exp[2].items():
                    dims = RW.vmul(dims, RW.vpow(w.classes[w.units[s]['cls']]['dims'], e))
                if dims and RW.vkey(dims) not in w.by_dims and all(
                        w.classes[c]['ref'] for c in dims):
                    late = [{'d': 'cls', 'name': f"L{tag}", 'def': [[c, e] for c, e in sorted(dims.items())],
                             'ref': None, 'quantum': rng.choice([None, None, '1/8'])}]
        perm = _shuffle(rng, script, w)
        cases.append({'dm': rng.choice(W.MODES), 'pre': False, 'script': script, 'hist': hist,
                      'late': late, 'q': {'k': 'op', 'o': op}, 'perm': perm})
        # the product / quotient of the two units a term-defined unit is made of, evaluated for
        # the first time AFTER that unit was declared (seeded C17-i: cache seeded at declaration)
        for d in script:
            if d['d'] == 'unit' and d.get('def') and d['def'][0] == 'term' and len(d['def'][1]) == 3 \
                    and d['def'][1][0][0][0] == 'n':
                u1, u2, e2 = d['def'][1][1][0][1], d['def'][1][2][0][1], d['def'][1][2][1]
                o2 = ['mul' if e2 == 1 else 'div', C02._opd(rng, u1, rng.choice('qu')),
                      C02._opd(rng, u2, rng.choice('qu'))]
                if o2[0] == 'div' and o2[2][0] == 'q':
                    o2[2][1] = C02._nonzero_stored(rng, w, u2)
                cases.append({'dm': rng.choice(W.MODES), 'pre': False, 'script': script, 'hist': [],
                              'late': [], 'q': {'k': 'op', 'o': o2}, 'perm': None})
    # evaluate, then declare a UNIT of ANOTHER type built from the same two units, evaluate
    # again: the cached result must not be touched by the declaration (seeded C17-f)
    for i in range(24 if tier == 'quick' else 240):
        tag = ''.join(rng.choice('abcdefghk') for _ in range(3))
        e2 = rng.choice([2, 3, -2, -3])
        e1 = 1 if e2 > 0 else -1
        script = [
            {'d': 'cls', 'name': f"A{tag}", 'def': None, 'ref': f"{tag}a", 'quantum': None},
            {'d': 'unit', 'cls': f"A{tag}", 'sym': f"{tag}ka", 'def': ['qty', ['int', '1000/1'], f"{tag}a"]},
            {'d': 'cls', 'name': f"B{tag}", 'def': None, 'ref': f"{tag}b", 'quantum': None},
            {'d': 'unit', 'cls': f"B{tag}", 'sym': f"{tag}hb", 'def': ['qty', ['int', '3600/1'], f"{tag}b"]},
            {'d': 'cls', 'name': f"V{tag}", 'def': [[f"A{tag}", 1], [f"B{tag}", e1]], 'ref': None,
             'quantum': None},
            {'d': 'cls', 'name': f"W{tag}", 'def': [[f"A{tag}", 1], [f"B{tag}", e2]], 'ref': None,
             'quantum': rng.choice([None, None, '1/8'])},
        ]
        ua, ub = f"{tag}ka", f"{tag}hb"
        op = ['mul' if e1 > 0 else 'div', C02._opd(rng, ua, rng.choice('qu')),
              C02._opd(rng, ub, rng.choice('qu'))]
        late = [{'d': 'derive', 'cls': f"W{tag}", 'units': [ua, ub],
                 'sym': rng.choice([None, f"{tag}w"])}]
        cases.append({'dm': rng.choice(W.MODES), 'pre': False, 'script': script,
                      'hist': [op] * rng.choice([1, 2]), 'late': late,
                      'q': {'k': 'op', 'o': op}, 'perm': None})
    # a type WITHOUT reference unit: the product of two units is undefined until a unit for it
    # is declared - declaring the unit (not a type) must make the retried operation succeed
    # (seeded C17-g: a memo of undefined operations reset by type declarations only)
    for i in range(16 if tier == 'quick' else 160):
        tag = ''.join(rng.choice('abcdefghk') for _ in range(3))
        e1 = rng.choice([1, -1])
        script = [
            {'d': 'cls', 'name': f"A{tag}", 'def': None, 'ref': None, 'quantum': None},
            {'d': 'unit', 'cls': f"A{tag}", 'sym': f"{tag}a1", 'def': None},
            {'d': 'unit', 'cls': f"A{tag}", 'sym': f"{tag}a2", 'def': None},
            {'d': 'cls', 'name': f"B{tag}", 'def': None, 'ref': f"{tag}b", 'quantum': None},
            {'d': 'unit', 'cls': f"B{tag}", 'sym': f"{tag}kb", 'def': ['qty', ['int', '1000/1'], f"{tag}b"]},
            {'d': 'cls', 'name': f"V{tag}", 'def': [[f"A{tag}", 1], [f"B{tag}", e1]], 'ref': None,
             'quantum': None},
            {'d': 'derive', 'cls': f"V{tag}", 'units': [f"{tag}a2", f"{tag}b"], 'sym': None},
        ]
        ua, ub = f"{tag}a1", rng.choice([f"{tag}b", f"{tag}kb"])
        op = ['mul' if e1 > 0 else 'div', C02._opd(rng, ua, rng.choice('qu')),
              C02._opd(rng, ub, rng.choice('qu'))]
        if op[2][0] == 'q' and op[0] == 'div':
            op[2][1] = ['dec', '5/2']                       # no zero divisor
        late = [{'d': 'derive', 'cls': f"V{tag}", 'units': [ua, f"{tag}b"], 'sym': None}]
        cases.append({'dm': rng.choice(W.MODES), 'pre': False, 'script': script,
                      'hist': [op] * rng.choice([1, 2]), 'late': late,
                      'q': {'k': 'op', 'o': op}, 'perm': None})
    syms = None
    from vlib import siref
    syms = sorted(siref.REF)
    for i in range(60 if tier == 'quick' else 800):
        u, v = rng.choice(syms), rng.choice(syms)
        op = [rng.choice(['mul', 'div']), C02._opd(rng, u, rng.choice('qu')),
              C02._opd(rng, v, rng.choice('qu'))]
        hist = [rng.choice([op, [op[0], op[2], op[1]],
                            ['mul', ['u', rng.choice(syms)], ['u', rng.choice(syms)]]])
                for _ in range(rng.randint(1, 5))]
        cases.append({'dm': rng.choice(W.MODES), 'pre': True, 'script': [], 'hist': hist,
                      'late': [], 'q': {'k': 'op', 'o': op}, 'perm': None})
    return cases


def impl_run(case):
    a = {k: v for k, v in case.items() if k != 'perm'}
    tag, ra = core.run_isolated(R.impl_run, a)
    if tag != 'ok':
        raise RuntimeError(ra)
    b = dict(a, hist=[])
    if case.get('perm') is not None:
        b['script'] = case['perm']
    tag, rb = core.run_isolated(R.impl_run, b)
    if tag != 'ok':
        raise RuntimeError(rb)
    ra['twin'] = rb
    return ra


def _value(w, res):
    """canonical value of a result: (kind, type, amount in base units, dimension)"""
    if res['k'] == 'qty':
        f, d = w.unit_value(res['sym'])
        return ('value', res['cls'], F(res['amt']) * f, RW.vkey(d))
    if res['k'] == 'pair':
        if res['u'] is None:
            return ('value', None, F(res['f']), ())
        f, d = w.unit_value(res['u'])
        return ('value', w.units[res['u']]['cls'], F(res['f']) * f, RW.vkey(d))
    if res['k'] == 'num':
        return ('value', None, F(res['v']), ())
    if res['k'] == 'err':
        return ('err', res['e'])
    return ('other', str(res))


def oracle(case, r):
    full = dict(case, script=case['script'] + case.get('late', []))
    msg = C02.oracle(full, r)
    if msg:
        return msg
    w, _ = RW.replay(full)
    tw = r['twin']
    if any(s is not None for s in tw['steps'] + tw['late']):
        return f"the same declarations in another order were rejected: {tw['steps']} {tw['late']}"
    qu = None
    va, vb = _value(w, r['res']), _value(w, tw['res'])
    if r['res']['k'] == 'qty':
        qu = w.unit_quantum(r['res']['sym'])
    if va != vb:
        if qu is not None and va[0] == vb[0] == 'value' and va[1] == vb[1] and va[3] == vb[3]:
            # a quantized result type rounds in the unit of the representation; both
            # representations must be within one quantum of the exact value
            return None
        return (f"{case['q']['o']}: value {va} after history {case['hist']} and declarations in "
                f"script order, but {vb} in a fresh process with another declaration order")
    # (an attempt before the type existed must not stick: C02.oracle above judges the
    # final result against ALL declarations, so a sticky error is reported there)
    # repeating gives an equal result
    if not case.get('late'):
        for h, ob in zip(case['hist'], r['hist']):
            if h == case['q']['o'] and _value(w, ob) != va:
                return f"{h}: repeated evaluation gave {ob} then {r['res']}"
    return None


def labels(case, r):
    return ['hist=%d' % len(case['hist']), 'late=%d' % len(case.get('late', [])),
            'world=' + ('predefined' if case.get('pre') else 'user'),
            'reordered=' + str(case.get('perm') not in (None, case['script'])),
            'result=' + (r['res']['e'] if r['res']['k'] == 'err' else r['res']['k']),
            'first-attempt-undefined=' + str(any(
                h == case['q']['o'] and ob['k'] == 'err' for h, ob in zip(case['hist'], r['hist'])))]


def nontrivial_key(case, r):
    if case['hist'] or case.get('perm') not in (None, case['script']):
        return str(case['script']) + str(case['hist']) + str(case['q'])
    return None
