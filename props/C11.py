"""C11 — money converter yields the right rate for every update history and date."""
import datetime as _dt
import re
from fractions import Fraction as F

from vlib import core, world as W
from vlib.core import cz, cq, cn, cbool, clist, copt, cstr
from vlib.pyround import to_quantum

PID = 'C11'
PROPERTY_FILE = 'Properties/C11.v'
# generated model parts (translate/) this property's model / proofs really depend on
GEN_DEPS = ['MoneyConvImpl', 'EffectsImpl', 'StateInventory']
MODEL_TARGETS = ['Corr/MoneyConvCorr.vo']
PROOF_TARGETS = ['Proofs/GenMoneyConvEq.vo', 'Proofs/EffectsProofs.vo', 'Proofs/C11Proofs.vo']
COQ_HEADER = ("From QV Require Import Model.Num Model.Quantity Model.Rates "
              "Model.MoneyConv Corr.Common Corr.Obs Corr.MoneyConvCorr.")
COQ_CHECK = 'c11_check'
ISOLATE = True
SHARD = 40
RULE = ("seeded generator of whole scripts: a MoneyConverter (base = one of 4 ISO "
        "currencies, default effective date from a FIXED callable), 0..12 update "
        "calls (validity of one main kind per script in every documented spelling - "
        "None / int / 'YYYY' / (y, m) / 'YYYY-MM' / date / 'YYYY-MM-DD' -, ~10% of "
        "another kind (mixing), ~12% malformed (month 13, Feb 30, year 0, 'abc', "
        "'2020-1', short tuples, tuples of strings, floats ...), ~6% exotic (bool, "
        "datetime, ISO week dates, '20200315--'); 0..4 entries per call with term "
        "currencies as Currency objects and as code strings, amounts/multiples as "
        "int/str/Decimal/Fraction/float incl. 6-digit rounding ties, ~12% of the "
        "calls contain a rejected entry (negative or zero amount, base currency as "
        "term, unknown code, non-currency object, non-number, wrong shape, "
        "multiple 0 / 1.5) at a random position; repeated and overlapping keys; "
        "rounding mode per call), then ALL ordered currency pairs (identical pairs "
        "only once finding F8 is listed) x {3 explicit dates around period "
        "boundaries, default date} observed through get_rate (None / rate fields / "
        "exception class) and, for one date per pair, conv(money, currency, date).  After EVERY update a probe "
        "set of 4 get_rate queries is observed (a rejected update must leave it "
        "unchanged).  non-trivial = a query answered with a rate although at least "
        "one update was rejected or overridden; distinct by script hash.")
ASSUMPTIONS = [
    "datetime.date.fromisoformat of CPython 3.12 is modelled after its C source "
    "(incl. week dates and the unchecked tail of 10-character compact strings); "
    "validated here on every run, not proved; strings are ASCII",
    "ExchangeRate construction is Model/Rates.v mk_rate (property C09); float log10 "
    "of non-Decimal amounts is modelled by the exact magnitude (amounts within "
    "1e-8 relative distance below a power of ten are not generated)",
    "effective dates are datetime.date objects (not datetime), the base currency "
    "is a Currency object, years given as int fit a C int or are reported as "
    "OverflowError",
]
EXHAUSTIVE = {}

CURS = ['EUR', 'USD', 'JPY', 'HKD']            # unit ids 0..3 (vlib.world.Views order)
CID = {c: i for i, c in enumerate(CURS)}
WORLD = {'currencies': CURS}

# Findings about the real code that are kept OUT of the generated stream until
# they are listed in known_findings.json under these keys (then they are
# generated and reported as KNOWN-FINDING):
KNOWN_CANDIDATES = {
    # F8: get_rate(c, c) raises ValueError instead of reporting the rate one
    'C11-identity-raises': "get_rate(c, c) raises ValueError instead of reporting one (F8)",
    # a derived rate (inverse of a stored rate > 10^6, quotient < 10^-6) cannot be
    # represented as ExchangeRate: get_rate raises ValueError although all needed
    # entries exist
    'C11-derived-rate-unrepresentable':
        "get_rate raises ValueError when the inverse / quotient rate is below 0.000001",
}

BOUNDARY = [(2020, 2, 28), (2020, 2, 29), (2020, 3, 1), (2019, 12, 31), (2020, 1, 1),
            (2020, 1, 31), (2020, 2, 1), (2020, 12, 31), (2021, 1, 1), (2021, 2, 28),
            (2021, 3, 1), (2020, 3, 31), (2020, 4, 1), (2020, 4, 30), (2020, 5, 1),
            (2000, 2, 29), (2000, 3, 1), (1900, 2, 28), (1900, 3, 1), (1, 1, 1),
            (1, 12, 31), (2, 1, 1), (9999, 12, 31), (9999, 1, 1), (9998, 12, 31),
            (2024, 2, 29), (2024, 12, 31), (2025, 1, 1), (2020, 3, 15)]

# all rates lie in [0.00769, 4999.5]: every inverse and quotient is >= 1.5e-6 and
# representable (smaller ones: KNOWN_CANDIDATES 'C11-derived-rate-unrepresentable')
NICE_RATES = ['1.25', '0.8', '0.5', '2', '2.5', '0.4', '0.0625', '16', '160', '0.1', '10',
              '1', '100', '0.125', '8', '0.02', '50', '6.25', '0.16', '1250', '0.008']
RATES = ['1.25', '0.8', '130', '0.00769', '1.1', '0.9683', '104.5', '7.8', '0.013',
         '4999.5', '0.01', '1/3', '2/7', '1.0000005', '0.1234565', '12.3456785',
         '0.0123456785', '3', '1', '10', '100', '0.1', '0.5', '2.5', '999.9999995',
         '0.09999995', '22/7', '0.0625', '1.5', '160.25']
MULTS = [1, 1, 1, 1, 10, 100, 1000, 5, 50, 755, 99]
AMOUNTS = ['1', '12.345', '0.01', '100', '7', '1234567.89', '0', '-5', '0.5', '3.333']

INVALID_STR = ['abc', '', '2020-13', '2020-00', '2020-1', '2020-3', '0000', '0', '10000',
               '02020', ' 2020', '2020 ', '+2020', '20', '202', '2020-02-30', '2021-02-29',
               '1900-02-29', '2020-3-15', '2020-03-15-1', '2020-03-15T10', '--', '-',
               '2020-', '-03', '0000-01', '0000-01-01', '2020-04-31', '2020-W11',
               '20200315', '2020-06-31', '2020-12-32', '2020-00-10', '2020-01-00',
               '٢٠٢٠', '2020-0é']
EXOTIC_STR = ['2020-W11-7', '2020-W53-7', '2021-W53-1', '2020-W01-1', '2021-W01-1',
              '0001-W01-1', '9999-W52-5', '9999-W52-6', '2020-W00-1', '2020-W54-1',
              '2020-W11-0', '2020-W11-8', '2015-W53-4', '2026-W53-1', '2020-w11-7',
              '20200315--', '2020W117--', '20200229--', '20210229--', '2020W537--',
              '0000-W01-1', '0000-W30-3', '2024-W01-1', '2019-W52-7', '2020-W09-6',
              '2020-W1-17', '2020W11-7-', '2020-W117-', '2000-W09-2', '1900-W09-3']


def frs(f):
    f = F(f)
    return f"{f.numerator}/{f.denominator}"


def _known(key):
    return key in core.known_keys(PID)


# ------------------------------------------------------------------ generator

def _spell(rng, kind, d):
    """A validity of `kind` for the period containing date d, random spelling."""
    y, m, dd = d
    if kind == 'none':
        return ['none']
    if kind == 'year':
        return rng.choice([['int', y], ['str', f"{y:04d}"], ['int', y]])
    if kind == 'month':
        r = rng.random()
        if r < 0.3:
            return ['tuple', [y, m]]
        if r < 0.4:
            # two strings convertable to an int (documented; finding F22)
            return ['tuplestr', [str(y), rng.choice([str(m), f"{m:02d}"])]]
        if r < 0.5:
            return ['tuple', [y, m, rng.randint(0, 40)]]
        return ['str', f"{y:04d}-{m:02d}"]
    r = rng.random()
    if r < 0.5:
        return ['date', y, m, dd]
    return ['str', f"{y:04d}-{m:02d}-{dd:02d}"]


def _invalid(rng, pool):
    r = rng.random()
    y, m, d = rng.choice(pool)
    if r < 0.45:
        return ['str', rng.choice(INVALID_STR)]
    if r < 0.6:
        return ['int', rng.choice([0, -1, 10000, -2020, 2**31 - 1, 2**31, -2**31 - 1, 123456])]
    if r < 0.8:
        return ['tuple', rng.choice([[y, 13], [y, 0], [0, 1], [10000, 1], [-5, 3], [y, -3],
                                     [y, 100], [20201, 1], [y], [], [2**31, 1]])]
    if r < 0.88:
        if rng.random() < 0.3:
            return ['tuplestr', [str(y), rng.choice(['13', '0', '00'])]]
        return ['tuplebad', rng.choice(['str', 'float', 'mixed'])]
    if r < 0.92:
        return ['bool', False]
    return ['other', rng.choice(['float', 'list', 'bytes', 'decimal', 'fraction'])]


def _exotic(rng, pool):
    r = rng.random()
    y, m, d = rng.choice(pool)
    if r < 0.5:
        return ['str', rng.choice(EXOTIC_STR)]
    if r < 0.65:
        return ['bool', True]
    if r < 0.8:
        return ['datetime', y, m, d, rng.choice([0, 10])]
    if r < 0.9:
        return ['tuple', [True, True]] if rng.random() < 0.3 else ['tuple', [202, 1]]
    return ['str', f"{y:04d}-W{rng.randint(1, 53):02d}-{rng.randint(1, 7)}"]


def _number(rng, val):
    """Spell the exact rational val for the library: [kind, text]."""
    val = F(val)
    dec = W.is_decimal(val)
    kinds = ['frac', 'str']
    if dec:
        kinds += ['dec', 'dec', 'str']
    if val.denominator == 1:
        kinds += ['int', 'int']
    if val.denominator in (1, 2, 4, 8, 16) and abs(val) < 2**40:
        kinds += ['float']
    k = rng.choice(kinds)
    if dec and val > 0 and rng.random() < 0.04:
        return ['float', float(val).hex()]       # e.g. 1.1: an inexact binary value
    if k == 'float':
        return ['float', float(val).hex()]
    if k == 'int':
        return ['int', str(val.numerator)]
    if k == 'str' and dec:
        return ['str', _decstr(val)]
    if k == 'dec':
        return ['dec', _decstr(val)]
    return [k, frs(val)]


def _decstr(val):
    val = F(val)
    n = 0
    while (val * 10**n).denominator != 1:
        n += 1
    s = str(abs(val.numerator * 10**n // val.denominator)).rjust(n + 1, '0')
    s = (s[:-n] + '.' + s[-n:]) if n else s
    return ('-' if val < 0 else '') + s


def _entry(rng, base, good=True):
    t = rng.choice([c for c in CURS if c != base])
    term = [rng.choice(['cur', 'cur', 'code']), t]
    mult = rng.choice(MULTS)
    rate = F(rng.choice(NICE_RATES if rng.random() < 0.45 else RATES))
    e = {'t': term, 'a': _number(rng, rate * mult), 'm': _number(rng, mult)}
    if e['m'][0] == 'frac':
        e['m'] = ['int', str(mult)]
    if good:
        return e
    bad = rng.choice(['neg', 'zero', 'tiny', 'base', 'basecode', 'badcode', 'nocur',
                      'badamt', 'badmult', 'short', 'long', 'noniter', 'mult0',
                      'mult1.5', 'multneg', 'multthird'])
    if bad == 'neg':
        e['a'] = _number(rng, -rate)
    elif bad == 'zero':
        e['a'] = rng.choice([['int', '0'], ['dec', '0'], ['str', '0']])
    elif bad == 'tiny':
        e['a'] = ['dec', '0.0000009']
    elif bad == 'base':
        e['t'] = ['cur', base]
    elif bad == 'basecode':
        e['t'] = ['code', base]
    elif bad == 'badcode':
        # not a registered currency: garbage, lower case, a unit of another type, and valid ISO
        # codes that have NOT been registered (an update must not register them: seeded C16-f)
        e['t'] = ['badcode', rng.choice(['XXX', 'usd', 'kg', '', 'CHF', 'NOK', 'CHF'])]
    elif bad == 'nocur':
        e['t'] = ['nocur', rng.choice(['int', 'none'])]
    elif bad == 'badamt':
        e['a'] = ['badstr', 'abc']
    elif bad == 'badmult':
        e['m'] = ['badstr', 'abc']
    elif bad in ('short', 'long', 'noniter'):
        e = {'shape': bad}
    elif bad == 'mult0':
        e['m'] = ['int', '0']
    elif bad == 'mult1.5':
        e['m'] = rng.choice([['float', (1.5).hex()], ['str', '2.5'], ['dec', '1.5']])
    elif bad == 'multneg':
        e['m'] = ['int', '-1']
    elif bad == 'multthird':
        e['m'] = ['frac', '1/3']
    return e


def _neighbours(d):
    try:
        x = _dt.date(*d)
    except ValueError:
        return []
    out = []
    for k in (-1, 1):
        try:
            n = x + _dt.timedelta(days=k)
            out.append((n.year, n.month, n.day))
        except OverflowError:
            pass
    return out


def gen_script(rng, with_identity=False, tiny=False):
    base = rng.choice(CURS)
    kind = rng.choice(['none', 'year', 'year', 'month', 'month', 'month', 'day', 'day', 'day'])
    anchor = rng.choice(BOUNDARY)
    pool = [anchor] + _neighbours(anchor)
    pool += rng.sample(BOUNDARY, 2)
    pool = [tuple(p) for p in pool]
    case_dm = rng.choice(W.MODES + ['MHEVEN'] * 4)
    kinds = ['none', 'year', 'month', 'day']
    steps = []
    for _ in range(rng.choice([0, 1, 2, 3, 4, 5, 6, 7, 8, 9, 10, 11, 12, 3, 5, 6])):
        r = rng.random()
        if r < 0.72:
            v = _spell(rng, kind, rng.choice(pool))
        elif r < 0.82:
            v = _spell(rng, rng.choice([k for k in kinds if k != kind]), rng.choice(pool))
        elif r < 0.94:
            v = _invalid(rng, pool)
        else:
            v = _exotic(rng, pool)
        n = rng.choice([0, 1, 1, 2, 2, 3, 3, 4])
        es = [_entry(rng, base) for _ in range(n)]
        if tiny and es:
            e = rng.choice(es)
            big = rng.random() < 0.5
            e['a'] = ['dec', rng.choice(['2000000', '50000000'] if big
                                        else ['0.000002', '0.00005'])]
            e['m'] = ['int', '1']
        if rng.random() < 0.12:
            es.insert(rng.randint(0, len(es)), _entry(rng, base, good=False))
        dm = case_dm if rng.random() < 0.8 else rng.choice(W.MODES)
        steps.append({'v': v, 'es': es, 'dm': dm,
                      'container': rng.choice(['list', 'list', 'tuple', 'gen', 'iter'])})
    dflt = rng.choice(pool)
    dates = rng.sample(pool, min(3, len(pool)))
    effs = [list(d) for d in dates] + [None]
    queries = []
    for u in CURS:
        for t in CURS:
            if u == t and not with_identity:
                continue
            k = rng.randrange(len(effs))
            for i, eff in enumerate(effs):
                queries.append({'u': u, 't': t, 'eff': eff, 'amt': rng.choice(AMOUNTS),
                                'call': i == k})
    probes = []
    for i in range(4):
        u = base if i < 2 else rng.choice(CURS)
        t = rng.choice([c for c in CURS if c != u])
        probes.append({'u': u, 't': t, 'eff': rng.choice(effs)})
    return {'base': base, 'dflt': list(dflt), 'qdm': case_dm, 'steps': steps,
            'probes': probes, 'queries': queries,
            'dflt2': list(rng.choice([p for p in pool if p != dflt] or [dflt]))}


def gen_script_rejected_first(rng):
    """histories that BEGIN with an update rejected for a bad entry (valid validity of one
    kind), followed by valid updates of ANOTHER kind: the rejected update must not have
    fixed the converter's kind of validity, nor left any entry (seeded C16-d)"""
    sc = gen_script(rng)
    kinds = ['none', 'year', 'month', 'day']
    ka, kb = rng.sample(kinds, 2)
    pool = [tuple(p) for p in rng.sample(BOUNDARY, 3)]
    base = sc['base']
    bad = {'v': _spell(rng, ka, rng.choice(pool)),
           'es': [_entry(rng, base), _entry(rng, base, good=False)], 'dm': sc['qdm']}
    rng.shuffle(bad['es'])
    good = [{'v': _spell(rng, kb, rng.choice(pool)),
             'es': [_entry(rng, base) for _ in range(rng.choice([1, 2, 3]))], 'dm': sc['qdm']}
            for _ in range(rng.choice([1, 2, 3]))]
    sc['steps'] = [bad] + good
    effs = [list(d) for d in pool] + [None]
    sc['dflt'] = list(rng.choice(pool))
    for q in sc['queries'] + sc['probes']:
        q['eff'] = rng.choice(effs)
    return sc


def gen_script_unregistered(rng):
    """updates that are rejected because an entry names a valid ISO code that has NOT been
    registered as a currency: the update must not register it (seeded C16-f)"""
    sc = gen_script(rng)
    base = sc['base']
    kind = rng.choice(['none', 'year', 'month', 'day'])
    pool = [tuple(p) for p in rng.sample(BOUNDARY, 2)]
    steps = []
    for i in range(rng.choice([2, 3])):
        es = [_entry(rng, base) for _ in range(rng.choice([1, 2]))]
        if i != 1:
            bad = _entry(rng, base)
            bad['t'] = ['badcode', rng.choice(['CHF', 'NOK', 'SEK'])]
            es.insert(rng.randint(0, len(es)), bad)
        steps.append({'v': _spell(rng, kind, rng.choice(pool)), 'es': es, 'dm': sc['qdm'],
                      'container': rng.choice(['list', 'tuple', 'gen'])})
    sc['steps'] = steps
    return sc


def gen_script_clock(rng):
    """rates for two different periods, look-ups WITHOUT an explicit date before and after the
    configured default date moves from the first period to the second (or to a period without
    rates): the answer must follow the callable (seeded C11-g: memoised cross rates)"""
    sc = gen_script(rng)
    kind = rng.choice(['year', 'month', 'day', 'day'])
    d1, d2, d3 = [tuple(p) for p in rng.sample(BOUNDARY, 3)]
    while len({_period_key(kind, d) for d in (d1, d2, d3)}) < 3:
        d1, d2, d3 = [tuple(p) for p in rng.sample(BOUNDARY, 3)]
    base = sc['base']
    steps = []
    for d in (d1, d2):
        es = []
        for c in [c for c in CURS if c != base]:
            e = _entry(rng, base)
            e['t'] = ['cur', c]
            es.append(e)
        steps.append({'v': _spell(rng, kind, d), 'es': es, 'dm': sc['qdm'], 'container': 'list'})
    sc['steps'] = steps
    sc['dflt'], sc['dflt2'] = list(d1), list(rng.choice([d2, d2, d3]))
    sc['queries'] = [{'u': u, 't': t, 'eff': None, 'amt': rng.choice(AMOUNTS), 'call': True}
                     for u in CURS for t in CURS if u != t]
    for q in sc['probes']:
        q['eff'] = rng.choice([None, list(d1), list(d2)])
    return sc


def _period_key(kind, d):
    return {'year': d[:1], 'month': d[:2], 'day': d[:3]}[kind]


def gen_cases(rng, tier):
    # the pure-Python decimalfp needs ~15 ms for every non-terminating division,
    # i.e. 30..150 ms per inverse / cross rate: the script count is bounded by that
    n = {'quick': 56, 'thorough': 600}.get(tier, 56)
    ident = _known('C11-identity-raises')
    tiny = _known('C11-derived-rate-unrepresentable')
    cases = [gen_script(rng, with_identity=ident) for _ in range(n)]
    cases += [gen_script_rejected_first(rng) for _ in range(max(8, n // 10))]
    cases += [gen_script_clock(rng) for _ in range(max(8, n // 10))]
    cases += [gen_script_unregistered(rng) for _ in range(max(6, n // 12))]
    if tiny:
        cases += [gen_script(rng, with_identity=ident, tiny=True) for _ in range(max(8, n // 20))]
    return cases


def candidate_cases(rng, n=20):
    """The KNOWN_CANDIDATES streams, whatever known_findings.json says (for
    triage by hand: see notes/design_C11.md)."""
    return ([gen_script(rng, with_identity=True) for _ in range(n)]
            + [gen_script(rng, tiny=True) for _ in range(n)])


# ------------------------------------------------------------ implementation

def _py_number(spec):
    from decimalfp import Decimal
    k, v = spec
    if k == 'int':
        return int(v)
    if k in ('str', 'badstr'):
        return v
    if k == 'dec':
        return Decimal(v)
    if k == 'frac':
        return F(v)
    if k == 'float':
        return float.fromhex(v)
    raise ValueError(k)


def _py_validity(v):
    from decimalfp import Decimal
    k = v[0]
    if k == 'none':
        return None
    if k in ('int', 'bool', 'str'):
        return v[1]
    if k == 'tuple':
        return tuple(v[1])
    if k == 'tuplestr':
        return tuple(v[1])
    if k == 'tuplebad':
        return {'str': ('2020', 'March'), 'float': (2020.0, 3), 'mixed': (2020, '03')}[v[1]]
    if k == 'date':
        return _dt.date(v[1], v[2], v[3])
    if k == 'datetime':
        return _dt.datetime(v[1], v[2], v[3], v[4], 0)
    if k == 'other':
        return {'float': 2020.0, 'list': [2020, 3], 'bytes': b'2020',
                'decimal': Decimal(2020), 'fraction': F(2020)}[v[1]]
    raise ValueError(k)


def _py_entry(e, units):
    if 'shape' in e:
        usd = units['USD']
        return {'short': (usd, '1.25'), 'long': (usd, '1.25', 1, 2), 'noniter': usd}[e['shape']]
    tk, tv = e['t']
    if tk == 'cur':
        term = units[tv]
    elif tk in ('code', 'badcode'):
        term = tv
    else:
        term = {'int': 5, 'none': None}[tv]
    return (term, _py_number(e['a']), _py_number(e['m']))


def _obs_rate(thunk):
    try:
        r = thunk()
    except BaseException as e:      # noqa: the class is the observation
        if isinstance(e, (KeyboardInterrupt, SystemExit, MemoryError)):
            raise
        return {'k': 'err', 'e': W.err_name(e), 'py': type(e).__name__}
    if r is None:
        return {'k': 'none'}
    from quantity.money import ExchangeRate
    if isinstance(r, ExchangeRate):
        return {'k': 'rate', 'u': r.unit_currency.symbol, 't': r.term_currency.symbol,
                'mult': frs(F(r._unit_multiple)), 'amt': frs(F(r._term_amount)),
                'rate': frs(F(r.rate))}
    return {'k': 'other', 'v': repr(r)}


def impl_run(case):
    from quantity.money import Money, MoneyConverter
    units, _ = W.instantiate(WORLD)
    dflt = _dt.date(*case['dflt'])
    calls = [0]

    clock = [dflt]

    def get_dflt():
        calls[0] += 1
        return clock[0]
    conv = MoneyConverter(units[case['base']], get_dflt)

    def eff(e):
        return None if e is None else _dt.date(*e)

    def probes():
        W.set_mode(case['qdm'])
        out = []
        for p in case['probes']:
            if p['eff'] is None:
                out.append(_obs_rate(lambda: conv.get_rate(units[p['u']], units[p['t']])))
            else:
                out.append(_obs_rate(lambda: conv.get_rate(units[p['u']], units[p['t']],
                                                           eff(p['eff']))))
        return out
    res = {'init': probes(), 'steps': [], 'queries': [],
           'currencies': sorted(u.symbol for u in Money.units())}
    for s in case['steps']:
        W.set_mode(s['dm'])
        val = _py_validity(s['v'])
        es = [_py_entry(e, units) for e in s['es']]
        # rate_specs is documented as an Iterable: also a tuple, a generator, an iterator
        shape = s.get('container', 'list')
        if shape == 'tuple':
            es = tuple(es)
        elif shape == 'gen':
            es = (e for e in list(es))
        elif shape == 'iter':
            es = iter(list(es))
        exc = W.guarded(lambda: conv.update(val, es))
        res['steps'].append({'exc': exc, 'after': probes(),
                             'currencies': sorted(u.symbol for u in Money.units())})
    W.set_mode(case['qdm'])
    for q in case['queries']:
        u, t, e = units[q['u']], units[q['t']], eff(q['eff'])
        money = Money(W.number(('dec', frs(F(q['amt'])))), u)
        res['queries'].append({
            'rate': _obs_rate(lambda: conv.get_rate(u, t, e)),
            'amount': frs(F(money.amount)),
            'call': (W.guarded(lambda: conv(money, t, e) if e is not None else conv(money, t))
                     if q.get('call', True) else None),
        })
    res['dflt_calls'] = calls[0]
    # the configured callable now returns ANOTHER date: look-ups without an explicit date
    # must follow it (and nothing else may change)
    res['queries2'] = []
    if case.get('dflt2'):
        clock[0] = _dt.date(*case['dflt2'])
        for q in case['queries']:
            if q['eff'] is None:
                u, t = units[q['u']], units[q['t']]
                res['queries2'].append({'rate': _obs_rate(lambda: conv.get_rate(u, t))})
    return res


# ------------------------------------------------------------ Coq encoding

def _cdate(d):
    return f"(mkDate {cz(d[0])} {cz(d[1])} {cz(d[2])})"


def _ceff(e):
    return 'None' if e is None else f"(Some {_cdate(e)})"


def _exact(spec):
    k, v = spec
    if k == 'float':
        return F(float.fromhex(v))
    if k == 'badstr':
        return None
    return F(v)


def _cvspec(v):
    k = v[0]
    if k == 'none':
        return 'VNone'
    if k == 'int':
        return f"(VInt {cz(v[1])})"
    if k == 'bool':
        return f"(VBool {cbool(v[1])})"
    if k == 'str':
        return f"(VStr {cstr(v[1])})"
    if k == 'tuple':
        l = [int(x) for x in v[1]]
        if len(l) == 2:
            return f"(VTuple {cz(l[0])} {cz(l[1])})"
        return f"(VTupleL {clist([cz(x) for x in l])})"
    if k == 'tuplestr':
        return f"(VTuple {cz(int(v[1][0]))} {cz(int(v[1][1]))})"
    if k == 'tuplebad':
        return 'VTupleNonInt'
    if k == 'date':
        return f"(VDate {cz(v[1])} {cz(v[2])} {cz(v[3])})"
    if k == 'datetime':
        return f"(VDateTime {cz(v[1])} {cz(v[2])} {cz(v[3])} {cn(v[4])})"
    return 'VOther'


def _centry(e):
    if 'shape' in e:
        return f"(EntBadShape {cbool(e['shape'] != 'noniter')})"
    tk, tv = e['t']
    if tk == 'badcode':
        return 'EntUnknownCode'
    if tk == 'nocur':
        return 'EntNoCurrency'
    a, m = _exact(e['a']), _exact(e['m'])
    if a is None or m is None:
        return 'EntBadNumber'
    return f"(EntOk {cn(CID[tv])} {cq(a)} {cq(m)})"


def _crobs(o):
    k = o['k']
    if k == 'none':
        return 'RNone'
    if k == 'rate':
        return (f"(RRate {cn(CID[o['u']])} {cn(CID[o['t']])} {cq(F(o['mult']))} "
                f"{cq(F(o['amt']))})")
    if k == 'err':
        return f"(RErr {o['e']})"
    return 'ROther'


_VIEWS = None


def _views():
    global _VIEWS
    if _VIEWS is None:
        _VIEWS = W.Views(WORLD)
    return _VIEWS


def coq_case(case, r):
    steps = []
    for s, o in zip(case['steps'], r['steps']):
        exc = o['exc']
        e = 'None' if exc['k'] != 'err' else f"(Some {exc['e']})"
        upd = (f"(mkUpd {_cvspec(s['v'])} {clist([_centry(x) for x in s['es']])} {s['dm']})")
        steps.append(f"(mkStep {upd} {e} {clist([_crobs(x) for x in o['after']])})")
    probes = [f"(mkProbe {cn(CID[p['u']])} {cn(CID[p['t']])} {_ceff(p['eff'])})"
              for p in case['probes']]
    qs = []
    for q, o in zip(case['queries'], r['queries']):
        qs.append(f"(mkQry {cn(CID[q['u']])} {cn(CID[q['t']])} {_ceff(q['eff'])} "
                  f"{cq(F(o['amount']))} {_crobs(o['rate'])} "
                  f"{copt(None if o['call'] is None else W.coq_obs(o['call'], _views()))})")
    return (f"(mkCase {cn(CID[case['base']])} {_cdate(case['dflt'])} {case['qdm']}\n "
            f"{clist(probes)}\n {clist([_crobs(x) for x in r['init']])}\n "
            f"{clist(steps)}\n {clist(qs)})")


def coq_model_term(case, r):
    return f"c11_model {coq_case(case, r)}"


# ------------------------------------------------------------ oracle
# Independent of the library: the script is replayed with Fraction arithmetic;
# "the last accepted entry whose period contains the date".

_RE_DAY = re.compile(r'^[0-9]{4}-[0-9]{2}-[0-9]{2}$')
_RE_WEEK = re.compile(r'^([0-9]{4})-W([0-9]{2})-([0-9])$')
_RE_MONTH = re.compile(r'^[0-9]{4}-[0-9]{2}$')
_RE_YEAR = re.compile(r'^[0-9]{4}$')


def _valid(y, m=1, d=1):
    try:
        _dt.date(y, m, d)
        return True
    except (ValueError, OverflowError):
        return False


def o_validity(v):
    """-> ('ok', key) | ('bad',) | ('unspecified',)   key = normalised period."""
    k = v[0]
    if k == 'none':
        return ('ok', ('none',))
    if k == 'int':
        return ('ok', ('year', v[1])) if _valid(v[1]) else ('bad',)
    if k == 'date':
        return ('ok', ('day', v[1], v[2], v[3]))
    if k == 'tuple':
        l = v[1]
        if any(isinstance(x, bool) for x in l):
            return ('unspecified',)
        if len(l) < 2:
            return ('bad',)
        if len(l) > 2:
            return ('unspecified',)      # documented: a tuple of TWO ints
        return ('ok', ('month', l[0], l[1])) if _valid(l[0], l[1]) else ('bad',)
    if k == 'tuplestr':
        y, m = int(v[1][0]), int(v[1][1])
        return ('ok', ('month', y, m)) if _valid(y, m) else ('bad',)
    if k == 'str':
        s = v[1]
        if _RE_DAY.match(s):
            y, m, d = int(s[:4]), int(s[5:7]), int(s[8:])
            return ('ok', ('day', y, m, d)) if _valid(y, m, d) else ('bad',)
        if _RE_MONTH.match(s):
            y, m = int(s[:4]), int(s[5:])
            return ('ok', ('month', y, m)) if _valid(y, m) else ('bad',)
        if _RE_YEAR.match(s):
            return ('ok', ('year', int(s))) if _valid(int(s)) else ('bad',)
        mw = _RE_WEEK.match(s)
        if mw:
            # an ISO 8601 week date: a day, however spelled
            try:
                d = _dt.date.fromisocalendar(int(mw[1]), int(mw[2]), int(mw[3]))
            except ValueError:
                return ('bad',)
            return ('ok', ('day', d.year, d.month, d.day))
        if re.match(r'^[0-9]{4}(W[0-9]{3}|[0-9]{4})--$', s):
            return ('unspecified',)       # CPython's fromisoformat ignores the tail
        return ('bad',)
    if k in ('bool', 'datetime'):
        return ('unspecified',) if v[1] is not False else ('bad',)
    return ('bad',)                       # tuplebad, other


def o_mag(q):
    """floor(log10 q), q > 0, exactly."""
    k = 0
    while F(10) ** k > q:
        k -= 1
    while F(10) ** (k + 1) <= q:
        k += 1
    return k


def o_rate(dm, unit, multiple, term, amount):
    """Normal form of ExchangeRate(unit, multiple, term, amount) or None (rejected)."""
    if unit == term:
        return None
    if multiple.denominator != 1 or multiple < 1:
        return None
    if amount < F(1, 10**6):
        return None
    km = o_mag(multiple)
    adj = amount * F(10) ** km / multiple
    mult = F(10) ** (km - min(0, o_mag(adj) + 1))
    amt = to_quantum(dm, amount * mult / multiple, F(1, 10**6))
    return (unit, term, mult, amt)


def o_entry(dm, base, e):
    if 'shape' in e:
        return None
    tk, tv = e['t']
    if tk not in ('cur', 'code'):
        return None
    a, m = _exact(e['a']), _exact(e['m'])
    if a is None or m is None:
        return None
    return o_rate(dm, base, m, tv, a)


def o_period(kind, d):
    return {'none': ('none',), 'year': ('year', d[0]), 'month': ('month', d[0], d[1]),
            'day': ('day', d[0], d[1], d[2])}[kind]


class OConv:
    def __init__(self, base, dflt):
        self.base, self.dflt, self.kind, self.tab = base, tuple(dflt), None, {}

    def update(self, step):
        """True accepted / False rejected / None unspecified."""
        nv = o_validity(step['v'])
        if nv[0] == 'unspecified':
            return None
        if nv[0] == 'bad':
            return False
        key = nv[1]
        if self.kind is not None and self.kind != key[0]:
            return False
        rates = [o_entry(step['dm'], self.base, e) for e in step['es']]
        if any(r is None for r in rates):
            return False
        self.kind = key[0]
        for r in rates:
            self.tab[(key, r[1])] = r
        return True

    def stored(self, c, eff):
        if self.kind is None:
            return None
        d = self.dflt if eff is None else tuple(eff)
        return self.tab.get((o_period(self.kind, d), c))

    def rate(self, dm, u, t, eff):
        """('rate', (u,t,mult,amt)) | ('none',) | ('tiny',)"""
        if u == t:
            return ('one',)
        if u == self.base:
            r = self.stored(t, eff)
            return ('none',) if r is None else ('rate', r)
        if t == self.base:
            r = self.stored(u, eff)
            if r is None:
                return ('none',)
            x = o_rate(dm, u, F(1), t, r[2] / r[3])
            return ('tiny',) if x is None else ('rate', x)
        ur, tr = self.stored(u, eff), self.stored(t, eff)
        if ur is None or tr is None:
            return ('none',)
        x = o_rate(dm, u, F(1), t, (tr[3] / tr[2]) / (ur[3] / ur[2]))
        return ('tiny',) if x is None else ('rate', x)


def _cmp_rate(exp, o):
    if exp[0] == 'none':
        return None if o['k'] == 'none' else f"expected None, got {o}"
    if exp[0] == 'one':
        if o['k'] == 'rate' and F(o['rate']) == 1:
            return None
        return f"identical currencies: expected the rate one, got {o}"
    if exp[0] == 'tiny':
        return f"all needed entries exist but no rate is reported: {o}"
    u, t, mult, amt = exp[1]
    if o['k'] != 'rate':
        return f"expected rate {amt}/{mult} {u}->{t}, got {o}"
    if (o['u'], o['t']) != (u, t) or F(o['mult']) != mult or F(o['amt']) != amt \
            or F(o['rate']) != amt / mult:
        return f"expected rate {amt}/{mult} {u}->{t}, got {o}"
    return None


def oracle(case, r):
    oc = OConv(case['base'], case['dflt'])
    prev = r['init']
    if any(o['k'] != 'none' for o in prev):
        return f"fresh converter reports a rate: {prev}"
    for i, (s, o) in enumerate(zip(case['steps'], r['steps'])):
        if 'currencies' in o and o['currencies'] != r.get('currencies'):
            return (f"step {i}: an update of the converter changed the declared currencies: "
                    f"{r.get('currencies')} -> {o['currencies']}")
        acc = oc.update(s)
        if acc is None:
            return None              # spelling outside the documented ones: no verdict
        raised = o['exc']['k'] == 'err'
        if acc and raised:
            return f"step {i}: valid update {s['v']} rejected: {o['exc']}"
        if not acc and not raised:
            return f"step {i}: update {s['v']} {s['es']} must be rejected but was accepted"
        if not acc and o['after'] != prev:
            return f"step {i}: rejected update changed the converter's answers"
        for p, po in zip(case['probes'], o['after']):
            msg = _cmp_rate(oc.rate(case['qdm'], p['u'], p['t'], p['eff']), po)
            if msg:
                return f"step {i} probe {p}: {msg}"
        prev = o['after']
    for q, o in zip(case['queries'], r['queries']):
        exp = oc.rate(case['qdm'], q['u'], q['t'], q['eff'])
        msg = _cmp_rate(exp, o['rate'])
        if msg:
            return f"query {q}: {msg}"
        c = o['call']
        if c is None:
            continue
        if exp[0] == 'none':
            if c['k'] != 'err' or c['e'] != 'EUnitConversion':
                return f"query {q}: no rate, but the call gave {c}"
        elif exp[0] == 'rate':
            want = F(o['amount']) * exp[1][3] / exp[1][2]
            if c['k'] != 'num' or F(c['v']) != want:
                return f"query {q}: call gave {c}, expected amount*rate = {want}"
    if r['dflt_calls'] == 0 and oc.kind is not None and \
            any(q['eff'] is None for q in case['queries']):
        return "default effective date was needed but the configured callable was never called"
    if case.get('dflt2'):
        oc.dflt = tuple(case['dflt2'])
        qs = [q for q in case['queries'] if q['eff'] is None]
        for q, o in zip(qs, r.get('queries2', [])):
            msg = _cmp_rate(oc.rate(case['qdm'], q['u'], q['t'], None), o['rate'])
            if msg and not classify(case, r, msg):
                return (f"query {q} after the default effective date moved from {case['dflt']} "
                        f"to {case['dflt2']}: {msg}")
    return None


def classify(case, r, msg):
    if 'identical currencies' in msg:
        return 'C11-identity-raises'
    if 'all needed entries exist but no rate' in msg:
        return 'C11-derived-rate-unrepresentable'
    return None


def labels(case, r):
    out = ['steps=%d' % len(case['steps'])]
    for s, o in zip(case['steps'], r['steps']):
        out.append('validity=' + s['v'][0])
        out.append('update=' + (o['exc']['e'] if o['exc']['k'] == 'err' else 'accepted'))
    hist = {}
    for o in r['queries']:
        k = o['rate']['k'] if o['rate']['k'] != 'err' else o['rate']['e']
        hist[k] = hist.get(k, 0) + 1
    for k in hist:
        out.append('query-result=' + k)
    return out


def nontrivial_key(case, r):
    rejected = sum(1 for o in r['steps'] if o['exc']['k'] == 'err')
    rates = sum(1 for o in r['queries'] if o['rate']['k'] == 'rate')
    if rates and (rejected or len(case['steps']) > 2):
        import hashlib
        import json
        return hashlib.sha1(json.dumps(case, sort_keys=True).encode()).hexdigest()[:16]
    return None
