From Coq Require Import ZArith List Bool Lia ZifyBool QArith.
From QV Require Import Model.Num Model.Rounding Proofs.RoundingCommon.
Ltac Zify.zify_post_hook ::= Z.to_euclidean_division_equations.
Open Scope Z_scope.

(* ---------- the specification determines the result -------------------- *)
Theorem RoundsTo_unique : forall m x y n1 n2, 0 < y ->
  RoundsTo m x y n1 -> RoundsTo m x y n2 -> n1 = n2.
Proof.
  intros m x y n1 n2 Hy [A1 B1] [A2 B2].
  (* adjacency leaves |n1 - n2| <= 1 *)
  assert (H12 : (n1 - n2 - 2) * y < 0) by lia.
  assert (H21 : (n2 - n1 - 2) * y < 0) by lia.
  assert (n1 - n2 - 2 < 0).
  { destruct (Z_lt_le_dec (n1 - n2 - 2) 0) as [L|L]; [exact L|].
    pose proof (Z.mul_nonneg_nonneg _ y L ltac:(lia)). lia. }
  assert (n2 - n1 - 2 < 0).
  { destruct (Z_lt_le_dec (n2 - n1 - 2) 0) as [L|L]; [exact L|].
    pose proof (Z.mul_nonneg_nonneg _ y L ltac:(lia)). lia. }
  assert (Hadj : n1 = n2 \/ n1 = n2 + 1 \/ n2 = n1 + 1) by lia.
  assert (Hcase : forall n, n * y < x < (n + 1) * y ->
            RoundsTo m x y n -> RoundsTo m x y (n + 1) -> False).
  { clear. intros n Hlt [A1 B1] [A2 B2].
    assert (Hsgn : (0 <= n /\ 0 <= n * y /\ 0 < x /\ 0 < (n + 1) * y) \/
                   (n + 1 <= 0 /\ (n + 1) * y <= 0 /\ x < 0 /\ n * y < 0)).
    { destruct (Z_lt_le_dec n 0) as [L|L]; [right|left].
      - assert (0 <= (- (n + 1)) * y) by (apply Z.mul_nonneg_nonneg; lia). lia.
      - assert (0 <= n * y) by (apply Z.mul_nonneg_nonneg; lia). lia. }
    destruct m; cbv zeta in *.
    - (* 05UP *)
      destruct B1 as [B1 | [_ B1]]; [lia|].
      destruct B2 as [B2 | [_ B2]]; [lia|].
      destruct (Z.quot x y mod 5 =? 0) eqn:E5; lia.
    - lia.
    - lia.
    - lia.
    - destruct B1 as [B1 T1], B2 as [B2 T2]. lia.
    - destruct B1 as [B1 T1], B2 as [B2 T2].
      assert (H1 : 2 * Z.abs (x - (n + 1) * y) = y) by lia.
      assert (H2 : 2 * Z.abs (x - n * y) = y) by lia.
      specialize (T1 H2). specialize (T2 H1). lia.
    - destruct B1 as [B1 T1], B2 as [B2 T2]. lia.
    - lia. }
  destruct Hadj as [E | [E | E]]; [exact E | exfalso | exfalso]; subst.
  - apply (Hcase n2); [lia | split; assumption | split; assumption].
  - apply (Hcase n1); [lia | split; assumption | split; assumption].
Qed.
