(* Proofs/ViewInv.v — the unit views that every reachable directory produces
   satisfy the premises of the quantity-layer theorems (C01, C03-C05, C13):
   a unit with a scale belongs to a type with reference unit, its scale is
   non-zero, and all units of a quantized type share one absolute grid. *)
From Coq Require Import ZArith QArith Qabs List Bool Lia Lqa.
From QV Require Import Model.Num Model.Rounding Model.Quantity Model.Dim Model.Registry
     Proofs.QuantityProofs Proofs.DimProofs Proofs.RegistryProofs Proofs.DirectoryProofs
     Proofs.C02Proofs.
Open Scope Z_scope.

(* a unit has a scale only in a type with reference unit *)
Definition EInv (s : state) : Prop :=
  forall u, In u (st_units s) -> ru_equiv u <> None ->
  exists c r, find_cls s (ru_cls u) = Some c /\ rc_ref c = Some r.

Lemma EInv_add_unit s u c :
  EInv s -> find_cls s (ru_cls u) = Some c ->
  (ru_equiv u <> None -> rc_ref c <> None) -> EInv (add_unit s u).
Proof.
  intros E Fc Hu x Hx Ex. rewrite add_unit_units in Hx. apply in_app_iff in Hx.
  destruct Hx as [Hx|[<-|[]]].
  - destruct (E x Hx Ex) as (k & r & Fk & Rk). exists (bump u k), r.
    rewrite find_cls_add, Fk. split; [reflexivity | rewrite bump_ref; exact Rk].
  - destruct (rc_ref c) as [r|] eqn:Rc; [|exfalso; apply (Hu Ex); reflexivity].
    exists (bump u c), r. rewrite find_cls_add, Fc. split; [reflexivity | rewrite bump_ref; exact Rc].
Qed.

Lemma make_unit_EInv s c cid sym def sf s' u :
  EInv s -> find_cls s cid = Some c -> make_unit s c sym def sf = Ok (s', u) -> EInv s'.
Proof.
  intros E Fc M. destruct (make_unit_inv _ _ _ _ _ _ _ M) as (_ & _ & -> & _ & Cu & _ & _ & _ & Eu).
  destruct (find_cls_in_sound _ _ _ Fc) as [_ Idc].
  apply (EInv_add_unit s u c); [exact E | rewrite Cu, Idc; exact Fc|].
  rewrite Eu. destruct def; destruct (rc_ref c); congruence.
Qed.

Theorem step_EInv dm s d s' e :
  CInv s -> step dm s d = (s', e) -> EInv s -> EInv s'.
Proof.
  intros CI S E. destruct e as [e|].
  { rewrite (step_error_noop dm s d s' e CI S). exact E. }
  destruct d as [id def rs auto qu money | cid sym ud | cid us sym auto | cid sym sf]; cbn [step] in S.
  - destruct (decl_class_cases _ _ _ _ _ _ _ _ _ CI S) as [[_ X]|[_ X]]; [congruence|].
    destruct X as (d & ou & Fresh & _ & _ & _ & HC & HU & _ & Hou).
    intros x Hx Ex. rewrite HU in Hx. apply in_app_iff in Hx. destruct Hx as [Hx|Hx].
    + destruct (E x Hx Ex) as (k & r & Fk & Rk). exists k, r. split; [|exact Rk].
      unfold find_cls. rewrite HC. apply find_cls_in_app. exact Fk.
    + destruct ou as [u|]; [|destruct Hx]. destruct Hx as [<-|[]].
      destruct Hou as (_ & _ & _ & Cu & _). exists (new_cls id def d (Some u) qu money), (ru_id u).
      split; [|reflexivity]. rewrite Cu. unfold find_cls. rewrite HC.
      rewrite (find_cls_in_app_none _ _ _ Fresh). cbn. rewrite N.eqb_refl. reflexivity.
  - unfold lift_res in S. destruct (new_unit s dm cid sym ud) as [s1|] eqn:N; [|discriminate].
    injection S as <-. unfold new_unit in N.
    destruct (find_cls s cid) as [c|] eqn:Fc; [|discriminate].
    destruct (N.eqb sym 0); [discriminate|].
    destruct ud as [|a uid|t].
    + destruct (make_unit s c sym None None) as [[s2 u]|] eqn:M; cbn [bind] in N; [|discriminate].
      injection N as <-. eapply make_unit_EInv; eassumption.
    + destruct (find_unit s uid) as [v|]; [|discriminate].
      destruct (negb (N.eqb (ru_cls v) cid)); [discriminate|].
      destruct (make_unit s c sym _ None) as [[s2 u]|] eqn:M; cbn [bind] in N; [|discriminate].
      injection N as <-. eapply make_unit_EInv; eassumption.
    + destruct (term_nf s t) as [x|]; [|discriminate].
      destruct (resolve s x) as [[f [w|]]|]; try discriminate.
      destruct (find_unit s w) as [wu|]; [|discriminate].
      destruct (negb (N.eqb (ru_cls wu) cid)); [discriminate|].
      destruct (make_unit s c sym (Some x) None) as [[s2 u]|] eqn:M; cbn [bind] in N; [|discriminate].
      injection N as <-. eapply make_unit_EInv; eassumption.
  - unfold lift_res in S. destruct (derive_unit s cid us sym auto) as [s1|] eqn:N; [|discriminate].
    injection S as <-. unfold derive_unit in N.
    destruct (find_cls s cid) as [c|] eqn:Fc; [|discriminate].
    destruct (rc_base c); [discriminate|].
    destruct (negb (Nat.eqb (length us) (length (rc_def c)))); [discriminate|].
    destruct (derive_items s (rc_def c) us) as [t|]; cbn [bind] in N; [|discriminate].
    destruct (term_nf s t) as [x|]; [|discriminate].
    destruct sym as [[|p]|]; [discriminate | |].
    + destruct (make_unit s c (N.pos p) (Some x) None) as [[s2 u]|] eqn:M; cbn [bind] in N; [|discriminate].
      injection N as <-. eapply make_unit_EInv; eassumption.
    + destruct (make_unit s c auto (Some x) None) as [[s2 u]|] eqn:M; cbn [bind] in N; [|discriminate].
      injection N as <-. eapply make_unit_EInv; eassumption.
  - unfold lift_res in S. destruct (new_currency s cid sym sf) as [s1|] eqn:N; [|discriminate].
    injection S as <-. unfold new_currency in N.
    destruct (find_cls s cid) as [c|] eqn:Fc; [|discriminate].
    destruct sf as [f|]; [|discriminate]. destruct (N.eqb sym 0); [discriminate|].
    destruct (make_unit s c sym None (Some f)) as [[s2 u]|] eqn:M; cbn [bind] in N; [|discriminate].
    injection N as <-. eapply make_unit_EInv; eassumption.
Qed.

Theorem reachable_EInv dm : forall ds s, AllInv s -> EInv s -> guarded dm s ds = true -> EInv (run dm s ds).
Proof.
  induction ds as [|d ds IH]; intros s A E G; cbn [run fold_left]; [exact E|].
  cbn [guarded] in G. apply andb_true_iff in G. destruct G as [G1 G2].
  destruct (step dm s d) as [s1 e] eqn:S. cbn [fst] in *.
  destruct (step_ok _ _ _ _ _ A G1 S) as (A1 & _ & _).
  apply (IH s1 A1); [|exact G2]. apply (step_EInv dm s d s1 e (proj1 (proj2 A)) S E).
Qed.

Lemma Reach_EInv dm s : Reach dm s -> EInv s.
Proof.
  intros (ds & G & ->). apply (reachable_EInv dm ds init AllInv_init); [|exact G].
  intros u [].
Qed.

(* ---------- the premises of the quantity-layer theorems ---------- *)
(* a unit with a scale is "linear": type with reference unit, scale non-zero *)
Theorem view_lin dm s u :
  Reach dm s -> In u (st_units s) -> ru_equiv u <> None -> lin (view s u) = true.
Proof.
  intros R Iu Eu. destruct (Reach_inv dm s R) as (U & _).
  destruct (Reach_EInv dm s R u Iu Eu) as (c & r & Fc & Rc).
  unfold lin, view. rewrite Fc, Rc. cbn [u_has_ref u_scale].
  destruct (ru_equiv u) as [e|] eqn:Ee; [|congruence].
  destruct (ui_wf s U u Iu) as [Nz _].
  pose proof (ui_equiv s U u e Iu Ee) as He.
  apply negb_true_iff. apply qzero_false. rewrite He. exact Nz.
Qed.

(* views of one class agree on the class id; identity is the symbol *)
Theorem view_same_cls s u v : same_cls (view s u) (view s v) = N.eqb (ru_cls u) (ru_cls v).
Proof. reflexivity. Qed.

(* all units of a quantized type share one absolute grid:
   quantum(u) * scale(u) == quantum(v) * scale(v) == the type's quantum *)
Theorem view_shared_grid dm s u c q e :
  Reach dm s -> In u (st_units s) -> find_cls s (ru_cls u) = Some c ->
  rc_quantum c = Some q -> ru_equiv u = Some e -> ru_sf u = None ->
  exists qu, u_quantum (view s u) = Some qu /\ qu * e == q.
Proof.
  intros R Iu Fc Qc Ee Sf. destruct (Reach_inv dm s R) as (U & _).
  unfold view. rewrite Fc, Qc, Ee, Sf. cbn [u_quantum]. eexists. split; [reflexivity|].
  rewrite qdiv_ok. destruct (ui_wf s U u Iu) as [Nz _].
  pose proof (ui_equiv s U u e Iu Ee) as He. field. rewrite He. exact Nz.
Qed.

(* ---------- C01 in every reachable directory ---------- *)
From QV Require Import Proofs.C13Proofs Proofs.C01Proofs.

Theorem convert_on_directory dm s ce a u v eu ev c :
  Reach dm s -> In u (st_units s) -> In v (st_units s) -> ru_cls u = ru_cls v ->
  ru_equiv u = Some eu -> ru_equiv v = Some ev ->
  find_cls s (ru_cls v) = Some c -> rc_quantum c = None -> ru_sf v = None ->
  exists r, convert ce dm (mkQty a (view s u)) (view s v) = Ok r /\ q_unit r = view s v /\
            q_amt r == a * (eu / ev) /\ q_amt r * ev == a * eu.
Proof.
  intros R Iu Iv Hc Eu Ev Fc Qc Sf.
  assert (Lu : lin (view s u) = true) by (apply (view_lin dm); [exact R | exact Iu | congruence]).
  assert (Lv : lin (view s v) = true) by (apply (view_lin dm); [exact R | exact Iv | congruence]).
  assert (Sc : same_cls (view s u) (view s v) = true) by (rewrite view_same_cls, Hc; apply N.eqb_refl).
  assert (Qv : u_quantum (view s v) = None).
  { unfold view. rewrite Fc, Qc, Sf. reflexivity. }
  destruct (convert_exact ce dm a (view s u) (view s v) Lu Lv Sc Qv) as (r & Hr & Ur & A1 & A2).
  exists r. split; [exact Hr|]. split; [exact Ur|].
  assert (Su : scale (view s u) = eu) by (unfold scale, view; cbn [u_scale]; rewrite Eu; reflexivity).
  assert (Sv : scale (view s v) = ev) by (unfold scale, view; cbn [u_scale]; rewrite Ev; reflexivity).
  rewrite Su, Sv in A1, A2. split; assumption.
Qed.
