(* Proofs/DimProofs.v — facts about Model/Dim.v: canonical dimension vectors
   form a commutative group under dv_mul, extensionality, nform group laws. *)
From Coq Require Import ZArith QArith Qabs List Bool Lia Lqa Qpower.
From QV Require Import Model.Num Model.Dim.
Open Scope Z_scope.

(* ---------- dv_wf_from ---------- *)
Lemma dv_wf_from_weaken lo lo' v :
  (lo' <= lo)%N -> dv_wf_from lo v = true -> dv_wf_from lo' v = true.
Proof.
  destruct v as [|[j e] r]; cbn; auto.
  intros Hle H. apply andb_prop in H as [H H3]. apply andb_prop in H as [H1 H2].
  rewrite H2, H3. apply N.leb_le in H1.
  replace (lo' <=? j)%N with true by (symmetry; apply N.leb_le; lia). reflexivity.
Qed.

Lemma dv_wf_from_wf lo v : dv_wf_from lo v = true -> dv_wf v = true.
Proof. apply dv_wf_from_weaken. lia. Qed.

Lemma dv_wf_cons_inv lo j e r :
  dv_wf_from lo ((j, e) :: r) = true ->
  (lo <= j)%N /\ e <> 0 /\ dv_wf_from (N.succ j) r = true.
Proof.
  cbn. intros H. apply andb_prop in H as [H H3]. apply andb_prop in H as [H1 H2].
  apply N.leb_le in H1. apply negb_true_iff in H2. apply Z.eqb_neq in H2. auto.
Qed.

Lemma dv_wf_cons_intro lo j e r :
  (lo <= j)%N -> e <> 0 -> dv_wf_from (N.succ j) r = true ->
  dv_wf_from lo ((j, e) :: r) = true.
Proof.
  intros H1 H2 H3. cbn. rewrite H3.
  apply N.leb_le in H1. rewrite H1. apply Z.eqb_neq in H2. rewrite H2. reflexivity.
Qed.

Lemma dv_get_below lo v k :
  dv_wf_from lo v = true -> (k < lo)%N -> dv_get v k = 0.
Proof.
  revert lo. induction v as [|[j e] r IH]; intros lo Hwf Hk; cbn; auto.
  apply dv_wf_cons_inv in Hwf as (H1 & H2 & H3).
  destruct (N.eqb_spec k j); [lia|]. apply (IH (N.succ j)); auto. lia.
Qed.

(* ---------- dv_ins ---------- *)
Lemma dv_ins_zero i v : dv_ins i 0 v = v.
Proof. destruct v; reflexivity. Qed.

Lemma dv_ins_unfold i e v : e <> 0 ->
  dv_ins i e v =
  match v with
  | [] => [(i, e)]
  | (j, f) :: r =>
      match N.compare i j with
      | Lt => (i, e) :: v
      | Eq => if e + f =? 0 then r else (i, e + f) :: r
      | Gt => (j, f) :: dv_ins i e r
      end
  end.
Proof.
  intros He. apply Z.eqb_neq in He. destruct v as [|[j f] r]; cbn; rewrite He; reflexivity.
Qed.

Lemma dv_ins_wf i e : forall v lo,
  dv_wf_from lo v = true -> (lo <= i)%N -> dv_wf_from lo (dv_ins i e v) = true.
Proof.
  destruct (Z.eq_dec e 0) as [->|He].
  { intros. rewrite dv_ins_zero. auto. }
  induction v as [|[j f] r IH]; intros lo Hwf Hlo; rewrite dv_ins_unfold by auto.
  - apply dv_wf_cons_intro; auto.
  - pose proof Hwf as Hwf0.
    apply dv_wf_cons_inv in Hwf as (H1 & H2 & H3).
    destruct (N.compare_spec i j) as [Heq|Hlt|Hgt].
    + subst j. destruct (Z.eqb_spec (e + f) 0).
      * apply dv_wf_from_weaken with (lo := N.succ i); auto. lia.
      * apply dv_wf_cons_intro; auto.
    + apply dv_wf_cons_intro; auto.
      apply dv_wf_cons_intro; auto. lia.
    + apply dv_wf_cons_intro; auto. apply IH; auto. lia.
Qed.

Lemma dv_ins_get i e : forall v lo k,
  dv_wf_from lo v = true ->
  dv_get (dv_ins i e v) k = (if N.eqb k i then e else 0) + dv_get v k.
Proof.
  destruct (Z.eq_dec e 0) as [->|He].
  { intros. rewrite dv_ins_zero. destruct (N.eqb k i); lia. }
  induction v as [|[j f] r IH]; intros lo k Hwf; rewrite dv_ins_unfold by auto.
  - cbn. destruct (N.eqb k i); lia.
  - apply dv_wf_cons_inv in Hwf as (H1 & H2 & H3).
    destruct (N.compare_spec i j) as [Heq|Hlt|Hgt].
    + subst j. destruct (Z.eqb_spec (e + f) 0).
      * cbn. destruct (N.eqb_spec k i).
        -- subst k. rewrite (dv_get_below (N.succ i) r i); auto; lia.
        -- lia.
      * cbn. destruct (N.eqb_spec k i); lia.
    + cbn [dv_get]. destruct (N.eqb_spec k i).
      * subst k. destruct (N.eqb_spec i j); [lia|].
        rewrite (dv_get_below (N.succ j) r i); auto; lia.
      * lia.
    + cbn. destruct (N.eqb_spec k j).
      * subst k. destruct (N.eqb_spec j i); lia.
      * rewrite (IH (N.succ j)); auto.
Qed.

(* ---------- dv_mul ---------- *)
(* the first argument may be any list *)
Lemma dv_mul_wf_r a b : dv_wf b = true -> dv_wf (dv_mul a b) = true.
Proof.
  intros Hb. induction a as [|[i e] a IH]; cbn; auto.
  apply dv_ins_wf; auto. lia.
Qed.

Lemma dv_mul_wf a b : dv_wf a = true -> dv_wf b = true -> dv_wf (dv_mul a b) = true.
Proof. intros _. apply dv_mul_wf_r. Qed.

(* sum of the exponents recorded for k in an arbitrary list *)
Fixpoint dv_sum (a : dvec) (k : N) : Z :=
  match a with
  | [] => 0
  | (j, e) :: r => (if N.eqb k j then e else 0) + dv_sum r k
  end.

Lemma dv_sum_get lo a k : dv_wf_from lo a = true -> dv_sum a k = dv_get a k.
Proof.
  revert lo. induction a as [|[j e] r IH]; intros lo Hwf; cbn; auto.
  apply dv_wf_cons_inv in Hwf as (H1 & H2 & H3).
  destruct (N.eqb_spec k j).
  - subst k. rewrite (IH _ H3). rewrite (dv_get_below (N.succ j) r j); auto; lia.
  - rewrite (IH _ H3). lia.
Qed.

Lemma dv_mul_get_sum a b k :
  dv_wf b = true -> dv_get (dv_mul a b) k = dv_sum a k + dv_get b k.
Proof.
  intros Hb. induction a as [|[i e] a IH]; cbn [dv_mul dv_sum]; [lia|].
  rewrite (dv_ins_get i e _ 0%N k) by (apply dv_mul_wf_r; auto).
  rewrite IH. lia.
Qed.

Lemma dv_mul_get a b k :
  dv_wf a = true -> dv_wf b = true ->
  dv_get (dv_mul a b) k = dv_get a k + dv_get b k.
Proof.
  intros Ha Hb. rewrite dv_mul_get_sum by auto. rewrite (dv_sum_get 0%N) by auto. reflexivity.
Qed.

(* ---------- dv_scale, dv_single ---------- *)
Lemma dv_scale_wf_from k : forall v lo,
  dv_wf_from lo v = true -> dv_wf_from lo (dv_scale k v) = true.
Proof.
  unfold dv_scale. destruct (Z.eqb_spec k 0); [reflexivity|].
  induction v as [|[j e] r IH]; intros lo Hwf; cbn [map fst snd]; auto.
  apply dv_wf_cons_inv in Hwf as (H1 & H2 & H3).
  apply dv_wf_cons_intro; auto. nia.
Qed.

Lemma dv_scale_wf k v : dv_wf v = true -> dv_wf (dv_scale k v) = true.
Proof. apply dv_scale_wf_from. Qed.

Lemma dv_scale_get k v i : dv_get (dv_scale k v) i = k * dv_get v i.
Proof.
  unfold dv_scale. destruct (Z.eqb_spec k 0); [subst; cbn; lia|].
  induction v as [|[j e] r IH]; cbn [map fst snd dv_get]; [lia|].
  destruct (N.eqb i j); auto.
Qed.

Lemma dv_inv_wf v : dv_wf v = true -> dv_wf (dv_inv v) = true.
Proof. apply dv_scale_wf. Qed.

Lemma dv_inv_get v i : dv_get (dv_inv v) i = - dv_get v i.
Proof. unfold dv_inv. rewrite dv_scale_get. lia. Qed.

Lemma dv_single_wf i e : dv_wf (dv_single i e) = true.
Proof.
  unfold dv_single. destruct (Z.eqb_spec e 0); [reflexivity|].
  apply dv_wf_cons_intro; auto. lia.
Qed.

Lemma dv_single_get i e k :
  dv_get (dv_single i e) k = if N.eqb k i then e else 0.
Proof.
  unfold dv_single. destruct (Z.eqb_spec e 0); cbn.
  - destruct (N.eqb k i); lia.
  - reflexivity.
Qed.

Lemma dv_one_wf : dv_wf dv_one = true.
Proof. reflexivity. Qed.

Lemma dv_one_get k : dv_get dv_one k = 0.
Proof. reflexivity. Qed.

Lemma dv_of_list_wf l : dv_wf (dv_of_list l) = true.
Proof.
  induction l as [|[i e] l IH]; cbn [dv_of_list fold_right fst snd]; [reflexivity|].
  apply dv_mul_wf_r. exact IH.
Qed.

Lemma dv_of_list_get l k : dv_get (dv_of_list l) k = dv_sum l k.
Proof.
  induction l as [|[i e] l IH]; cbn [dv_of_list fold_right fst snd dv_sum]; [reflexivity|].
  rewrite dv_mul_get by (apply dv_single_wf || apply dv_of_list_wf).
  rewrite dv_single_get. fold (dv_of_list l). rewrite IH. reflexivity.
Qed.

(* ---------- extensionality ---------- *)
Lemma dv_ext_from : forall a b lo,
  dv_wf_from lo a = true -> dv_wf_from lo b = true ->
  (forall i, dv_get a i = dv_get b i) -> a = b.
Proof.
  induction a as [|[i e] a IH]; intros [|[j f] b] lo Ha Hb H; auto.
  - apply dv_wf_cons_inv in Hb as (H1 & H2 & H3).
    specialize (H j). cbn in H. rewrite N.eqb_refl in H. congruence.
  - apply dv_wf_cons_inv in Ha as (H1 & H2 & H3).
    specialize (H i). cbn in H. rewrite N.eqb_refl in H. congruence.
  - pose proof Ha as Ha0. pose proof Hb as Hb0.
    apply dv_wf_cons_inv in Ha as (A1 & A2 & A3).
    apply dv_wf_cons_inv in Hb as (B1 & B2 & B3).
    destruct (N.compare_spec i j) as [Heq|Hlt|Hgt].
    + subst j. pose proof (H i) as Hi. cbn in Hi. rewrite N.eqb_refl in Hi. subst f.
      f_equal. apply (IH b (N.succ i)); auto.
      intros k. destruct (N.eqb_spec k i) as [->|Hk].
      * rewrite (dv_get_below (N.succ i) a i), (dv_get_below (N.succ i) b i); auto; lia.
      * specialize (H k). cbn in H. apply N.eqb_neq in Hk. rewrite Hk in H. exact H.
    + specialize (H i).
      rewrite (dv_get_below j ((j, f) :: b) i) in H; auto.
      * cbn [dv_get] in H. rewrite N.eqb_refl in H. congruence.
      * apply dv_wf_cons_intro; auto. lia.
    + specialize (H j).
      rewrite (dv_get_below i ((i, e) :: a) j) in H; auto.
      * cbn [dv_get] in H. rewrite N.eqb_refl in H. congruence.
      * apply dv_wf_cons_intro; auto. lia.
Qed.

Theorem dv_ext a b :
  dv_wf a = true -> dv_wf b = true ->
  (forall i, dv_get a i = dv_get b i) -> a = b.
Proof. apply dv_ext_from. Qed.

Lemma dv_eqb_eq a b : dv_eqb a b = true <-> a = b.
Proof.
  revert b. induction a as [|[i e] a IH]; intros [|[j f] b]; cbn; split; intros H;
    try reflexivity; try discriminate.
  - apply andb_prop in H as [H H3]. apply andb_prop in H as [H1 H2].
    apply N.eqb_eq in H1. apply Z.eqb_eq in H2. apply IH in H3. subst. reflexivity.
  - inversion H; subst. rewrite N.eqb_refl, Z.eqb_refl. cbn. apply IH. reflexivity.
Qed.

Lemma dv_eqb_refl a : dv_eqb a a = true.
Proof. apply dv_eqb_eq. reflexivity. Qed.

(* ---------- commutative group laws ---------- *)
Ltac dv_group :=
  apply dv_ext;
  [ repeat first [apply dv_mul_wf_r | apply dv_scale_wf | apply dv_inv_wf | assumption | reflexivity]
  | repeat first [apply dv_mul_wf_r | apply dv_scale_wf | apply dv_inv_wf | assumption | reflexivity]
  | intros ?i;
    repeat first [ rewrite dv_mul_get by
                     (repeat first [apply dv_mul_wf_r | apply dv_scale_wf | apply dv_inv_wf | assumption | reflexivity])
                 | rewrite dv_inv_get | rewrite dv_scale_get | rewrite dv_one_get ];
    try lia ].

Lemma dv_mul_comm a b : dv_wf a = true -> dv_wf b = true -> dv_mul a b = dv_mul b a.
Proof. intros. dv_group. Qed.

Lemma dv_mul_assoc a b c :
  dv_wf a = true -> dv_wf b = true -> dv_wf c = true ->
  dv_mul a (dv_mul b c) = dv_mul (dv_mul a b) c.
Proof. intros. dv_group. Qed.

Lemma dv_mul_one_l a : dv_mul dv_one a = a.
Proof. reflexivity. Qed.

Lemma dv_mul_one_r a : dv_wf a = true -> dv_mul a dv_one = a.
Proof. intros. dv_group. Qed.

Lemma dv_mul_inv_r a : dv_wf a = true -> dv_mul a (dv_inv a) = dv_one.
Proof. intros. dv_group. Qed.

Lemma dv_mul_inv_l a : dv_wf a = true -> dv_mul (dv_inv a) a = dv_one.
Proof. intros. dv_group. Qed.

Lemma dv_scale_mul k a b : dv_wf a = true -> dv_wf b = true ->
  dv_scale k (dv_mul a b) = dv_mul (dv_scale k a) (dv_scale k b).
Proof. intros. dv_group. Qed.

Lemma dv_scale_scale k m a : dv_wf a = true ->
  dv_scale k (dv_scale m a) = dv_scale (k * m) a.
Proof. intros. dv_group. Qed.

Lemma dv_scale_add k m a : dv_wf a = true ->
  dv_scale (k + m) a = dv_mul (dv_scale k a) (dv_scale m a).
Proof. intros. dv_group. Qed.

Lemma dv_scale_1 a : dv_wf a = true -> dv_scale 1 a = a.
Proof. intros. dv_group. Qed.

Lemma dv_scale_0 a : dv_scale 0 a = dv_one.
Proof. reflexivity. Qed.

Lemma dv_scale_one k : dv_scale k dv_one = dv_one.
Proof. unfold dv_scale. destruct (k =? 0); reflexivity. Qed.

Lemma dv_scale_single k i e : dv_scale k (dv_single i e) = dv_single i (k * e).
Proof.
  apply dv_ext; [apply dv_scale_wf, dv_single_wf | apply dv_single_wf |].
  intros j. rewrite dv_scale_get, !dv_single_get. destruct (N.eqb j i); lia.
Qed.

(* ---------- nform: the group G up to == on the numeric part ---------- *)
Lemma nf_eq_refl x : nf_eq x x.
Proof. split; reflexivity. Qed.

Lemma nf_eq_sym x y : nf_eq x y -> nf_eq y x.
Proof. intros [H1 H2]. split; [symmetry; exact H1 | auto]. Qed.

Lemma nf_eq_trans x y z : nf_eq x y -> nf_eq y z -> nf_eq x z.
Proof. intros [H1 H2] [H3 H4]. split; [rewrite H1; exact H3 | congruence]. Qed.

Lemma nf_eqb_eq x y : nf_eqb x y = true <-> nf_eq x y.
Proof.
  unfold nf_eqb, nf_eq. rewrite andb_true_iff, Qeq_bool_iff, dv_eqb_eq. reflexivity.
Qed.

Lemma qmul_eq a b : qmul a b == a * b.
Proof. apply Qred_correct. Qed.

Lemma qpow_eq a k : qpow a k == a ^ k.
Proof. apply Qred_correct. Qed.

Lemma qmul_nz a b : ~ a == 0 -> ~ b == 0 -> ~ qmul a b == 0.
Proof.
  intros Ha Hb H. rewrite qmul_eq in H.
  apply Qmult_integral in H. tauto.
Qed.

Lemma Qpower_nz a k : ~ a == 0 -> ~ a ^ k == 0.
Proof.
  intros Ha. destruct k as [|p|p]; cbn.
  - discriminate.
  - apply Qpower_not_0_positive; auto.
  - intros H. apply (Qpower_not_0_positive a p Ha).
    destruct (Qeq_dec (Qpower_positive a p) 0) as [E|E]; auto.
    exfalso. apply (Qmult_inv_r) in E. rewrite Qmult_comm, H in E. discriminate.
Qed.

Lemma nf_one_wf : nf_wf nf_one.
Proof. split; [discriminate | reflexivity]. Qed.

Lemma nf_mul_wf x y : nf_wf x -> nf_wf y -> nf_wf (nf_mul x y).
Proof.
  intros [X1 X2] [Y1 Y2]. split; cbn [nf_mul nf_inv nf_pow nf_scale nf_one nf_num nf_dim].
  - apply qmul_nz; auto.
  - apply dv_mul_wf; auto.
Qed.

Lemma Qinv_nz a : ~ a == 0 -> ~ / a == 0.
Proof.
  intros Ha H. apply Ha. rewrite <- (Qinv_involutive a). rewrite H. reflexivity.
Qed.

Lemma nf_inv_wf x : nf_wf x -> nf_wf (nf_inv x).
Proof.
  intros [X1 X2]. split; cbn [nf_mul nf_inv nf_pow nf_scale nf_one nf_num nf_dim].
  - rewrite Qred_correct. apply Qinv_nz; auto.
  - apply dv_inv_wf; auto.
Qed.

Lemma nf_pow_wf x k : nf_wf x -> nf_wf (nf_pow x k).
Proof.
  intros [X1 X2]. split; cbn [nf_mul nf_inv nf_pow nf_scale nf_one nf_num nf_dim].
  - rewrite qpow_eq. apply Qpower_nz; auto.
  - apply dv_scale_wf; auto.
Qed.

Lemma nf_scale_wf q x : ~ q == 0 -> nf_wf x -> nf_wf (nf_scale q x).
Proof.
  intros Hq [X1 X2]. split; cbn [nf_mul nf_inv nf_pow nf_scale nf_one nf_num nf_dim]; auto. apply qmul_nz; auto.
Qed.

(* congruence *)
Lemma nf_mul_compat x x' y y' :
  nf_eq x x' -> nf_eq y y' -> nf_eq (nf_mul x y) (nf_mul x' y').
Proof.
  intros [H1 H2] [H3 H4]. split; cbn [nf_mul nf_inv nf_pow nf_scale nf_one nf_num nf_dim].
  - rewrite !qmul_eq, H1, H3. reflexivity.
  - congruence.
Qed.

Lemma nf_inv_compat x x' : nf_eq x x' -> nf_eq (nf_inv x) (nf_inv x').
Proof.
  intros [H1 H2]. split; cbn [nf_mul nf_inv nf_pow nf_scale nf_one nf_num nf_dim].
  - rewrite !Qred_correct, H1. reflexivity.
  - congruence.
Qed.

Lemma nf_pow_compat x x' k : nf_eq x x' -> nf_eq (nf_pow x k) (nf_pow x' k).
Proof.
  intros [H1 H2]. split; cbn [nf_mul nf_inv nf_pow nf_scale nf_one nf_num nf_dim].
  - rewrite !qpow_eq, H1. reflexivity.
  - congruence.
Qed.

Lemma nf_scale_compat q q' x x' :
  q == q' -> nf_eq x x' -> nf_eq (nf_scale q x) (nf_scale q' x').
Proof.
  intros Hq [H1 H2]. split; cbn [nf_mul nf_inv nf_pow nf_scale nf_one nf_num nf_dim].
  - rewrite !qmul_eq, H1, Hq. reflexivity.
  - congruence.
Qed.

(* group laws *)
Lemma nf_mul_comm x y : nf_wf x -> nf_wf y -> nf_eq (nf_mul x y) (nf_mul y x).
Proof.
  intros [X1 X2] [Y1 Y2]. split; cbn [nf_mul nf_inv nf_pow nf_scale nf_one nf_num nf_dim].
  - rewrite !qmul_eq. ring.
  - apply dv_mul_comm; auto.
Qed.

Lemma nf_mul_assoc x y z : nf_wf x -> nf_wf y -> nf_wf z ->
  nf_eq (nf_mul x (nf_mul y z)) (nf_mul (nf_mul x y) z).
Proof.
  intros [X1 X2] [Y1 Y2] [Z1 Z2]. split; cbn [nf_mul nf_inv nf_pow nf_scale nf_one nf_num nf_dim].
  - rewrite !qmul_eq. ring.
  - apply dv_mul_assoc; auto.
Qed.

Lemma nf_mul_one_l x : nf_eq (nf_mul nf_one x) x.
Proof.
  split; cbn [nf_mul nf_inv nf_pow nf_scale nf_one nf_num nf_dim].
  - rewrite qmul_eq. ring.
  - reflexivity.
Qed.

Lemma nf_mul_one_r x : nf_wf x -> nf_eq (nf_mul x nf_one) x.
Proof.
  intros [X1 X2]. split; cbn [nf_mul nf_inv nf_pow nf_scale nf_one nf_num nf_dim].
  - rewrite qmul_eq. ring.
  - apply dv_mul_one_r; auto.
Qed.

Lemma nf_mul_inv_r x : nf_wf x -> nf_eq (nf_mul x (nf_inv x)) nf_one.
Proof.
  intros [X1 X2]. split; cbn [nf_mul nf_inv nf_pow nf_scale nf_one nf_num nf_dim].
  - rewrite qmul_eq, Qred_correct. field. exact X1.
  - apply dv_mul_inv_r; auto.
Qed.

Lemma nf_mul_inv_l x : nf_wf x -> nf_eq (nf_mul (nf_inv x) x) nf_one.
Proof.
  intros [X1 X2]. split; cbn [nf_mul nf_inv nf_pow nf_scale nf_one nf_num nf_dim].
  - rewrite qmul_eq, Qred_correct. field. exact X1.
  - apply dv_mul_inv_l; auto.
Qed.

Lemma nf_pow_0 x : nf_eq (nf_pow x 0) nf_one.
Proof. split; cbn [nf_mul nf_inv nf_pow nf_scale nf_one nf_num nf_dim]; reflexivity. Qed.

Lemma nf_pow_1 x : nf_wf x -> nf_eq (nf_pow x 1) x.
Proof.
  intros [X1 X2]. split; cbn [nf_mul nf_inv nf_pow nf_scale nf_one nf_num nf_dim].
  - rewrite qpow_eq. cbn. reflexivity.
  - apply dv_scale_1; auto.
Qed.

Lemma nf_pow_m1 x : nf_eq (nf_pow x (-1)) (nf_inv x).
Proof.
  split; cbn [nf_mul nf_inv nf_pow nf_scale nf_one nf_num nf_dim].
  - rewrite qpow_eq, Qred_correct. cbn. reflexivity.
  - reflexivity.
Qed.

Lemma nf_pow_add x k m : nf_wf x ->
  nf_eq (nf_pow x (k + m)) (nf_mul (nf_pow x k) (nf_pow x m)).
Proof.
  intros [X1 X2]. split; cbn [nf_mul nf_inv nf_pow nf_scale nf_one nf_num nf_dim].
  - rewrite qmul_eq, !qpow_eq. apply Qpower_plus. exact X1.
  - apply dv_scale_add; auto.
Qed.

Lemma nf_pow_mul x y k : nf_wf x -> nf_wf y ->
  nf_eq (nf_pow (nf_mul x y) k) (nf_mul (nf_pow x k) (nf_pow y k)).
Proof.
  intros [X1 X2] [Y1 Y2]. split; cbn [nf_mul nf_inv nf_pow nf_scale nf_one nf_num nf_dim].
  - rewrite (qpow_eq (qmul (nf_num x) (nf_num y)) k), !qmul_eq, !qpow_eq. apply Qmult_power.
  - apply dv_scale_mul; auto.
Qed.

Lemma nf_pow_pow x k m : nf_wf x ->
  nf_eq (nf_pow (nf_pow x k) m) (nf_pow x (k * m)).
Proof.
  intros [X1 X2]. split; cbn [nf_mul nf_inv nf_pow nf_scale nf_one nf_num nf_dim].
  - rewrite (qpow_eq (qpow (nf_num x) k) m), !qpow_eq. symmetry. apply Qpower_mult.
  - rewrite dv_scale_scale by auto. f_equal. lia.
Qed.

Lemma nf_pow_one k : nf_eq (nf_pow nf_one k) nf_one.
Proof.
  split; cbn [nf_mul nf_inv nf_pow nf_scale nf_one nf_num nf_dim].
  - rewrite qpow_eq. apply Qpower_1.
  - apply dv_scale_one.
Qed.
