(* Proofs/C02Undef.v — completeness of UndefinedResultError: when no declared
   quantity type has the combined dimension, no registered unit can be defined
   by the product / quotient / power, so the resolution fails. *)
From Coq Require Import ZArith QArith Qabs List Bool Lia.
From QV Require Import Model.Num Model.Rounding Model.Quantity Model.Dim Model.Registry
     Proofs.QuantityProofs Proofs.DimProofs Proofs.DimPush Proofs.RegistryProofs
     Proofs.DirectoryProofs Proofs.DimInv Proofs.C02Proofs Proofs.C02Dim.
Open Scope Z_scope.

(* a term-map entry for x (or for x without its numeric factor) belongs to a
   unit whose type has the dimension udim(x) *)
Lemma entry_has_type s x k w :
  UInv s -> CInv s -> DInv s -> In (k, w) (st_termmap s) ->
  (nf_eq k x \/ nf_eq k (mkNf 1 (nf_dim x))) ->
  exists wu c, find_unit s w = Some wu /\ find_cls s (ru_cls wu) = Some c /\
               rc_dim c = udim s (nf_dim x).
Proof.
  intros U CI D Hi He. destruct (ui_tm s U k w Hi) as (wu & Fw & Hk).
  destruct (find_unit_In _ _ _ Fw) as [Iw _].
  destruct (find_cls s (ru_cls wu)) as [c|] eqn:Fc;
    [|exfalso; exact (ci_unit_cls s CI wu Iw Fc)].
  exists wu, c. split; [exact Fw|]. split; [exact Fc|].
  rewrite <- (di_dim s D wu c Iw Fc). f_equal.
  destruct Hk as [_ K2]. destruct He as [[_ E2]|[_ E2]]; cbn [nf_dim] in E2; congruence.
Qed.

Theorem undefined_if_no_type s x :
  UInv s -> CInv s -> DInv s -> nf_dim x <> [] ->
  (forall c, In c (st_classes s) -> rc_dim c <> udim s (nf_dim x)) ->
  resolve s x = None.
Proof.
  intros U CI D Nd Hno. apply resolve_none_iff. split; [exact Nd|].
  intros k w Hi. split; intros He.
  - destruct (entry_has_type s x k w U CI D Hi (or_introl He)) as (wu & c & _ & Fc & Hd).
    exact (Hno c (proj1 (find_cls_in_sound _ _ _ Fc)) Hd).
  - destruct (entry_has_type s x k w U CI D Hi (or_intror He)) as (wu & c & _ & Fc & Hd).
    exact (Hno c (proj1 (find_cls_in_sound _ _ _ Fc)) Hd).
Qed.

(* products and quotients of units: no type with the combined dimension =>
   UndefinedResultError (nothing cached before) *)
Theorem R_mul_undefined_if_no_type dm s u v cu cv :
  Reach dm s -> In u (st_units s) -> In v (st_units s) ->
  find_cls s (ru_cls u) = Some cu -> find_cls s (ru_cls v) = Some cv ->
  nf_dim (nf_mul (ru_nf u) (ru_nf v)) <> [] ->
  (forall c, In c (st_classes s) -> rc_dim c <> dv_mul (rc_dim cu) (rc_dim cv)) ->
  resolve s (nf_mul (ru_nf u) (ru_nf v)) = None.
Proof.
  intros R Iu Iv Fcu Fcv Nd Hno. destruct (Reach_inv dm s R) as (U & CI & _).
  pose proof (Reach_DInv dm s R) as D.
  apply undefined_if_no_type; try assumption.
  intros c Ic. cbn [nf_mul nf_dim]. rewrite udim_mul by exact CI.
  rewrite (di_dim s D u cu Iu Fcu), (di_dim s D v cv Iv Fcv). apply Hno. exact Ic.
Qed.

Theorem R_div_undefined_if_no_type dm s u v cu cv :
  Reach dm s -> In u (st_units s) -> In v (st_units s) ->
  find_cls s (ru_cls u) = Some cu -> find_cls s (ru_cls v) = Some cv ->
  nf_dim (nf_mul (ru_nf u) (nf_inv (ru_nf v))) <> [] ->
  (forall c, In c (st_classes s) -> rc_dim c <> dv_mul (rc_dim cu) (dv_inv (rc_dim cv))) ->
  resolve s (nf_mul (ru_nf u) (nf_inv (ru_nf v))) = None.
Proof.
  intros R Iu Iv Fcu Fcv Nd Hno. destruct (Reach_inv dm s R) as (U & CI & _).
  pose proof (Reach_DInv dm s R) as D.
  apply undefined_if_no_type; try assumption.
  intros c Ic. cbn [nf_mul nf_inv nf_dim]. rewrite udim_mul by exact CI.
  unfold dv_inv. rewrite udim_scale by exact CI.
  rewrite (di_dim s D u cu Iu Fcu), (di_dim s D v cv Iv Fcv). apply Hno. exact Ic.
Qed.

(* money x money: undefined unless a type of dimension Money**2 is declared *)
Corollary R_money_times_money_undefined dm s u v cm :
  Reach dm s -> In u (st_units s) -> In v (st_units s) ->
  find_cls s (ru_cls u) = Some cm -> find_cls s (ru_cls v) = Some cm ->
  nf_dim (nf_mul (ru_nf u) (ru_nf v)) <> [] ->
  (forall c, In c (st_classes s) -> rc_dim c <> dv_mul (rc_dim cm) (rc_dim cm)) ->
  snd (unit_mul (clear_cache s) u v) = Err EUndefinedResult.
Proof.
  intros R Iu Iv Fu Fv Nd Hno.
  pose proof (R_mul_undefined_if_no_type dm s u v cm cm R Iu Iv Fu Fv Nd Hno) as H.
  unfold unit_mul, cache_get. cbn [clear_cache st_cache cache_get_in].
  assert (E : resolve (clear_cache s) (nf_mul (ru_nf u) (ru_nf v)) = resolve s (nf_mul (ru_nf u) (ru_nf v)))
    by reflexivity.
  rewrite E, H. reflexivity.
Qed.
