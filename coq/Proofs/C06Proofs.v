(* C06: allocation conserves the total and deviates by less than one quantum.
   Proofs about Model/Alloc.v. *)
From Coq Require Import ZArith QArith Qabs List Bool Lia Lqa Qreduction Sorting Permutation.
From QV Require Import Model.Num Model.Rounding Gen.RoundingImpl Model.Quantity Model.Alloc
     Proofs.RoundingQ Proofs.QuantityProofs Proofs.C13Proofs Proofs.C01Proofs
     Proofs.C03C04Proofs Proofs.C05Proofs.
Import ListNotations.
Open Scope Q_scope.

(* ------------------------------------------------------------------------ *)
(* 0. sums of rationals                                                      *)
(* ------------------------------------------------------------------------ *)
Fixpoint qsum (l : list Q) : Q := match l with [] => 0 | x :: r => x + qsum r end.
Notation amts ps := (map q_amt ps) (only parsing).
(* number of elements, as a rational *)
Fixpoint qlen {A} (l : list A) : Q := match l with [] => 0 | _ :: r => 1 + qlen r end.

Lemma qlen_length {A} (l : list A) : qlen l == inject_Z (Z.of_nat (length l)).
Proof.
  induction l as [|x l IH]; [reflexivity|].
  cbn [qlen length]. rewrite Nat2Z.inj_succ, <- Z.add_1_l, inject_Z_plus, IH. reflexivity.
Qed.

Lemma qlen_nonneg {A} (l : list A) : 0 <= qlen l.
Proof. induction l; cbn [qlen]; lra. Qed.

Lemma qsum_perm l l' : Permutation l l' -> qsum l == qsum l'.
Proof.
  induction 1; cbn [qsum]; lra.
Qed.

Lemma qsum_nonneg l : Forall (fun x => 0 <= x) l -> 0 <= qsum l.
Proof. induction 1; cbn [qsum]; lra. Qed.

Lemma qsum_abs_lt c x l : Forall (fun y => Qabs y < c) (x :: l) ->
  Qabs (qsum (x :: l)) < qlen (x :: l) * c.
Proof.
  revert x. induction l as [|y l IH]; intros x H.
  - inversion H as [|? ? Hx _]. cbn [qsum qlen].
    assert (E : x + 0 == x) by ring. rewrite E. lra.
  - inversion H as [|? ? Hx Hr]. specialize (IH y Hr).
    change (qsum (x :: y :: l)) with (x + qsum (y :: l)).
    change (qlen (x :: y :: l)) with (1 + qlen (y :: l)).
    pose proof (Qabs_triangle x (qsum (y :: l))). lra.
Qed.

Lemma qsum_abs_le c l : Forall (fun y => Qabs y <= c) l -> Qabs (qsum l) <= qlen l * c.
Proof.
  induction 1 as [|x l Hx _ IH]; cbn [qsum qlen].
  - simpl. lra.
  - pose proof (Qabs_triangle x (qsum l)). lra.
Qed.

(* signed view: the dispersal works on the errors when the remainder is
   positive and on the negated errors when it is negative *)
Definition sg (neg : bool) (x : Q) : Q := if neg then - x else x.

Lemma sg_add neg x y : sg neg (x + y) == sg neg x + sg neg y.
Proof. destruct neg; cbn [sg]; ring. Qed.
Lemma sg_sg neg x : sg neg (sg neg x) == x.
Proof. destruct neg; cbn [sg]; ring. Qed.
Lemma sg_compat neg x y : x == y -> sg neg x == sg neg y.
Proof. intros E. destruct neg; cbn [sg]; rewrite E; reflexivity. Qed.
Lemma sg_abs neg x c : - c < sg neg x -> sg neg x < c -> Qabs x < c.
Proof. intros A B. apply Qabs_Qlt_condition. destruct neg; cbn [sg] in *; lra. Qed.
Lemma abs_sg neg x c : Qabs x < c -> - c < sg neg x /\ sg neg x < c.
Proof. intros A. apply Qabs_Qlt_condition in A. destruct neg; cbn [sg]; lra. Qed.

Lemma qsum_sg neg l : qsum (map (sg neg) l) == sg neg (qsum l).
Proof.
  induction l as [|x l IH]; cbn [map qsum].
  - destruct neg; cbn [sg]; ring.
  - rewrite IH, sg_add. reflexivity.
Qed.

(* ------------------------------------------------------------------------ *)
(* 1. the grid of a unit                                                     *)
(* ------------------------------------------------------------------------ *)
Lemma on_grid_compat a b qu : a == b -> on_grid a qu -> on_grid b qu.
Proof. intros E [k H]. exists k. rewrite <- E. exact H. Qed.
Lemma on_grid_add a b qu : on_grid a qu -> on_grid b qu -> on_grid (a + b) qu.
Proof. intros [k H] [j J]. exists (k + j)%Z. rewrite inject_Z_plus, H, J. ring. Qed.
Lemma on_grid_opp a qu : on_grid a qu -> on_grid (- a) qu.
Proof. intros [k H]. exists (- k)%Z. rewrite inject_Z_opp, H. ring. Qed.
Lemma on_grid_sub a b qu : on_grid a qu -> on_grid b qu -> on_grid (a - b) qu.
Proof. intros A B. apply on_grid_add; [exact A | apply on_grid_opp; exact B]. Qed.
Lemma on_grid_self qu : on_grid qu qu.
Proof. exists 1%Z. ring. Qed.
Lemma on_grid_zero qu : on_grid 0 qu.
Proof. exists 0%Z. ring. Qed.

(* amount x lies on the grid of unit u (nothing to say without quantum) *)
Definition ugrid (u : unit) (x : Q) : Prop :=
  match u_quantum u with Some qu => on_grid x qu | None => True end.
(* the quantum of the unit, when there is one, is positive *)
Definition uq_ok (u : unit) : Prop :=
  match u_quantum u with Some qu => 0 < qu | None => True end.

Lemma ugrid_compat u a b : a == b -> ugrid u a -> ugrid u b.
Proof. unfold ugrid. destruct (u_quantum u); [apply on_grid_compat | trivial]. Qed.
Lemma ugrid_add u a b : ugrid u a -> ugrid u b -> ugrid u (a + b).
Proof. unfold ugrid. destruct (u_quantum u); [apply on_grid_add | trivial]. Qed.
Lemma ugrid_sub u a b : ugrid u a -> ugrid u b -> ugrid u (a - b).
Proof. unfold ugrid. destruct (u_quantum u); [apply on_grid_sub | trivial]. Qed.
Lemma ugrid_mk dm x u : ugrid u (q_amt (mk_qty dm x u)).
Proof.
  unfold ugrid. destruct (u_quantum u) as [qu|] eqn:E; [|trivial].
  apply (mk_on_grid dm x u qu E).
Qed.

Lemma pos_nonzero qu : 0 < qu -> ~ qu == 0.
Proof. intros H E. rewrite E in H. exact (Qlt_irrefl _ H). Qed.

(* the constructor does not move an amount that already is on the grid *)
Lemma mk_exact dm x u : uq_ok u -> ugrid u x -> q_amt (mk_qty dm x u) == x.
Proof.
  unfold uq_ok, ugrid, mk_qty. destruct (u_quantum u) as [qu|]; cbn [q_amt].
  - intros Hq G. apply round_to_quantum_on_grid; [apply pos_nonzero; exact Hq | exact G].
  - intros _ _. apply Qred_correct.
Qed.

(* ------------------------------------------------------------------------ *)
(* 2. adding / subtracting quantities of one and the same unit               *)
(* ------------------------------------------------------------------------ *)
Lemma unit_eq_refl u : unit_eq u u = Ok true.
Proof.
  unfold unit_eq, same_cls, same_unit. rewrite N.eqb_refl.
  destruct (u_scale u); [rewrite qeqb_refl | rewrite N.eqb_refl]; reflexivity.
Qed.

Lemma addsub_same_unit sub ce dm p q u : q_unit p = u -> q_unit q = u ->
  qty_addsub sub ce dm p q =
  Ok (mk_qty dm ((if sub then qsub else qadd) (q_amt p) (q_amt q)) u).
Proof.
  intros Hp Hq. unfold qty_addsub. rewrite Hp, Hq.
  unfold same_cls at 1. rewrite N.eqb_refl, unit_eq_refl. reflexivity.
Qed.

Lemma sum_same_unit ce dm u : uq_ok u -> forall pr p0,
  q_unit p0 = u -> ugrid u (q_amt p0) ->
  Forall (fun p => q_unit p = u /\ ugrid u (q_amt p)) pr ->
  exists s, qty_sum_from ce dm p0 pr = Ok s /\ q_unit s = u /\ ugrid u (q_amt s) /\
            q_amt s == q_amt p0 + qsum (amts pr).
Proof.
  intros Hu. induction pr as [|x pr IH]; intros p0 H0 G0 H.
  - exists p0. cbn [qty_sum_from map qsum].
    split; [reflexivity|]. split; [exact H0|]. split; [exact G0|]. ring.
  - inversion H as [|? ? [Hx Gx] Hr]. subst.
    cbn [qty_sum_from]. unfold qty_add.
    rewrite (addsub_same_unit false ce dm p0 x (q_unit p0) eq_refl Hx). cbn [bind].
    set (acc := mk_qty dm (qadd (q_amt p0) (q_amt x)) (q_unit p0)).
    assert (Ga : ugrid (q_unit p0) (qadd (q_amt p0) (q_amt x))).
    { apply (ugrid_compat _ (q_amt p0 + q_amt x)); [symmetry; apply qadd_ok|].
      apply ugrid_add; assumption. }
    assert (Ea : q_amt acc == q_amt p0 + q_amt x).
    { unfold acc. rewrite (mk_exact dm _ _ Hu Ga). apply qadd_ok. }
    destruct (IH acc) as (s & Hs & Us & Gs & As).
    + unfold acc. apply mk_qty_unit.
    + unfold acc. apply ugrid_mk.
    + exact Hr.
    + exists s. split; [exact Hs|]. split; [exact Us|]. split; [exact Gs|].
      rewrite As, Ea. cbn [map qsum]. ring.
Qed.

(* ------------------------------------------------------------------------ *)
(* 3. the portions before dispersal                                          *)
(* ------------------------------------------------------------------------ *)
Definition portions_of (dm : mode) (self : qty) (fs : list Q) : list qty :=
  map (fun f => qty_mul_num dm self f) fs.

Definition d0 : qty := mkQty 0 (mkUnit 0 0 false None None).

(* deviation of portion i from its exact share a * f_i *)
Definition errq (a : Q) (ps : list qty) (fs : list Q) (i : nat) : Q :=
  q_amt (nth i ps d0) - a * nth i fs 0.

Lemma portions_length dm self fs : length (portions_of dm self fs) = length fs.
Proof. apply map_length. Qed.

Lemma portions_nth dm self fs i : (i < length fs)%nat ->
  nth i (portions_of dm self fs) d0 = qty_mul_num dm self (nth i fs 0).
Proof.
  revert i. induction fs as [|f fs IH]; intros i H; cbn [length] in H; [lia|].
  destruct i as [|i]; [reflexivity|]. cbn [portions_of map nth]. apply IH. lia.
Qed.

Lemma portions_unit_grid dm self fs :
  Forall (fun p => q_unit p = q_unit self /\ ugrid (q_unit self) (q_amt p)) (portions_of dm self fs).
Proof.
  apply Forall_forall. intros p Hp. apply in_map_iff in Hp. destruct Hp as (f & <- & _).
  unfold qty_mul_num. split; [apply mk_qty_unit | apply ugrid_mk].
Qed.

Lemma portion_exact dm self f : u_quantum (q_unit self) = None ->
  q_amt (qty_mul_num dm self f) == q_amt self * f.
Proof.
  intros H. unfold qty_mul_num. rewrite (mk_qty_noquantum dm _ _ H). apply qmul_ok.
Qed.

Lemma portion_error_lt dm self f qu : u_quantum (q_unit self) = Some qu -> 0 < qu ->
  Qabs (q_amt (qty_mul_num dm self f) - q_amt self * f) < qu.
Proof.
  intros H Hq. unfold qty_mul_num. rewrite (mk_qty_quantized dm _ _ qu H). cbn [q_amt].
  assert (E : round_to_quantum dm (qmul (q_amt self) f) qu - q_amt self * f ==
              round_to_quantum dm (qmul (q_amt self) f) qu - qmul (q_amt self) f)
    by (pose proof (qmul_ok (q_amt self) f) as X; lra).
  rewrite E. apply round_error_lt. exact Hq.
Qed.

Lemma portion_error_half dm self f qu : u_quantum (q_unit self) = Some qu -> 0 < qu ->
  half_mode dm = true ->
  Qabs (q_amt (qty_mul_num dm self f) - q_amt self * f) <= (1 # 2) * qu.
Proof.
  intros H Hq Hm. unfold qty_mul_num. rewrite (mk_qty_quantized dm _ _ qu H). cbn [q_amt].
  assert (E : round_to_quantum dm (qmul (q_amt self) f) qu - q_amt self * f ==
              round_to_quantum dm (qmul (q_amt self) f) qu - qmul (q_amt self) f)
    by (pose proof (qmul_ok (q_amt self) f) as X; lra).
  rewrite E. apply round_error_half; assumption.
Qed.

(* the error list the code builds: pairs (error, index) *)
Lemma errors_from_spec a : forall ps fs i0, length ps = length fs ->
  map snd (errors_from i0 a ps fs) = seq i0 (length ps) /\
  Forall (fun x => (i0 <= snd x)%nat /\ fst x == errq a ps fs (snd x - i0))
         (errors_from i0 a ps fs).
Proof.
  induction ps as [|p ps IH]; intros fs i0 HL; destruct fs as [|f fs]; try discriminate.
  - split; [reflexivity | constructor].
  - cbn [length] in HL. injection HL as HL. destruct (IH fs (S i0) HL) as (IS & IF).
    cbn [errors_from map seq length]. split; [rewrite IS; reflexivity|].
    constructor.
    + cbn [fst snd]. split; [lia|]. rewrite Nat.sub_diag. unfold errq. cbn [nth].
      rewrite qsub_ok, qmul_ok. reflexivity.
    + eapply Forall_impl; [|exact IF]. intros x (Hx & Ex). split; [lia|].
      rewrite Ex. unfold errq.
      replace (snd x - i0)%nat with (S (snd x - S i0)) by lia. reflexivity.
Qed.

Lemma errors_from_sum a : forall ps fs i0, length ps = length fs ->
  qsum (map fst (errors_from i0 a ps fs)) == qsum (amts ps) - a * qsum fs.
Proof.
  induction ps as [|p ps IH]; intros fs i0 HL; destruct fs as [|f fs]; try discriminate.
  - cbn [errors_from map qsum]. ring.
  - cbn [length] in HL. injection HL as HL. cbn [errors_from map qsum fst].
    rewrite (IH fs (S i0) HL), qsub_ok, qmul_ok. ring.
Qed.

Lemma errors_from_bound a dm self (P : Q -> Prop) :
  (forall f, P (q_amt (qty_mul_num dm self f) - a * f)) ->
  (forall x y, x == y -> P x -> P y) ->
  forall fs i0, Forall (fun x => P (fst x)) (errors_from i0 a (portions_of dm self fs) fs).
Proof.
  intros HP Hc. induction fs as [|f fs IH]; intros i0; cbn [portions_of map errors_from].
  - constructor.
  - constructor; [|apply IH]. cbn [fst].
    apply (Hc (q_amt (qty_mul_num dm self f) - a * f)); [|apply HP].
    rewrite qsub_ok, qmul_ok. reflexivity.
Qed.

(* ------------------------------------------------------------------------ *)
(* 4. bump and the dispersal loop: what holds unconditionally                *)
(* ------------------------------------------------------------------------ *)
Lemma bump_length d : forall ps i, length (bump i d ps) = length ps.
Proof. induction ps as [|p ps IH]; intros [|i]; cbn [bump length]; try reflexivity. rewrite IH. reflexivity. Qed.

Lemma bump_units d : forall ps i, map q_unit (bump i d ps) = map q_unit ps.
Proof. induction ps as [|p ps IH]; intros [|i]; cbn [bump map q_unit]; try reflexivity. rewrite IH. reflexivity. Qed.

Lemma bump_sum d : forall ps i, (i < length ps)%nat ->
  qsum (amts (bump i d ps)) == qsum (amts ps) + d.
Proof.
  induction ps as [|p ps IH]; intros [|i] H; cbn [length] in H; try lia.
  - cbn [bump map qsum q_amt]. rewrite qadd_ok. ring.
  - cbn [bump map qsum]. rewrite IH by lia. ring.
Qed.

Lemma bump_nth_same d : forall ps i, (i < length ps)%nat ->
  q_amt (nth i (bump i d ps) d0) == q_amt (nth i ps d0) + d.
Proof.
  induction ps as [|p ps IH]; intros [|i] H; cbn [length] in H; try lia.
  - cbn [bump nth q_amt]. apply qadd_ok.
  - cbn [bump nth]. apply IH. lia.
Qed.

Lemma bump_nth_other d : forall ps i j, i <> j -> nth j (bump i d ps) d0 = nth j ps d0.
Proof.
  induction ps as [|p ps IH]; intros [|i] [|j] H; cbn [bump nth]; try reflexivity; try congruence.
  apply IH. congruence.
Qed.

Lemma bump_grid u d : ugrid u d -> forall ps i,
  Forall (fun p => ugrid u (q_amt p)) ps -> Forall (fun p => ugrid u (q_amt p)) (bump i d ps).
Proof.
  intros Hd. induction ps as [|p ps IH]; intros [|i] H; cbn [bump]; try exact H;
    inversion H as [|? ? Hp Hr]; subst; constructor; try assumption.
  - cbn [q_amt]. apply (ugrid_compat u (q_amt p + d)); [symmetry; apply qadd_ok|].
    apply ugrid_add; assumption.
  - apply IH. exact Hr.
Qed.

Lemma loop_basic step u : ugrid u step -> forall errs ps rem ps' rem',
  Forall (fun x => (snd x < length ps)%nat) errs ->
  disperse_loop step errs ps rem = (ps', rem') ->
  length ps' = length ps /\ map q_unit ps' = map q_unit ps /\
  qsum (amts ps') + rem' == qsum (amts ps) + rem /\
  (ugrid u rem -> ugrid u rem') /\
  (Forall (fun p => ugrid u (q_amt p)) ps -> Forall (fun p => ugrid u (q_amt p)) ps').
Proof.
  intros Gs. induction errs as [|[e i] r IH]; intros ps rem ps' rem' HF H.
  - cbn [disperse_loop] in H. injection H as <- <-.
    repeat split; try reflexivity; trivial.
  - inversion HF as [|? ? Hi Hr]. subst. cbn [snd] in Hi. cbn [disperse_loop] in H.
    assert (Gr : ugrid u rem -> ugrid u (qsub rem step)).
    { intros G. apply (ugrid_compat u (rem - step)); [symmetry; apply qsub_ok|].
      apply ugrid_sub; assumption. }
    destruct (qzero (qsub rem step)).
    + injection H as <- <-. rewrite bump_length, bump_units.
      split; [reflexivity|]. split; [reflexivity|]. split.
      { rewrite (bump_sum step ps i Hi), qsub_ok. ring. }
      split; [exact Gr | apply bump_grid; exact Gs].
    + assert (HF' : Forall (fun x => (snd x < length (bump i step ps))%nat) r)
        by (rewrite bump_length; exact Hr).
      destruct (IH _ _ _ _ HF' H) as (L & U & S & G1 & G2).
      rewrite bump_length in L. rewrite bump_units in U.
      split; [exact L|]. split; [exact U|]. split.
      { rewrite S, (bump_sum step ps i Hi), qsub_ok. ring. }
      split; [intros G; apply G1, Gr, G | intros G; apply G2, bump_grid; [exact Gs | exact G]].
Qed.

(* ------------------------------------------------------------------------ *)
(* 5. the sort                                                               *)
(* ------------------------------------------------------------------------ *)
Lemma insert_perm {A} (leb : A -> A -> bool) x : forall l, Permutation (x :: l) (insert leb x l).
Proof.
  induction l as [|y l IH]; cbn [insert]; [apply Permutation_refl|].
  destruct (leb x y); [apply Permutation_refl|].
  eapply perm_trans; [apply perm_swap | apply perm_skip, IH].
Qed.

Lemma isort_perm {A} (leb : A -> A -> bool) : forall l, Permutation l (isort leb l).
Proof.
  induction l as [|x l IH]; cbn [isort]; [constructor|].
  eapply perm_trans; [apply perm_skip, IH | apply insert_perm].
Qed.

Lemma insert_sorted {A} (leb : A -> A -> bool) (R : A -> A -> Prop) :
  (forall x y z, R x y -> R y z -> R x z) ->
  (forall x y, leb x y = true -> R x y) ->
  (forall x y, leb x y = false -> R y x) ->
  forall x l, StronglySorted R l -> StronglySorted R (insert leb x l).
Proof.
  intros Tr T F x. induction l as [|y l IH]; intros H; cbn [insert].
  - constructor; constructor.
  - inversion H as [|? ? Hs Hy]. subst. destruct (leb x y) eqn:E.
    + constructor; [exact H|]. constructor; [apply T, E|].
      eapply Forall_impl; [|exact Hy]. intros z Hz. eapply Tr; [apply T, E | exact Hz].
    + constructor; [apply IH, Hs|].
      apply Forall_forall. intros z Hz.
      apply (Permutation_in z (Permutation_sym (insert_perm leb x l))) in Hz.
      destruct Hz as [<- | Hz]; [apply F, E|].
      rewrite Forall_forall in Hy. apply Hy, Hz.
Qed.

Lemma isort_sorted {A} (leb : A -> A -> bool) (R : A -> A -> Prop) :
  (forall x y z, R x y -> R y z -> R x z) ->
  (forall x y, leb x y = true -> R x y) ->
  (forall x y, leb x y = false -> R y x) ->
  forall l, StronglySorted R (isort leb l).
Proof.
  intros Tr T F. induction l as [|x l IH]; cbn [isort]; [constructor|].
  apply insert_sorted; assumption.
Qed.

Definition key_le (neg : bool) (x y : Q * nat) : Prop := sg neg (fst x) <= sg neg (fst y).

Lemma pair_leb_true x y : pair_leb x y = true -> fst x <= fst y.
Proof.
  unfold pair_leb. intros H. apply orb_true_iff in H. destruct H as [H | H].
  - apply qltb_iff in H. apply Qlt_le_weak, H.
  - apply andb_true_iff in H. destruct H as [H _]. apply qeqb_iff in H. rewrite H. apply Qle_refl.
Qed.
Lemma pair_leb_false x y : pair_leb x y = false -> fst y <= fst x.
Proof.
  unfold pair_leb. intros H. apply orb_false_iff in H. destruct H as [H _].
  apply Qnot_lt_le. intros L. apply qltb_iff in L. congruence.
Qed.

Lemma sort_errors_perm neg l : Permutation l (sort_errors neg l).
Proof. apply isort_perm. Qed.

Lemma sort_errors_sorted neg l : StronglySorted (key_le neg) (sort_errors neg l).
Proof.
  unfold sort_errors, key_le. destruct neg; cbn [sg]; apply isort_sorted.
  - intros x y z A B. lra.
  - intros x y H. apply pair_leb_true in H. lra.
  - intros x y H. apply pair_leb_false in H. lra.
  - intros x y z A B. lra.
  - intros x y H. apply pair_leb_true in H. exact H.
  - intros x y H. apply pair_leb_false in H. exact H.
Qed.

(* ------------------------------------------------------------------------ *)
(* 6. the dispersal loop reaches zero and keeps every portion within one     *)
(*    quantum of its share                                                   *)
(* ------------------------------------------------------------------------ *)
Lemma injZ_ge1 m : (1 <= m)%Z -> 1 <= inject_Z m.
Proof. intros H. rewrite Zle_Qle in H. exact H. Qed.

Lemma qsum_map_nonneg {A} (g : A -> Q) l : Forall (fun x => 0 <= g x) l -> 0 <= qsum (map g l).
Proof. induction 1; cbn [map qsum]; lra. Qed.

(* Invariant of the loop.  [m] signed quanta are still to be handed out
   (rem = m * (+-qu), m >= 1); the not yet visited portions (indices in
   [errs]) still carry their rounding error, whose signed value (the key) lies
   in (-qu, qu); the keys of the remaining list add up to at most -m*qu and
   the list is sorted by key.  Then the head key is negative (otherwise all
   remaining keys are non-negative and cannot add up to something negative),
   so after adding one signed quantum the head portion is still less than one
   quantum from its share; the remaining keys add up to at most -(m-1)*qu
   because the head key is above -qu. *)
Lemma loop_good neg qu a fs : 0 < qu ->
  forall errs ps rem (m : Z),
  (1 <= m)%Z -> rem == inject_Z m * sg neg qu ->
  NoDup (map snd errs) ->
  Forall (fun x => (snd x < length ps)%nat) errs ->
  Forall (fun x => sg neg (errq a ps fs (snd x)) == sg neg (fst x) /\
                   - qu < sg neg (fst x) /\ sg neg (fst x) < qu) errs ->
  (forall i, (i < length ps)%nat -> ~ In i (map snd errs) -> Qabs (errq a ps fs i) < qu) ->
  qsum (map (fun x => sg neg (fst x)) errs) <= - (inject_Z m * qu) ->
  StronglySorted (key_le neg) errs ->
  forall ps' rem', disperse_loop (sg neg qu) errs ps rem = (ps', rem') ->
  rem' == 0 /\ (forall i, (i < length ps)%nat -> Qabs (errq a ps' fs i) < qu).
Proof.
  intros Hq. induction errs as [|[e i] r IH];
    intros ps rem m Hm Hrem ND HL H12 H3 H4 H5 ps' rem' HD.
  - exfalso. cbn [map qsum] in H4. pose proof (injZ_ge1 m Hm). nra.
  - cbn [map snd] in ND. inversion ND as [|? ? Hni NDr]. subst.
    inversion HL as [|? ? Hi HLr]. subst. cbn [snd] in Hi.
    inversion H12 as [|? ? [E1 [Lo Up]] H12r]. subst. cbn [fst snd] in E1, Lo, Up.
    inversion H5 as [|? ? H5r Hall]. subst.
    cbn [map qsum fst] in H4.
    pose proof (injZ_ge1 m Hm) as M1.
    assert (Kneg : sg neg e < 0).
    { apply Qnot_le_lt. intros Kge.
      assert (0 <= qsum (map (fun x => sg neg (fst x)) r)).
      { apply qsum_map_nonneg. eapply Forall_impl; [|exact Hall].
        intros x Hx. unfold key_le in Hx. cbn [fst] in Hx. lra. }
      nra. }
    cbn [disperse_loop] in HD.
    set (ps1 := bump i (sg neg qu) ps) in *.
    assert (F1 : forall j, j <> i -> errq a ps1 fs j = errq a ps fs j).
    { intros j Hj. unfold errq, ps1. rewrite bump_nth_other by congruence. reflexivity. }
    assert (F2 : Qabs (errq a ps1 fs i) < qu).
    { assert (E0 : errq a ps1 fs i == errq a ps fs i + sg neg qu).
      { unfold errq, ps1. pose proof (bump_nth_same (sg neg qu) ps i Hi). lra. }
      assert (E2 : sg neg (errq a ps1 fs i) == sg neg e + qu).
      { rewrite (sg_compat neg _ _ E0), sg_add, sg_sg, E1. reflexivity. }
      apply (sg_abs neg); lra. }
    assert (L1 : length ps1 = length ps) by apply bump_length.
    destruct (qzero (qsub rem (sg neg qu))) eqn:Z.
    + injection HD as <- <-. split; [apply qzero_iff, Z|].
      intros j Hj. destruct (Nat.eq_dec j i) as [->|Nji]; [exact F2|].
      rewrite (F1 j Nji). destruct (in_dec Nat.eq_dec j (map snd r)) as [Hin|Hnin].
      * apply in_map_iff in Hin. destruct Hin as (x & <- & Hx).
        rewrite Forall_forall in H12r. destruct (H12r x Hx) as (Ex & Lx & Ux).
        apply (sg_abs neg); lra.
      * apply H3; [exact Hj|]. simpl. intros [Hc|Hc]; [congruence | contradiction].
    + assert (Hm1 : m <> 1%Z).
      { intros ->. apply qzero_false in Z. apply Z. rewrite qsub_ok, Hrem.
        change (inject_Z 1) with 1. ring. }
      assert (A1 : (1 <= m - 1)%Z) by lia.
      assert (EM : inject_Z (m - 1) == inject_Z m - 1).
      { unfold Z.sub. rewrite inject_Z_plus, inject_Z_opp. change (inject_Z 1) with 1. ring. }
      assert (A2 : qsub rem (sg neg qu) == inject_Z (m - 1) * sg neg qu).
      { rewrite qsub_ok, Hrem, EM. ring. }
      assert (A4 : Forall (fun x => (snd x < length ps1)%nat) r) by (rewrite L1; exact HLr).
      assert (A5 : Forall (fun x => sg neg (errq a ps1 fs (snd x)) == sg neg (fst x) /\
                                    - qu < sg neg (fst x) /\ sg neg (fst x) < qu) r).
      { apply Forall_forall. intros x Hx. rewrite Forall_forall in H12r.
        destruct (H12r x Hx) as (Ex & Lx & Ux).
        assert (Hne : snd x <> i) by (intros Eq; apply Hni; rewrite <- Eq; apply in_map; exact Hx).
        rewrite (F1 _ Hne). repeat split; assumption. }
      assert (A6 : forall j, (j < length ps1)%nat -> ~ In j (map snd r) ->
                             Qabs (errq a ps1 fs j) < qu).
      { intros j Hj Hnin. rewrite L1 in Hj.
        destruct (Nat.eq_dec j i) as [->|Nji]; [exact F2|]. rewrite (F1 j Nji).
        apply H3; [exact Hj|]. simpl. intros [Hc|Hc]; [congruence | contradiction]. }
      assert (A7 : qsum (map (fun x => sg neg (fst x)) r) <= - (inject_Z (m - 1) * qu)).
      { rewrite EM. nra. }
      destruct (IH ps1 _ (m - 1)%Z A1 A2 NDr A4 A5 A6 A7 H5r ps' rem' HD) as (R0 & RB).
      split; [exact R0|]. intros j Hj. apply RB. rewrite L1. exact Hj.
Qed.

(* ------------------------------------------------------------------------ *)
(* 7. alloc_core                                                             *)
(* ------------------------------------------------------------------------ *)
Lemma alloc_core_unfold ce dm self f0 fr disperse s remq :
  qty_sum_from ce dm (qty_mul_num dm self f0) (portions_of dm self fr) = Ok s ->
  qty_sub ce dm self s = Ok remq ->
  alloc_core ce dm self (f0 :: fr) disperse =
    (let portions := portions_of dm self (f0 :: fr) in
     let rem := q_amt remq in
     if qzero rem then Ok (portions, remq) else
     match u_quantum (q_unit self) with
     | None => Err EAssertion
     | Some qu =>
       if negb disperse then Ok (portions, remq) else
       let neg := qltb rem 0 in
       let '(ps', rem') :=
         disperse_loop (sg neg qu)
                       (sort_errors neg (errors_from 0 (q_amt self) portions (f0 :: fr)))
                       portions rem in
       Ok (ps', mk_qty dm rem' (q_unit self))
     end).
Proof.
  intros Hs Hr. unfold alloc_core, portions_of in *. cbn [map]. rewrite Hs. cbn [bind].
  rewrite Hr. cbn [bind]. reflexivity.
Qed.

(* sum of the portions and the subtraction from the receiver *)
Lemma core_prefix ce dm self f0 fr :
  uq_ok (q_unit self) -> ugrid (q_unit self) (q_amt self) ->
  exists s remq,
    qty_sum_from ce dm (qty_mul_num dm self f0) (portions_of dm self fr) = Ok s /\
    qty_sub ce dm self s = Ok remq /\
    q_unit remq = q_unit self /\ ugrid (q_unit self) (q_amt remq) /\
    q_amt remq == q_amt self - qsum (amts (portions_of dm self (f0 :: fr))).
Proof.
  intros Hu Ga.
  pose proof (portions_unit_grid dm self (f0 :: fr)) as HP. cbn [portions_of map] in HP.
  inversion HP as [|? ? [U0 G0] HPr]. subst.
  destruct (sum_same_unit ce dm (q_unit self) Hu _ _ U0 G0 HPr) as (s & Hs & Us & Gs & As).
  exists s. eexists. split; [exact Hs|]. split.
  - unfold qty_sub. apply (addsub_same_unit true ce dm self s (q_unit self) eq_refl Us).
  - assert (Gd : ugrid (q_unit self) (qsub (q_amt self) (q_amt s))).
    { apply (ugrid_compat _ (q_amt self - q_amt s)); [symmetry; apply qsub_ok|].
      apply ugrid_sub; assumption. }
    split; [apply mk_qty_unit|]. split; [apply ugrid_mk|].
    rewrite (mk_exact dm _ _ Hu Gd), qsub_ok, As. cbn [portions_of map qsum]. reflexivity.
Qed.

Lemma errors_from_length a : forall ps fs i0, length ps = length fs ->
  length (errors_from i0 a ps fs) = length fs.
Proof.
  induction ps as [|p ps IH]; intros fs i0 HL; destruct fs as [|f fs]; try discriminate.
  - reflexivity.
  - cbn [length] in HL. injection HL as HL. cbn [errors_from length]. rewrite (IH fs (S i0) HL). reflexivity.
Qed.

(* what is known about the sorted error list *)
Lemma sorted_errors_facts a dm self fs neg :
  let ps := portions_of dm self fs in
  let errs := sort_errors neg (errors_from 0 a ps fs) in
  Permutation (errors_from 0 a ps fs) errs /\
  NoDup (map snd errs) /\
  Forall (fun x => (snd x < length ps)%nat) errs /\
  Forall (fun x => fst x == errq a ps fs (snd x)) errs /\
  (forall i, (i < length ps)%nat -> In i (map snd errs)).
Proof.
  intros ps errs.
  assert (HL : length ps = length fs) by apply portions_length.
  destruct (errors_from_spec a ps fs 0%nat HL) as (IS & IF).
  pose proof (sort_errors_perm neg (errors_from 0 a ps fs)) as PM. fold errs in PM.
  pose proof (Permutation_map snd PM) as PS. rewrite IS in PS.
  split; [exact PM|]. split.
  { eapply Permutation_NoDup; [exact PS | apply seq_NoDup]. }
  split.
  { apply Forall_forall. intros x Hx.
    assert (Hin : In (snd x) (seq 0 (length ps))).
    { apply (Permutation_in _ (Permutation_sym PS)). apply in_map. exact Hx. }
    apply in_seq in Hin. lia. }
  split.
  { apply Forall_forall. intros x Hx.
    apply (Permutation_in _ (Permutation_sym PM)) in Hx.
    rewrite Forall_forall in IF. destruct (IF x Hx) as (_ & Ex).
    rewrite Nat.sub_0_r in Ex. exact Ex. }
  intros i Hi. apply (Permutation_in _ PS). apply in_seq. lia.
Qed.

Lemma units_all u (l l' : list qty) : map q_unit l = map q_unit l' ->
  Forall (fun p => q_unit p = u) l' -> Forall (fun p => q_unit p = u) l.
Proof.
  revert l'. induction l as [|p l IH]; intros [|p' l'] E H; try discriminate; [constructor|].
  cbn [map] in E. injection E as E1 E2. inversion H as [|? ? Hp Hr]. subst.
  constructor; [congruence | apply (IH l' E2 Hr)].
Qed.

Lemma ugrid_step neg u qu : u_quantum u = Some qu -> ugrid u (sg neg qu).
Proof.
  intros E. unfold ugrid. rewrite E. destruct neg; cbn [sg];
    [apply on_grid_opp|]; apply on_grid_self.
Qed.

(* --- conservation, unit, grid: every successful allocation, whatever the
   fractions are and whether or not the error is dispersed --- *)
Theorem core_basic ce dm self fs disperse ps r :
  uq_ok (q_unit self) -> ugrid (q_unit self) (q_amt self) ->
  alloc_core ce dm self fs disperse = Ok (ps, r) ->
  length ps = length fs /\
  Forall (fun p => q_unit p = q_unit self) ps /\ q_unit r = q_unit self /\
  qsum (amts ps) + q_amt r == q_amt self /\
  Forall (fun p => ugrid (q_unit self) (q_amt p)) ps /\ ugrid (q_unit self) (q_amt r).
Proof.
  intros Hu Ga H. destruct fs as [|f0 fr]; [discriminate|].
  destruct (core_prefix ce dm self f0 fr Hu Ga) as (s & remq & Hs & Hr & Ur & Gr & Ar).
  rewrite (alloc_core_unfold ce dm self f0 fr disperse s remq Hs Hr) in H. cbv zeta in H.
  pose proof (portions_unit_grid dm self (f0 :: fr)) as HP.
  assert (HPu : Forall (fun p => q_unit p = q_unit self) (portions_of dm self (f0 :: fr)))
    by (eapply Forall_impl; [|exact HP]; intros p [A _]; exact A).
  assert (HPg : Forall (fun p => ugrid (q_unit self) (q_amt p)) (portions_of dm self (f0 :: fr)))
    by (eapply Forall_impl; [|exact HP]; intros p [_ A]; exact A).
  assert (Plain : (ps, r) = (portions_of dm self (f0 :: fr), remq) ->
    length ps = length (f0 :: fr) /\
    Forall (fun p => q_unit p = q_unit self) ps /\ q_unit r = q_unit self /\
    qsum (amts ps) + q_amt r == q_amt self /\
    Forall (fun p => ugrid (q_unit self) (q_amt p)) ps /\ ugrid (q_unit self) (q_amt r)).
  { intros E.
    assert (E1 : ps = portions_of dm self (f0 :: fr)) by congruence.
    assert (E2 : r = remq) by congruence. rewrite E1, E2.
    split; [apply portions_length|].
    split; [exact HPu|]. split; [exact Ur|]. split; [rewrite Ar; ring|].
    split; [exact HPg | exact Gr]. }
  destruct (qzero (q_amt remq)); [injection H as <- <-; apply Plain; reflexivity|].
  destruct (u_quantum (q_unit self)) as [qu|] eqn:EQ; [|discriminate].
  destruct disperse; cbn [negb] in H; [|injection H as <- <-; apply Plain; reflexivity].
  set (neg := qltb (q_amt remq) 0) in *.
  destruct (disperse_loop _ _ _ _) as [ps' rem'] eqn:HD. injection H as <- <-.
  destruct (sorted_errors_facts (q_amt self) dm self (f0 :: fr) neg) as (_ & _ & HF & _ & _).
  destruct (loop_basic (sg neg qu) (q_unit self) (ugrid_step neg _ qu EQ) _ _ _ _ _ HF HD)
    as (L & U & S & G1 & G2).
  split; [rewrite L; apply portions_length|].
  split; [apply (units_all _ _ _ U HPu)|].
  split; [apply mk_qty_unit|]. split.
  - rewrite (mk_exact dm _ _ Hu (G1 Gr)), S, Ar. ring.
  - split; [apply G2, HPg | apply ugrid_mk].
Qed.

(* --- the error branches of the core --- *)
Theorem core_empty ce dm self disperse : alloc_core ce dm self [] disperse = Err ETypeError.
Proof. reflexivity. Qed.

Lemma Forall2_nth_intro {A B} (R : A -> B -> Prop) da db : forall l l',
  length l = length l' ->
  (forall i, (i < length l)%nat -> R (nth i l da) (nth i l' db)) -> Forall2 R l l'.
Proof.
  induction l as [|x l IH]; intros [|y l'] HL H; try discriminate; constructor.
  - apply (H 0%nat). cbn [length]. lia.
  - apply IH; [cbn [length] in HL; lia|]. intros i Hi. apply (H (S i)). cbn [length]. lia.
Qed.

Lemma portions_forall2 dm self (R : qty -> Q -> Prop) fs :
  (forall f, R (qty_mul_num dm self f) f) -> Forall2 R (portions_of dm self fs) fs.
Proof. intros H. induction fs as [|f fs IH]; cbn [portions_of map]; constructor; [apply H | exact IH]. Qed.

Lemma forall2_sum a ps fs : Forall2 (fun p f => q_amt p == a * f) ps fs ->
  qsum (amts ps) == a * qsum fs.
Proof. induction 1 as [|p f ps fs Hp _ IH]; cbn [map qsum]; [ring|]. rewrite Hp, IH. ring. Qed.

(* --- no quantum: exact shares, remainder zero --- *)
Theorem core_no_quantum ce dm self fs disperse :
  u_quantum (q_unit self) = None -> fs <> [] -> qsum fs == 1 ->
  exists ps r, alloc_core ce dm self fs disperse = Ok (ps, r) /\
    Forall2 (fun p f => q_amt p == q_amt self * f) ps fs /\ q_amt r == 0.
Proof.
  intros EQ Hne H1. destruct fs as [|f0 fr]; [contradiction|].
  assert (Hu : uq_ok (q_unit self)) by (unfold uq_ok; rewrite EQ; exact I).
  assert (Ga : ugrid (q_unit self) (q_amt self)) by (unfold ugrid; rewrite EQ; exact I).
  destruct (core_prefix ce dm self f0 fr Hu Ga) as (s & remq & Hs & Hr & Ur & Gr & Ar).
  rewrite (alloc_core_unfold ce dm self f0 fr disperse s remq Hs Hr). cbv zeta.
  assert (P2 : Forall2 (fun p f => q_amt p == q_amt self * f) (portions_of dm self (f0 :: fr)) (f0 :: fr))
    by (apply portions_forall2; intros f; apply portion_exact, EQ).
  assert (SP : qsum (amts (portions_of dm self (f0 :: fr))) == q_amt self * qsum (f0 :: fr)).
  { apply forall2_sum, P2. }
  assert (Z : q_amt remq == 0) by (rewrite Ar, SP, H1; ring).
  apply qzero_iff in Z. rewrite Z. do 2 eexists. split; [reflexivity|].
  split; [exact P2 | apply qzero_iff, Z].
Qed.

(* without the hypothesis on the fractions the unquantized core either
   returns exact shares with a zero remainder or fails the code's assertion *)
Theorem core_no_quantum_any ce dm self fs disperse :
  u_quantum (q_unit self) = None -> fs <> [] ->
  (exists ps r, alloc_core ce dm self fs disperse = Ok (ps, r) /\ q_amt r == 0 /\
                Forall2 (fun p f => q_amt p == q_amt self * f) ps fs) \/
  (alloc_core ce dm self fs disperse = Err EAssertion /\ ~ qsum fs == 1).
Proof.
  intros EQ Hne. destruct fs as [|f0 fr]; [contradiction|].
  assert (Hu : uq_ok (q_unit self)) by (unfold uq_ok; rewrite EQ; exact I).
  assert (Ga : ugrid (q_unit self) (q_amt self)) by (unfold ugrid; rewrite EQ; exact I).
  destruct (core_prefix ce dm self f0 fr Hu Ga) as (s & remq & Hs & Hr & Ur & Gr & Ar).
  rewrite (alloc_core_unfold ce dm self f0 fr disperse s remq Hs Hr). cbv zeta.
  assert (P2 : Forall2 (fun p f => q_amt p == q_amt self * f) (portions_of dm self (f0 :: fr)) (f0 :: fr))
    by (apply portions_forall2; intros f; apply portion_exact, EQ).
  assert (SP : qsum (amts (portions_of dm self (f0 :: fr))) == q_amt self * qsum (f0 :: fr)).
  { apply forall2_sum, P2. }
  destruct (qzero (q_amt remq)) eqn:Z.
  - left. do 2 eexists. split; [reflexivity|]. split; [apply qzero_iff, Z | exact P2].
  - right. rewrite EQ. split; [reflexivity|]. intros H1. apply qzero_false in Z. apply Z.
    rewrite Ar, SP, H1. ring.
Qed.

(* --- with a quantum --- *)
Lemma Forall_map_intro {A B} (g : A -> B) (P : B -> Prop) l :
  Forall (fun x => P (g x)) l -> Forall P (map g l).
Proof. induction 1; cbn [map]; constructor; assumption. Qed.

Lemma qsum_abs_lt_len c l : l <> [] -> Forall (fun y => Qabs y < c) l ->
  Qabs (qsum l) < inject_Z (Z.of_nat (length l)) * c.
Proof.
  intros Hne H. destruct l as [|x l]; [contradiction|].
  rewrite <- qlen_length. apply qsum_abs_lt, H.
Qed.

Lemma qsum_abs_le_len c l : Forall (fun y => Qabs y <= c) l ->
  Qabs (qsum l) <= inject_Z (Z.of_nat (length l)) * c.
Proof. intros H. rewrite <- qlen_length. apply qsum_abs_le, H. Qed.

Definition qcount {A} (l : list A) : Q := inject_Z (Z.of_nat (length l)).

Theorem core_quantum ce dm self fs disperse qu :
  u_quantum (q_unit self) = Some qu -> 0 < qu -> ugrid (q_unit self) (q_amt self) ->
  fs <> [] -> qsum fs == 1 ->
  exists ps r, alloc_core ce dm self fs disperse = Ok (ps, r) /\
    Forall2 (fun p f => Qabs (q_amt p - q_amt self * f) < qu) ps fs /\
    (disperse = true -> q_amt r == 0) /\
    (disperse = false ->
       ps = portions_of dm self fs /\
       Qabs (q_amt r) < qcount fs * qu /\
       (half_mode dm = true -> Qabs (q_amt r) <= qcount fs * ((1 # 2) * qu))).
Proof.
  intros EQ Hq Ga Hne H1. destruct fs as [|f0 fr]; [contradiction|].
  assert (Hu : uq_ok (q_unit self)) by (unfold uq_ok; rewrite EQ; exact Hq).
  destruct (core_prefix ce dm self f0 fr Hu Ga) as (s & remq & Hs & Hr & Ur & Gr & Ar).
  rewrite (alloc_core_unfold ce dm self f0 fr disperse s remq Hs Hr). cbv zeta.
  set (fs := f0 :: fr) in *. set (a := q_amt self) in *.
  set (ps0 := portions_of dm self fs) in *.
  assert (HL : length ps0 = length fs) by apply portions_length.
  assert (P2 : Forall2 (fun p f => Qabs (q_amt p - a * f) < qu) ps0 fs)
    by (apply portions_forall2; intros f; apply portion_error_lt; assumption).
  assert (SE : qsum (map fst (errors_from 0 a ps0 fs)) == qsum (amts ps0) - a * qsum fs)
    by (apply errors_from_sum, HL).
  assert (RemE : q_amt remq == - qsum (map fst (errors_from 0 a ps0 fs)))
    by (rewrite Ar, SE, H1; ring).
  assert (Bd : Forall (fun x => Qabs (fst x) < qu) (errors_from 0 a ps0 fs)).
  { apply (errors_from_bound a dm self (fun x => Qabs x < qu)).
    - intros f. apply portion_error_lt; assumption.
    - intros x y E H. rewrite <- E. exact H. }
  assert (LE : length (map fst (errors_from 0 a ps0 fs)) = length fs)
    by (rewrite map_length; apply errors_from_length, HL).
  assert (NE : map fst (errors_from 0 a ps0 fs) <> []).
  { intros E. rewrite E in LE. discriminate. }
  assert (RBlt : Qabs (q_amt remq) < qcount fs * qu).
  { rewrite RemE, Qabs_opp. unfold qcount. rewrite <- LE.
    apply qsum_abs_lt_len; [exact NE | apply Forall_map_intro, Bd]. }
  assert (RBhalf : half_mode dm = true -> Qabs (q_amt remq) <= qcount fs * ((1 # 2) * qu)).
  { intros Hm. rewrite RemE, Qabs_opp. unfold qcount. rewrite <- LE.
    apply qsum_abs_le_len, Forall_map_intro.
    apply (errors_from_bound a dm self (fun x => Qabs x <= (1 # 2) * qu)).
    - intros f. apply portion_error_half; assumption.
    - intros x y E H. rewrite <- E. exact H. }
  assert (Plain : exists ps r, Ok (ps0, remq) = Ok (ps, r) /\
    Forall2 (fun p f => Qabs (q_amt p - a * f) < qu) ps fs /\
    (false = true -> q_amt r == 0) /\
    (false = false -> ps = ps0 /\ Qabs (q_amt r) < qcount fs * qu /\
       (half_mode dm = true -> Qabs (q_amt r) <= qcount fs * ((1 # 2) * qu)))).
  { exists ps0, remq. split; [reflexivity|]. split; [exact P2|]. split; [discriminate|].
    intros _. split; [reflexivity|]. split; [exact RBlt | exact RBhalf]. }
  destruct (qzero (q_amt remq)) eqn:Z.
  { exists ps0, remq. split; [reflexivity|]. split; [exact P2|].
    split; [intros _; apply qzero_iff, Z|].
    intros _. split; [reflexivity|]. split; [exact RBlt | exact RBhalf]. }
  rewrite EQ. destruct disperse; cbn [negb]; [|exact Plain].
  set (neg := qltb (q_amt remq) 0) in *.
  destruct (disperse_loop _ _ _ _) as [ps' rem'] eqn:HD.
  exists ps', (mk_qty dm rem' (q_unit self)). split; [reflexivity|].
  destruct (sorted_errors_facts a dm self fs neg) as (PM & ND & HF & HE & HIn).
  fold ps0 in PM, ND, HF, HE, HIn, HD.
  set (errs := sort_errors neg (errors_from 0 a ps0 fs)) in *.
  destruct (loop_basic (sg neg qu) (q_unit self) (ugrid_step neg _ qu EQ) _ _ _ _ _ HF HD)
    as (L & _ & _ & _ & _).
  (* how many quanta are missing *)
  assert (HM : exists m, (1 <= m)%Z /\ q_amt remq == inject_Z m * sg neg qu).
  { unfold ugrid in Gr. rewrite EQ in Gr. destruct Gr as [k Hk].
    apply qzero_false in Z. destruct neg eqn:EN; cbn [sg].
    - apply qltb_iff in EN. exists (- k)%Z. split.
      + assert (X : inject_Z k < inject_Z 0) by (change (inject_Z 0) with 0; nra).
        rewrite <- Zlt_Qlt in X. lia.
      + rewrite inject_Z_opp, Hk. ring.
    - exists k. split; [|exact Hk].
      assert (NL : ~ q_amt remq < 0) by (intros C; apply qltb_iff in C; unfold neg in EN; congruence).
      assert (X : inject_Z 0 < inject_Z k).
      { change (inject_Z 0) with 0.
        destruct (Qlt_le_dec 0 (inject_Z k)) as [G|G]; [exact G|]. exfalso.
        destruct (Qlt_le_dec (q_amt remq) 0) as [G2|G2]; [contradiction|].
        apply Z. nra. }
      rewrite <- Zlt_Qlt in X. lia. }
  destruct HM as (m & Hm & Hrem).
  assert (H12 : Forall (fun x => sg neg (errq a ps0 fs (snd x)) == sg neg (fst x) /\
                                 - qu < sg neg (fst x) /\ sg neg (fst x) < qu) errs).
  { apply Forall_forall. intros x Hx. rewrite Forall_forall in HE, Bd.
    split; [apply sg_compat; symmetry; apply HE, Hx|].
    apply abs_sg, Bd. apply (Permutation_in _ (Permutation_sym PM)), Hx. }
  assert (H3 : forall i, (i < length ps0)%nat -> ~ In i (map snd errs) ->
                         Qabs (errq a ps0 fs i) < qu).
  { intros i Hi Hn. exfalso. apply Hn, HIn, Hi. }
  assert (H4 : qsum (map (fun x => sg neg (fst x)) errs) <= - (inject_Z m * qu)).
  { rewrite <- (map_map fst (sg neg)), qsum_sg.
    pose proof (qsum_perm _ _ (Permutation_map fst PM)) as QP.
    assert (X : qsum (map fst errs) == - (inject_Z m * sg neg qu)).
    { rewrite <- Hrem, <- QP, RemE. ring. }
    rewrite (sg_compat neg _ _ X).
    destruct neg; cbn [sg]; nra. }
  destruct (loop_good neg qu a fs Hq errs ps0 (q_amt remq) m Hm Hrem ND HF H12 H3 H4
                      (sort_errors_sorted neg _) ps' rem' HD) as (R0 & RB).
  split.
  { apply (Forall2_nth_intro _ d0 0); [rewrite L; exact HL|].
    intros i Hi. rewrite L in Hi. apply (RB i Hi). }
  split; [|discriminate].
  intros _. assert (G0 : ugrid (q_unit self) rem').
  { apply (ugrid_compat _ 0); [symmetry; exact R0|]. unfold ugrid. rewrite EQ. apply on_grid_zero. }
  rewrite (mk_exact dm _ _ Hu G0). exact R0.
Qed.

(* ------------------------------------------------------------------------ *)
(* 8. from ratios to fractions: numbers                                      *)
(* ------------------------------------------------------------------------ *)
Definition num_total (ks : list Q) : Q :=
  match ks with [] => 0 | k :: r => fold_left qadd r k end.
Definition num_fractions (ks : list Q) : list Q := map (fun k => qdiv k (num_total ks)) ks.

Lemma fold_qadd ks : forall acc, fold_left qadd ks acc == acc + qsum ks.
Proof.
  induction ks as [|k ks IH]; intros acc; cbn [fold_left qsum]; [ring|].
  rewrite IH, qadd_ok. ring.
Qed.

Lemma num_total_ok ks : num_total ks == qsum ks.
Proof. destruct ks as [|k ks]; cbn [num_total qsum]; [reflexivity | apply fold_qadd]. Qed.

Lemma sum_ratios_from_nums ce dm : forall ks acc,
  sum_ratios_from ce dm (TNum acc) (map RNum ks) = Ok (TNum (fold_left qadd ks acc)).
Proof. induction ks as [|k ks IH]; intros acc; cbn [map sum_ratios_from fold_left]; [reflexivity | apply IH]. Qed.

Lemma sum_ratios_nums ce dm ks : sum_ratios ce dm (map RNum ks) = Ok (TNum (num_total ks)).
Proof. destruct ks as [|k ks]; cbn [map sum_ratios num_total]; [reflexivity | apply sum_ratios_from_nums]. Qed.

Lemma fractions_nums ce t : qzero t = false -> forall ks,
  fractions_of ce (map RNum ks) (TNum t) = Ok (map (fun k => qdiv k t) ks).
Proof.
  intros Ht. induction ks as [|k ks IH]; cbn [map fractions_of ratio_div]; [reflexivity|].
  rewrite Ht. cbn [bind]. rewrite IH. reflexivity.
Qed.

Lemma fractions_zero ce t : qzero t = true -> forall k ks,
  fractions_of ce (map RNum (k :: ks)) (TNum t) = Err EZeroDivision.
Proof. intros Ht k ks. cbn [map fractions_of ratio_div]. rewrite Ht. reflexivity. Qed.

Lemma qsum_div t ks : ~ t == 0 -> qsum (map (fun k => qdiv k t) ks) == qsum ks / t.
Proof.
  intros Ht. induction ks as [|k ks IH]; cbn [map qsum].
  - field. exact Ht.
  - rewrite IH, qdiv_ok. field. exact Ht.
Qed.

Theorem allocate_numbers ce dm self ks disperse : ~ qsum ks == 0 ->
  allocate ce dm self (map RNum ks) disperse = alloc_core ce dm self (num_fractions ks) disperse.
Proof.
  intros H. unfold allocate. rewrite sum_ratios_nums. cbn [bind].
  rewrite fractions_nums; [reflexivity|]. apply qzero_false. rewrite num_total_ok. exact H.
Qed.

Theorem allocate_numbers_zero_total ce dm self k ks disperse : qsum (k :: ks) == 0 ->
  allocate ce dm self (map RNum (k :: ks)) disperse = Err EZeroDivision.
Proof.
  intros H. unfold allocate. rewrite sum_ratios_nums. cbn [bind].
  rewrite fractions_zero; [reflexivity|]. apply qzero_iff. rewrite num_total_ok. exact H.
Qed.

Theorem allocate_empty ce dm self disperse : allocate ce dm self [] disperse = Err ETypeError.
Proof. reflexivity. Qed.

Lemma num_fractions_sum ks : ~ qsum ks == 0 -> qsum (num_fractions ks) == 1.
Proof.
  intros H. unfold num_fractions. rewrite qsum_div; [|rewrite num_total_ok; exact H].
  rewrite num_total_ok. field. exact H.
Qed.

(* fractions proportional to the values vs *)
Definition proportional (fs vs : list Q) : Prop :=
  Forall2 (fun f v => f == v / qsum vs) fs vs.

Lemma map_div_forall2 t T : t == T -> forall ks,
  Forall2 (fun f k => f == k / T) (map (fun k => qdiv k t) ks) ks.
Proof.
  intros Ht. induction ks as [|k ks IH]; cbn [map]; constructor; [|exact IH].
  rewrite qdiv_ok, Ht. reflexivity.
Qed.

Lemma num_fractions_proportional ks : proportional (num_fractions ks) ks.
Proof. apply map_div_forall2, num_total_ok. Qed.

Lemma forall2_div_sum T : ~ T == 0 -> forall fs vs,
  Forall2 (fun f v => f == v / T) fs vs -> qsum fs == qsum vs / T.
Proof.
  intros HT. induction 1 as [|f v fs vs Hf _ IH]; cbn [qsum].
  - field. exact HT.
  - rewrite Hf, IH. field. exact HT.
Qed.

Lemma proportional_sum fs vs : ~ qsum vs == 0 -> proportional fs vs -> qsum fs == 1.
Proof.
  intros H P. rewrite (forall2_div_sum (qsum vs) H fs vs P). field. exact H.
Qed.

Lemma proportional_nonempty fs vs : vs <> [] -> proportional fs vs -> fs <> [].
Proof. intros H P E. subst. inversion P. subst. contradiction. Qed.

Lemma Forall2_compose {A B C} (R : A -> B -> Prop) (S : B -> C -> Prop) (T : A -> C -> Prop) :
  (forall a b c, R a b -> S b c -> T a c) ->
  forall la lb lc, Forall2 R la lb -> Forall2 S lb lc -> Forall2 T la lc.
Proof.
  intros H la lb lc HR. revert lc. induction HR as [|a b la lb Hab _ IH]; intros lc HS;
    inversion HS; subst; constructor; [eapply H; eassumption | apply IH; assumption].
Qed.

Lemma forall2_len {A B} (R : A -> B -> Prop) l l' : Forall2 R l l' -> length l = length l'.
Proof. induction 1; cbn [length]; congruence. Qed.

Lemma positive_sum ks : ks <> [] -> Forall (fun k => 0 < k) ks -> 0 < qsum ks.
Proof.
  intros Hne H. destruct ks as [|k ks]; [contradiction|].
  inversion H as [|? ? Hk Hr]. subst. cbn [qsum].
  assert (0 <= qsum ks) by (apply qsum_nonneg; eapply Forall_impl; [|exact Hr]; intros x Hx; cbv beta in Hx; lra).
  lra.
Qed.

(* --- the property for fractions proportional to any values with a non-zero
   total (numbers and quantities are instances) --- *)
Theorem shares_no_quantum ce dm self fs vs disperse :
  u_quantum (q_unit self) = None -> vs <> [] -> ~ qsum vs == 0 -> proportional fs vs ->
  exists ps r, alloc_core ce dm self fs disperse = Ok (ps, r) /\
    Forall2 (fun p v => q_amt p == q_amt self * (v / qsum vs)) ps vs /\ q_amt r == 0.
Proof.
  intros EQ Hne Hs P.
  destruct (core_no_quantum ce dm self fs disperse EQ (proportional_nonempty _ _ Hne P)
                            (proportional_sum _ _ Hs P)) as (ps & r & H & F & Z).
  exists ps, r. split; [exact H|]. split; [|exact Z].
  apply (Forall2_compose _ _ _ (fun p f v (A : q_amt p == q_amt self * f) (B : f == v / qsum vs) =>
           Qeq_trans _ _ _ A (Qmult_comp _ _ (Qeq_refl _) _ _ B)) _ _ _ F P).
Qed.

Theorem shares_quantum ce dm self fs vs disperse qu :
  u_quantum (q_unit self) = Some qu -> 0 < qu -> ugrid (q_unit self) (q_amt self) ->
  vs <> [] -> ~ qsum vs == 0 -> proportional fs vs ->
  exists ps r, alloc_core ce dm self fs disperse = Ok (ps, r) /\
    Forall2 (fun p v => Qabs (q_amt p - q_amt self * (v / qsum vs)) < qu) ps vs /\
    (disperse = true -> q_amt r == 0) /\
    (disperse = false ->
       Qabs (q_amt r) < qcount vs * qu /\
       (half_mode dm = true -> Qabs (q_amt r) <= qcount vs * ((1 # 2) * qu))).
Proof.
  intros EQ Hq Ga Hne Hs P.
  destruct (core_quantum ce dm self fs disperse qu EQ Hq Ga (proportional_nonempty _ _ Hne P)
                         (proportional_sum _ _ Hs P)) as (ps & r & H & F & D1 & D2).
  exists ps, r. split; [exact H|]. split.
  - apply (Forall2_compose (fun p f => Qabs (q_amt p - q_amt self * f) < qu)
                           (fun f v => f == v / qsum vs) _) with (lb := fs); [|exact F|exact P].
    intros p f v A B. rewrite <- B. exact A.
  - split; [exact D1|]. intros Hd. destruct (D2 Hd) as (_ & B1 & B2).
    assert (EL : qcount fs = qcount vs).
    { unfold qcount. rewrite (forall2_len _ _ _ P). reflexivity. }
    rewrite <- EL. split; assumption.
Qed.

(* ------------------------------------------------------------------------ *)
(* 9. allocate                                                               *)
(* ------------------------------------------------------------------------ *)
Lemma fractions_of_length ce t : forall l fs, fractions_of ce l t = Ok fs -> length fs = length l.
Proof.
  induction l as [|x l IH]; intros fs H; cbn [fractions_of] in H.
  - injection H as <-. reflexivity.
  - destruct (ratio_div ce x t) as [f|e]; cbn [bind] in H; [|discriminate].
    destruct (fractions_of ce l t) as [fs'|e]; cbn [bind] in H; [|discriminate].
    injection H as <-. cbn [length]. rewrite (IH fs' eq_refl). reflexivity.
Qed.

(* --- conservation, unit, grid for EVERY successful allocation: any ratios
   (numbers or quantities, any sign), both flag values, quantized or not --- *)
Theorem allocate_basic ce dm self ratios disperse ps r :
  uq_ok (q_unit self) -> ugrid (q_unit self) (q_amt self) ->
  allocate ce dm self ratios disperse = Ok (ps, r) ->
  length ps = length ratios /\
  Forall (fun p => q_unit p = q_unit self) ps /\ q_unit r = q_unit self /\
  qsum (amts ps) + q_amt r == q_amt self /\
  Forall (fun p => ugrid (q_unit self) (q_amt p)) ps /\ ugrid (q_unit self) (q_amt r).
Proof.
  intros Hu Ga H. unfold allocate in H.
  destruct (sum_ratios ce dm ratios) as [t|e]; cbn [bind] in H; [|discriminate].
  destruct (fractions_of ce ratios t) as [fs|e] eqn:EF; cbn [bind] in H; [|discriminate].
  destruct (core_basic ce dm self fs disperse ps r Hu Ga H) as (L & R).
  split; [rewrite L; apply (fractions_of_length ce t _ _ EF) | exact R].
Qed.

(* --- number ratios --- *)
Theorem allocate_numbers_no_quantum ce dm self ks disperse :
  u_quantum (q_unit self) = None -> ks <> [] -> ~ qsum ks == 0 ->
  exists ps r, allocate ce dm self (map RNum ks) disperse = Ok (ps, r) /\
    Forall2 (fun p k => q_amt p == q_amt self * (k / qsum ks)) ps ks /\ q_amt r == 0.
Proof.
  intros EQ Hne Hs. rewrite (allocate_numbers ce dm self ks disperse Hs).
  apply shares_no_quantum; try assumption. apply num_fractions_proportional.
Qed.

Theorem allocate_numbers_quantum ce dm self ks disperse qu :
  u_quantum (q_unit self) = Some qu -> 0 < qu -> ugrid (q_unit self) (q_amt self) ->
  ks <> [] -> ~ qsum ks == 0 ->
  exists ps r, allocate ce dm self (map RNum ks) disperse = Ok (ps, r) /\
    Forall2 (fun p k => Qabs (q_amt p - q_amt self * (k / qsum ks)) < qu) ps ks /\
    (disperse = true -> q_amt r == 0) /\
    (disperse = false ->
       Qabs (q_amt r) < qcount ks * qu /\
       (half_mode dm = true -> Qabs (q_amt r) <= qcount ks * ((1 # 2) * qu))).
Proof.
  intros EQ Hq Ga Hne Hs. rewrite (allocate_numbers ce dm self ks disperse Hs).
  apply shares_quantum; try assumption. apply num_fractions_proportional.
Qed.

(* --- quantity ratios of one type with linear units (reference unit, non-zero
   scale).  The total is accumulated in the first ratio's unit through the
   constructor: either that unit is unquantized, or the ratio type is
   quantized and all ratios lie on one absolute grid Qc (the class quantum in
   reference units: unit quantum * scale = Qc), as every constructed
   quantity of a quantized type does. --- *)
Definition ratio_unit_ok (u0 : unit) (q : qty) : Prop :=
  lin (q_unit q) = true /\ same_cls u0 (q_unit q) = true.

Definition ratio_grid_ok (Qc : Q) (q : qty) : Prop :=
  exists qv, u_quantum (q_unit q) = Some qv /\ qv * scale (q_unit q) == Qc /\
             on_grid (q_amt q) qv.

Definition ratio_type_ok (q0 : qty) (qs : list qty) : Prop :=
  u_quantum (q_unit q0) = None \/
  exists Qc, ~ Qc == 0 /\ Forall (ratio_grid_ok Qc) (q0 :: qs).

Lemma sum_qty_ratios ce dm u0 : u_quantum u0 = None -> lin u0 = true ->
  forall qs acc, q_unit acc = u0 -> Forall (ratio_unit_ok u0) qs ->
  exists t, sum_ratios_from ce dm (TQty acc) (map RQty qs) = Ok (TQty t) /\
            q_unit t = u0 /\ refv t == refv acc + qsum (map refv qs).
Proof.
  intros Q0 L0. induction qs as [|x qs IH]; intros acc Ha H.
  - exists acc. cbn [map sum_ratios_from qsum]. split; [reflexivity|]. split; [exact Ha | ring].
  - pose proof (Forall_inv H) as [Lx Cx]. pose proof (Forall_inv_tail H) as Hr.
    destruct acc as [a u], x as [b v]. cbn [q_unit] in *. subst u.
    destruct (addsub_refv false ce dm a u0 b v L0 Lx Cx Q0) as (r & Hadd & Ur & Vr).
    cbn [map sum_ratios_from]. unfold qty_add. rewrite Hadd. cbn [bind].
    destruct (IH r Ur Hr) as (t & Ht & Ut & Vt).
    exists t. split; [exact Ht|]. split; [exact Ut|].
    rewrite Vt, Vr. cbn [pm map qsum]. ring.
Qed.

Lemma sum_qty_ratios_q ce dm u0 qu0 Qc : ~ Qc == 0 -> lin u0 = true ->
  u_quantum u0 = Some qu0 -> qu0 * scale u0 == Qc ->
  forall qs acc, q_unit acc = u0 -> on_grid (q_amt acc) qu0 ->
  Forall (ratio_unit_ok u0) qs -> Forall (ratio_grid_ok Qc) qs ->
  exists t, sum_ratios_from ce dm (TQty acc) (map RQty qs) = Ok (TQty t) /\
            q_unit t = u0 /\ refv t == refv acc + qsum (map refv qs).
Proof.
  intros NQ L0 Q0 G0.
  assert (Nq : ~ qu0 == 0) by (intros E; apply NQ; rewrite <- G0, E; ring).
  induction qs as [|x qs IH]; intros acc Ha Oa H HG.
  - exists acc. cbn [map sum_ratios_from qsum]. split; [reflexivity|]. split; [exact Ha | ring].
  - pose proof (Forall_inv H) as [Lx Cx]. pose proof (Forall_inv_tail H) as Hr.
    pose proof (Forall_inv HG) as (qv & Qv & Gv & Ov). pose proof (Forall_inv_tail HG) as HGr.
    destruct acc as [a u], x as [b v]. cbn [q_unit q_amt] in *. subst u.
    assert (GG : qu0 * scale u0 == qv * scale v) by (rewrite G0, Gv; reflexivity).
    destruct (addsub_quantized_exact false ce dm a u0 b v qu0 qv L0 Lx Cx Q0 Qv Nq GG Oa Ov)
      as (r & Hadd & Ur & Vr & Gr).
    cbn [map sum_ratios_from]. unfold qty_add. rewrite Hadd. cbn [bind].
    destruct (IH r Ur Gr Hr HGr) as (t & Ht & Ut & Vt).
    exists t. split; [exact Ht|]. split; [exact Ut|].
    rewrite Vt, Vr. cbn [pm map qsum]. ring.
Qed.

Lemma fractions_qty ce u0 t : lin u0 = true -> q_unit t = u0 -> ~ refv t == 0 ->
  forall qs, Forall (ratio_unit_ok u0) qs ->
  exists fs, fractions_of ce (map RQty qs) (TQty t) = Ok fs /\
             Forall2 (fun f q => f == refv q / refv t) fs qs.
Proof.
  intros L0 Ut Nt. induction qs as [|x qs IH]; intros H.
  - exists []. split; [reflexivity | constructor].
  - pose proof (Forall_inv H) as [Lx Cx]. pose proof (Forall_inv_tail H) as Hr.
    destruct (IH Hr) as (fs & Hfs & F2).
    destruct t as [a u], x as [b v]. cbn [q_unit] in *. subst u.
    destruct (equiv_amount_lin ce a u0 v L0 Lx Cx) as (a' & He & Ha').
    destruct (lin_scale u0 L0) as (_ & _ & N0), (lin_scale v Lx) as (_ & _ & Nv).
    assert (Na : ~ a' == 0).
    { intros E. apply Nt. unfold refv. cbn [q_amt q_unit].
      assert (X : a == a' * (scale v / scale u0)) by (rewrite Ha'; field; split; assumption).
      rewrite X, E. ring. }
    cbn [map fractions_of ratio_div q_unit q_amt].
    rewrite same_cls_sym, Cx, He. cbn [bind].
    apply qzero_false in Na. rewrite Na. cbn [bind]. rewrite Hfs. cbn [bind].
    eexists. split; [reflexivity|]. constructor; [|exact F2].
    unfold refv. cbn [q_amt q_unit]. rewrite qdiv_ok, Ha'. field.
    apply qzero_false in Na. repeat split; try assumption.
    intros E. apply Nt. unfold refv. cbn [q_amt q_unit]. nra.
Qed.

Lemma forall2_impl {A B} (R S : A -> B -> Prop) l l' :
  (forall a b, R a b -> S a b) -> Forall2 R l l' -> Forall2 S l l'.
Proof. intros H. induction 1; constructor; [apply H|]; assumption. Qed.

Lemma Forall2_map_r {A B C} (R : A -> C -> Prop) (g : B -> C) l l' :
  Forall2 (fun a b => R a (g b)) l l' -> Forall2 R l (map g l').
Proof. induction 1; cbn [map]; constructor; assumption. Qed.

Theorem allocate_quantities ce dm self q0 qs disperse :
  ratio_type_ok q0 qs -> Forall (ratio_unit_ok (q_unit q0)) (q0 :: qs) ->
  ~ qsum (map refv (q0 :: qs)) == 0 ->
  exists fs, proportional fs (map refv (q0 :: qs)) /\
    allocate ce dm self (map RQty (q0 :: qs)) disperse = alloc_core ce dm self fs disperse.
Proof.
  intros HT H Hs. pose proof (Forall_inv H) as [L0 _]. pose proof (Forall_inv_tail H) as Hr.
  assert (ST : exists t, sum_ratios_from ce dm (TQty q0) (map RQty qs) = Ok (TQty t) /\
                         q_unit t = q_unit q0 /\ refv t == refv q0 + qsum (map refv qs)).
  { destruct HT as [Q0 | (Qc & NQ & HG)].
    - apply (sum_qty_ratios ce dm (q_unit q0) Q0 L0 qs q0 eq_refl Hr).
    - pose proof (Forall_inv HG) as (qv & Qv & Gv & Ov). pose proof (Forall_inv_tail HG) as HGr.
      apply (sum_qty_ratios_q ce dm (q_unit q0) qv Qc NQ L0 Qv Gv qs q0 eq_refl Ov Hr HGr). }
  destruct ST as (t & Ht & Ut & Vt).
  assert (Vt' : refv t == qsum (map refv (q0 :: qs))) by (rewrite Vt; reflexivity).
  assert (Nt : ~ refv t == 0) by (rewrite Vt'; exact Hs).
  destruct (fractions_qty ce (q_unit q0) t L0 Ut Nt (q0 :: qs) H) as (fs & Hfs & F2).
  exists fs. split.
  - unfold proportional. apply Forall2_map_r.
    eapply forall2_impl; [|exact F2]. intros f q E. cbv beta in *. rewrite E, Vt'. reflexivity.
  - unfold allocate. cbn [map sum_ratios]. rewrite Ht. cbn [bind].
    change (RQty q0 :: map RQty qs) with (map RQty (q0 :: qs)). rewrite Hfs. reflexivity.
Qed.

(* --- quantity ratios that all carry one and the same unit (any type, with
   or without reference unit: e.g. money amounts in one currency) --- *)
Lemma sum_ratios_same_unit ce dm u0 : uq_ok u0 -> forall qs acc,
  q_unit acc = u0 -> ugrid u0 (q_amt acc) ->
  Forall (fun q => q_unit q = u0 /\ ugrid u0 (q_amt q)) qs ->
  exists t, sum_ratios_from ce dm (TQty acc) (map RQty qs) = Ok (TQty t) /\
            q_unit t = u0 /\ q_amt t == q_amt acc + qsum (amts qs).
Proof.
  intros Hu. induction qs as [|x qs IH]; intros acc Ha Ga H.
  - exists acc. cbn [map sum_ratios_from qsum]. split; [reflexivity|]. split; [exact Ha | ring].
  - pose proof (Forall_inv H) as [Ux Gx]. pose proof (Forall_inv_tail H) as Hr.
    cbn [map sum_ratios_from]. unfold qty_add.
    rewrite (addsub_same_unit false ce dm acc x u0 Ha Ux). cbn [bind].
    set (acc' := mk_qty dm (qadd (q_amt acc) (q_amt x)) u0).
    assert (Gq : ugrid u0 (qadd (q_amt acc) (q_amt x))).
    { apply (ugrid_compat _ (q_amt acc + q_amt x)); [symmetry; apply qadd_ok|].
      apply ugrid_add; assumption. }
    assert (Ea : q_amt acc' == q_amt acc + q_amt x).
    { unfold acc'. rewrite (mk_exact dm _ _ Hu Gq). apply qadd_ok. }
    destruct (IH acc' (mk_qty_unit _ _ _) (ugrid_mk _ _ _) Hr) as (t & Ht & Ut & Vt).
    exists t. split; [exact Ht|]. split; [exact Ut|].
    rewrite Vt, Ea. cbn [map qsum]. ring.
Qed.

Lemma fractions_same_unit ce u0 t : q_unit t = u0 -> ~ q_amt t == 0 ->
  forall qs, Forall (fun q => q_unit q = u0) qs ->
  fractions_of ce (map RQty qs) (TQty t) = Ok (map (fun q => qdiv (q_amt q) (q_amt t)) qs).
Proof.
  intros Ut Nt. apply qzero_false in Nt. induction qs as [|x qs IH]; intros H; [reflexivity|].
  pose proof (Forall_inv H) as Ux. pose proof (Forall_inv_tail H) as Hr.
  cbn [map fractions_of ratio_div]. rewrite Ux, Ut.
  unfold same_cls at 1. rewrite N.eqb_refl.
  unfold equiv_amount. rewrite Ut, unit_eq_refl. cbn [bind]. rewrite Nt. cbn [bind].
  rewrite (IH Hr). reflexivity.
Qed.

Theorem allocate_quantities_same_unit ce dm self q0 qs disperse :
  uq_ok (q_unit q0) ->
  Forall (fun q => q_unit q = q_unit q0 /\ ugrid (q_unit q0) (q_amt q)) (q0 :: qs) ->
  ~ qsum (amts (q0 :: qs)) == 0 ->
  exists fs, proportional fs (amts (q0 :: qs)) /\
    allocate ce dm self (map RQty (q0 :: qs)) disperse = alloc_core ce dm self fs disperse.
Proof.
  intros Hu H Hs. pose proof (Forall_inv H) as [_ G0]. pose proof (Forall_inv_tail H) as Hr.
  destruct (sum_ratios_same_unit ce dm (q_unit q0) Hu qs q0 eq_refl G0 Hr) as (t & Ht & Ut & Vt).
  assert (Vt' : q_amt t == qsum (amts (q0 :: qs))) by (rewrite Vt; reflexivity).
  assert (Nt : ~ q_amt t == 0) by (rewrite Vt'; exact Hs).
  assert (HU : Forall (fun q => q_unit q = q_unit q0) (q0 :: qs))
    by (eapply Forall_impl; [|exact H]; intros q [A _]; exact A).
  exists (map (fun q => qdiv (q_amt q) (q_amt t)) (q0 :: qs)). split.
  - unfold proportional. apply Forall2_map_r.
    generalize (q0 :: qs) at 2 3. intros l. induction l as [|x l IH]; cbn [map]; constructor; [|exact IH].
    rewrite qdiv_ok, Vt'. reflexivity.
  - unfold allocate. cbn [map sum_ratios]. rewrite Ht. cbn [bind].
    change (RQty q0 :: map RQty qs) with (map RQty (q0 :: qs)).
    rewrite (fractions_same_unit ce (q_unit q0) t Ut Nt _ HU). reflexivity.
Qed.

Theorem allocate_quantities_no_quantum ce dm self q0 qs disperse :
  ratio_type_ok q0 qs -> Forall (ratio_unit_ok (q_unit q0)) (q0 :: qs) ->
  ~ qsum (map refv (q0 :: qs)) == 0 ->
  u_quantum (q_unit self) = None ->
  exists ps r, allocate ce dm self (map RQty (q0 :: qs)) disperse = Ok (ps, r) /\
    Forall2 (fun p v => q_amt p == q_amt self * (v / qsum (map refv (q0 :: qs))))
            ps (map refv (q0 :: qs)) /\ q_amt r == 0.
Proof.
  intros Q0 H Hs EQ.
  destruct (allocate_quantities ce dm self q0 qs disperse Q0 H Hs) as (fs & P & E).
  rewrite E. apply shares_no_quantum; try assumption. discriminate.
Qed.

Theorem allocate_quantities_quantum ce dm self q0 qs disperse qu :
  ratio_type_ok q0 qs -> Forall (ratio_unit_ok (q_unit q0)) (q0 :: qs) ->
  ~ qsum (map refv (q0 :: qs)) == 0 ->
  u_quantum (q_unit self) = Some qu -> 0 < qu -> ugrid (q_unit self) (q_amt self) ->
  exists ps r, allocate ce dm self (map RQty (q0 :: qs)) disperse = Ok (ps, r) /\
    Forall2 (fun p v => Qabs (q_amt p - q_amt self * (v / qsum (map refv (q0 :: qs)))) < qu)
            ps (map refv (q0 :: qs)) /\
    (disperse = true -> q_amt r == 0) /\
    (disperse = false ->
       Qabs (q_amt r) < qcount (map refv (q0 :: qs)) * qu /\
       (half_mode dm = true ->
        Qabs (q_amt r) <= qcount (map refv (q0 :: qs)) * ((1 # 2) * qu))).
Proof.
  intros Q0 H Hs EQ Hq Ga.
  destruct (allocate_quantities ce dm self q0 qs disperse Q0 H Hs) as (fs & P & E).
  rewrite E. apply shares_quantum; try assumption. discriminate.
Qed.

(* ------------------------------------------------------------------------ *)
(* 10. the statements of Properties/C06.v                                    *)
(* ------------------------------------------------------------------------ *)
Lemma p_conservation ce dm self ratios disperse ps r :
  uq_ok (q_unit self) -> ugrid (q_unit self) (q_amt self) ->
  allocate ce dm self ratios disperse = Ok (ps, r) ->
  qsum (amts ps) + q_amt r == q_amt self.
Proof. intros Hu Ga H. apply (allocate_basic ce dm self ratios disperse ps r Hu Ga H). Qed.

Lemma p_unit_type ce dm self ratios disperse ps r :
  uq_ok (q_unit self) -> ugrid (q_unit self) (q_amt self) ->
  allocate ce dm self ratios disperse = Ok (ps, r) ->
  length ps = length ratios /\
  Forall (fun p => q_unit p = q_unit self) ps /\ q_unit r = q_unit self.
Proof.
  intros Hu Ga H. destruct (allocate_basic ce dm self ratios disperse ps r Hu Ga H) as (A & B & C & _).
  repeat split; assumption.
Qed.

Lemma p_on_grid ce dm self ratios disperse ps r qu :
  u_quantum (q_unit self) = Some qu -> 0 < qu -> on_grid (q_amt self) qu ->
  allocate ce dm self ratios disperse = Ok (ps, r) ->
  Forall (fun p => on_grid (q_amt p) qu) ps /\ on_grid (q_amt r) qu.
Proof.
  intros EQ Hq Ga H.
  assert (Hu : uq_ok (q_unit self)) by (unfold uq_ok; rewrite EQ; exact Hq).
  assert (Ga' : ugrid (q_unit self) (q_amt self)) by (unfold ugrid; rewrite EQ; exact Ga).
  destruct (allocate_basic ce dm self ratios disperse ps r Hu Ga' H) as (_ & _ & _ & _ & G1 & G2).
  unfold ugrid in G1, G2. rewrite EQ in G1, G2. split; assumption.
Qed.

(* every constructed receiver satisfies the grid hypothesis *)
Lemma p_receiver_constructed dm x u : ugrid u (q_amt (mk_qty dm x u)).
Proof. apply ugrid_mk. Qed.

Lemma p_positive_total ks : ks <> [] -> Forall (fun k => 0 < k) ks -> ~ qsum ks == 0.
Proof. intros A B E. pose proof (positive_sum ks A B). lra. Qed.

Lemma p_dispersed_zero ce dm self ks ps r qu :
  u_quantum (q_unit self) = Some qu -> 0 < qu -> on_grid (q_amt self) qu ->
  ks <> [] -> ~ qsum ks == 0 ->
  allocate ce dm self (map RNum ks) true = Ok (ps, r) -> q_amt r == 0.
Proof.
  intros EQ Hq Ga Hne Hs H.
  assert (Ga' : ugrid (q_unit self) (q_amt self)) by (unfold ugrid; rewrite EQ; exact Ga).
  destruct (allocate_numbers_quantum ce dm self ks true qu EQ Hq Ga' Hne Hs)
    as (ps' & r' & H' & _ & D & _).
  rewrite H in H'. injection H' as -> ->. apply D. reflexivity.
Qed.

Lemma p_not_dispersed_bound ce dm self ks ps r qu :
  u_quantum (q_unit self) = Some qu -> 0 < qu -> on_grid (q_amt self) qu ->
  ks <> [] -> ~ qsum ks == 0 ->
  allocate ce dm self (map RNum ks) false = Ok (ps, r) ->
  Qabs (q_amt r) < qcount ks * qu /\
  (half_mode dm = true -> Qabs (q_amt r) <= qcount ks * ((1 # 2) * qu)).
Proof.
  intros EQ Hq Ga Hne Hs H.
  assert (Ga' : ugrid (q_unit self) (q_amt self)) by (unfold ugrid; rewrite EQ; exact Ga).
  destruct (allocate_numbers_quantum ce dm self ks false qu EQ Hq Ga' Hne Hs)
    as (ps' & r' & H' & _ & _ & D).
  rewrite H in H'. injection H' as -> ->. apply D. reflexivity.
Qed.

Lemma p_grid_and_bound ce dm self ks disperse qu :
  u_quantum (q_unit self) = Some qu -> 0 < qu -> on_grid (q_amt self) qu ->
  ks <> [] -> ~ qsum ks == 0 ->
  exists ps r, allocate ce dm self (map RNum ks) disperse = Ok (ps, r) /\
    Forall (fun p => on_grid (q_amt p) qu) ps /\
    Forall2 (fun p k => Qabs (q_amt p - q_amt self * (k / qsum ks)) < qu) ps ks.
Proof.
  intros EQ Hq Ga Hne Hs.
  assert (Ga' : ugrid (q_unit self) (q_amt self)) by (unfold ugrid; rewrite EQ; exact Ga).
  destruct (allocate_numbers_quantum ce dm self ks disperse qu EQ Hq Ga' Hne Hs)
    as (ps & r & H & F & _).
  exists ps, r. split; [exact H|]. split; [|exact F].
  apply (p_on_grid ce dm self _ disperse ps r qu EQ Hq Ga H).
Qed.

(* error branches *)
Lemma p_mixed_number_quantity ce dm self k q l disperse :
  allocate ce dm self (RNum k :: RQty q :: l) disperse = Err ETypeError /\
  allocate ce dm self (RQty q :: RNum k :: l) disperse = Err ETypeError.
Proof. split; reflexivity. Qed.

Lemma p_other_type ce dm self p q l disperse : same_cls (q_unit p) (q_unit q) = false ->
  allocate ce dm self (RQty p :: RQty q :: l) disperse = Err EIncompatibleUnits.
Proof.
  intros H. unfold allocate. cbn [sum_ratios sum_ratios_from]. unfold qty_add, qty_addsub.
  rewrite H. reflexivity.
Qed.
