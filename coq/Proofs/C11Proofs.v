(* Proofs/C11Proofs.v — the money converter refines "last accepted entry for
   exactly (period, currency)" for ALL update histories. *)
From Coq Require Import ZArith QArith List Bool Lia.
From QV Require Import Model.MoneyConv.
Import ListNotations.
Open Scope Z_scope.

(* ================================================================= equality *)

Lemma validity_eqb_eq a b : validity_eqb a b = true <-> a = b.
Proof.
  split.
  - destruct a, b; simpl; try discriminate; intros H; try reflexivity;
      repeat (apply andb_true_iff in H; destruct H as [H ?]);
      repeat match goal with
             | X : (_ =? _) = true |- _ => apply Z.eqb_eq in X
             | X : N.eqb _ _ = true |- _ => apply N.eqb_eq in X
             end; subst; reflexivity.
  - intros <-. destruct a; simpl; rewrite ?Z.eqb_refl, ?N.eqb_refl; reflexivity.
Qed.

Lemma validity_eqb_refl a : validity_eqb a a = true.
Proof. apply validity_eqb_eq; reflexivity. Qed.

Lemma validity_eqb_neq a b : a <> b -> validity_eqb a b = false.
Proof.
  intros H. destruct (validity_eqb a b) eqn:E; [|reflexivity].
  apply validity_eqb_eq in E. contradiction.
Qed.

Lemma kind_eqb_eq a b : kind_eqb a b = true <-> a = b.
Proof. destruct a, b; simpl; split; intros; try reflexivity; discriminate. Qed.

Lemma key_eqb_eq a b : key_eqb a b = true <-> a = b.
Proof.
  destruct a as [v c], b as [v' c']. unfold key_eqb. simpl.
  rewrite andb_true_iff, validity_eqb_eq, N.eqb_eq.
  split; [intros [-> ->]; reflexivity | intros H; inversion H; auto].
Qed.

(* ================================================================= tables *)

Lemma tbl_update_rev t es : tbl_update t es = rev es ++ t.
Proof.
  revert t. induction es as [|[k r] es IH]; intros t; simpl; [reflexivity|].
  rewrite IH. unfold tbl_set. rewrite <- app_assoc. reflexivity.
Qed.

Lemma tbl_get_app t1 t2 k :
  tbl_get (t1 ++ t2) k =
  match tbl_get t1 k with Some r => Some r | None => tbl_get t2 k end.
Proof.
  induction t1 as [|[k' r] t1 IH]; simpl; [reflexivity|].
  destruct (key_eqb k' k); [reflexivity|exact IH].
Qed.

(* ================================================================= the spec *)

(* an update that went through: its normalised period and the rates it built *)
Record accepted_update := mkAU { au_v : validity; au_rates : list rate }.

(* the entries of a history in the order they were given *)
Definition flat (h : list accepted_update) : list (key * rate) :=
  flat_map (fun a => keyed (au_v a) (au_rates a)) h.

(* the LAST entry of l for exactly the key k *)
Fixpoint last_match (l : list (key * rate)) (k : key) : option rate :=
  match l with
  | [] => None
  | (k', r) :: l' =>
      match last_match l' k with
      | Some x => Some x
      | None => if key_eqb k' k then Some r else None
      end
  end.

Definition spec_lookup (h : list accepted_update) (v : validity) (c : N) : option rate :=
  last_match (flat h) (v, c).

(* the kind of validity the converter is committed to *)
Fixpoint spec_kind_from (k : option kind) (h : list accepted_update) : option kind :=
  match h with
  | [] => k
  | a :: r => spec_kind_from (Some (kind_of (au_v a))) r
  end.
Definition spec_kind (h : list accepted_update) : option kind := spec_kind_from None h.

(* which updates of a history are accepted: the validity is well-formed, of the
   kind the converter is committed to (if any), and every entry yields a rate *)
Definition accept (b : N) (k : option kind) (u : upd) : option accepted_update :=
  match norm_validity (up_v u) with
  | Ok nv =>
      if kind_ok k nv then
        match build_rates (up_dm u) b (up_entries u) with
        | Ok rs => Some (mkAU nv rs)
        | Err _ => None
        end
      else None
  | Err _ => None
  end.

Fixpoint accepted_from (b : N) (k : option kind) (h : list upd) : list accepted_update :=
  match h with
  | [] => []
  | u :: r =>
      match accept b k u with
      | Some a => a :: accepted_from b (Some (kind_of (au_v a))) r
      | None => accepted_from b k r
      end
  end.

Definition accepted (b : N) (h : list upd) : list accepted_update := accepted_from b None h.

(* the stored rate the spec prescribes for currency c and an effective date *)
Definition spec_rate_for (h : list accepted_update) (effective : option date) (dflt : date)
           (c : N) : option rate :=
  match spec_kind h with
  | None => None
  | Some k =>
      match date2validity k (eff_date effective dflt) with
      | None => None
      | Some v => spec_lookup h v c
      end
  end.

(* a date lies in a period *)
Definition in_period (v : validity) (d : date) : Prop :=
  match v with
  | KNone => True
  | KYear y => d_y d = y
  | KMonth y m => d_y d = y /\ d_m d = m
  | KDay y m dd => d_y d = y /\ d_m d = m /\ d_d d = dd
  | KBool | KDateTime _ _ _ _ => False
  end.

Definition proper_kind (k : kind) : Prop :=
  match k with KdNone | KdYear | KdMonth | KdDay => True | _ => False end.

(* ================================================================= refinement *)

Lemma last_match_app l1 l2 k :
  last_match (l1 ++ l2) k =
  match last_match l2 k with Some r => Some r | None => last_match l1 k end.
Proof.
  induction l1 as [|[k' r] l1 IH]; simpl.
  - destruct (last_match l2 k); reflexivity.
  - rewrite IH. destruct (last_match l2 k); reflexivity.
Qed.

Lemma tbl_get_rev l k : tbl_get (rev l) k = last_match l k.
Proof.
  induction l as [|[k' r] l IH]; simpl; [reflexivity|].
  rewrite tbl_get_app, IH. simpl.
  destruct (last_match l k); [reflexivity|].
  destruct (key_eqb k' k); reflexivity.
Qed.

Lemma apply_upd_accept st u :
  apply_upd st u =
  match accept (cv_base st) (cv_kind st) u with
  | Some a => mkConv (cv_base st) (Some (kind_of (au_v a)))
                     (rev (keyed (au_v a) (au_rates a)) ++ cv_table st)
  | None => st
  end.
Proof.
  unfold apply_upd, conv_update, accept.
  destruct (norm_validity (up_v u)) as [nv|e]; [|reflexivity].
  destruct (kind_ok (cv_kind st) nv); simpl; [|reflexivity].
  destruct (build_rates (up_dm u) (cv_base st) (up_entries u)) as [rs|e]; simpl; [|reflexivity].
  rewrite tbl_update_rev. reflexivity.
Qed.

Lemma run_spec h : forall st,
  run h st =
  mkConv (cv_base st)
         (spec_kind_from (cv_kind st) (accepted_from (cv_base st) (cv_kind st) h))
         (rev (flat (accepted_from (cv_base st) (cv_kind st) h)) ++ cv_table st).
Proof.
  induction h as [|u h IH]; intros st.
  - destruct st; reflexivity.
  - unfold run. simpl fold_left. fold (run h (apply_upd st u)).
    rewrite IH, apply_upd_accept. simpl accepted_from.
    destruct (accept (cv_base st) (cv_kind st) u) as [a|]; simpl; [|reflexivity].
    f_equal. unfold flat at 2. simpl flat_map. fold (flat (accepted_from (cv_base st) (Some (kind_of (au_v a))) h)).
    rewrite rev_app_distr, <- app_assoc. reflexivity.
Qed.

Lemma run_base h st : cv_base (run h st) = cv_base st.
Proof. rewrite run_spec. reflexivity. Qed.

Lemma refines b h v c :
  tbl_get (cv_table (run h (conv_init b))) (v, c) = spec_lookup (accepted b h) v c.
Proof.
  rewrite run_spec. simpl. rewrite app_nil_r, tbl_get_rev. reflexivity.
Qed.

Lemma refines_kind b h : cv_kind (run h (conv_init b)) = spec_kind (accepted b h).
Proof. rewrite run_spec. reflexivity. Qed.

Lemma lookup_rate_spec b h c eff dflt :
  lookup_rate (run h (conv_init b)) c eff dflt = spec_rate_for (accepted b h) eff dflt c.
Proof.
  unfold lookup_rate, spec_rate_for. rewrite refines_kind.
  destruct (spec_kind (accepted b h)) as [k|]; [|reflexivity].
  destruct (date2validity k (eff_date eff dflt)) as [v|]; [|reflexivity].
  apply refines.
Qed.

(* ---- the four cases of get_rate, in terms of the spec ---- *)

Lemma get_rate_direct b h dm t eff dflt :
  t <> b ->
  conv_get_rate (run h (conv_init b)) dm b t eff dflt
  = Ok (spec_rate_for (accepted b h) eff dflt t).
Proof.
  intros Ht. unfold conv_get_rate.
  destruct (N.eqb b t) eqn:E; [apply N.eqb_eq in E; congruence|].
  rewrite run_base. simpl. rewrite N.eqb_refl, lookup_rate_spec. reflexivity.
Qed.

Lemma get_rate_inverse b h dm u eff dflt :
  u <> b ->
  conv_get_rate (run h (conv_init b)) dm u b eff dflt
  = match spec_rate_for (accepted b h) eff dflt u with
    | None => Ok None
    | Some r => some_rate (inverted dm r)
    end.
Proof.
  intros Hu. unfold conv_get_rate.
  destruct (N.eqb u b) eqn:E; [apply N.eqb_eq in E; congruence|].
  rewrite run_base. simpl.
  destruct (N.eqb b u) eqn:E2; [apply N.eqb_eq in E2; congruence|].
  rewrite N.eqb_refl, lookup_rate_spec. reflexivity.
Qed.

Lemma get_rate_cross b h dm u t eff dflt :
  u <> b -> t <> b -> u <> t ->
  conv_get_rate (run h (conv_init b)) dm u t eff dflt
  = match spec_rate_for (accepted b h) eff dflt u with
    | None => Ok None
    | Some ur =>
        match spec_rate_for (accepted b h) eff dflt t with
        | None => Ok None
        | Some tr => some_rate (mk_rate dm u 1 t (qdiv (rate_of tr) (rate_of ur)))
        end
    end.
Proof.
  intros Hu Ht Hut. unfold conv_get_rate.
  destruct (N.eqb u t) eqn:E; [apply N.eqb_eq in E; congruence|].
  rewrite run_base. simpl.
  destruct (N.eqb b u) eqn:E2; [apply N.eqb_eq in E2; congruence|].
  destruct (N.eqb b t) eqn:E3; [apply N.eqb_eq in E3; congruence|].
  rewrite !lookup_rate_spec. reflexivity.
Qed.

Lemma get_rate_quotient b h dm u t eff dflt ur tr :
  u <> b -> t <> b -> u <> t ->
  spec_rate_for (accepted b h) eff dflt u = Some ur ->
  spec_rate_for (accepted b h) eff dflt t = Some tr ->
  conv_get_rate (run h (conv_init b)) dm u t eff dflt
  = some_rate (mk_rate dm u 1 t (qdiv (rate_of tr) (rate_of ur))).
Proof.
  intros Hu Ht Hut Eu Et. rewrite get_rate_cross by assumption. rewrite Eu, Et. reflexivity.
Qed.

(* None when a needed entry is missing *)
Lemma get_rate_none b h dm u t eff dflt :
  u <> t ->
  (u <> b /\ spec_rate_for (accepted b h) eff dflt u = None) \/
  (t <> b /\ spec_rate_for (accepted b h) eff dflt t = None) ->
  conv_get_rate (run h (conv_init b)) dm u t eff dflt = Ok None.
Proof.
  intros Hut H.
  destruct (N.eq_dec u b) as [->|Hu].
  - destruct H as [[H _]|[Ht E]]; [congruence|].
    rewrite get_rate_direct by assumption. rewrite E. reflexivity.
  - destruct (N.eq_dec t b) as [->|Ht].
    + destruct H as [[_ E]|[H _]]; [|congruence].
      rewrite get_rate_inverse by assumption. rewrite E. reflexivity.
    + rewrite get_rate_cross by assumption.
      destruct H as [[_ E]|[_ E]]; rewrite E; [reflexivity|].
      destruct (spec_rate_for (accepted b h) eff dflt u); reflexivity.
Qed.

(* ---- identity: the code raises (finding F8) ---- *)

Lemma get_rate_identity st dm c eff dflt :
  conv_get_rate st dm c c eff dflt = Err EValueError.
Proof.
  unfold conv_get_rate, mk_rate. rewrite N.eqb_refl. reflexivity.
Qed.

(* the property's clause "one for a currency and itself", at full strength *)
Definition identity_statement : Prop :=
  forall st dm c eff dflt,
    exists r, conv_get_rate st dm c c eff dflt = Ok (Some r) /\ rate_of r == 1.

Lemma identity_refuted : ~ identity_statement.
Proof.
  intros H. destruct (H (conv_init 0%N) MHEVEN 1%N None (mkDate 2020 3 15)) as [r [E _]].
  rewrite get_rate_identity in E. discriminate.
Qed.

(* ---- default date, call ---- *)

Lemma default_date st dm u t dflt :
  conv_get_rate st dm u t None dflt = conv_get_rate st dm u t (Some dflt) dflt.
Proof. reflexivity. Qed.

Lemma call_spec st dm u a t eff dflt :
  conv_call st dm u a t eff dflt =
  match conv_get_rate st dm u t eff dflt with
  | Err e => Err e
  | Ok None => Err EUnitConversion
  | Ok (Some r) => Ok (qmul (rate_of r) a)
  end.
Proof. reflexivity. Qed.

Lemma call_exact st dm u a t eff dflt r :
  conv_get_rate st dm u t eff dflt = Ok (Some r) ->
  exists q, conv_call st dm u a t eff dflt = Ok q /\ q == a * rate_of r.
Proof.
  intros E. unfold conv_call. rewrite E. eexists. split; [reflexivity|].
  unfold qmul. rewrite Qred_correct. ring.
Qed.

Lemma call_no_rate st dm u a t eff dflt :
  conv_get_rate st dm u t eff dflt = Ok None ->
  conv_call st dm u a t eff dflt = Err EUnitConversion.
Proof. intros E. unfold conv_call. rewrite E. reflexivity. Qed.

(* ---- rejected updates ---- *)

Lemma failed_update_unchanged st v es dm st' e :
  conv_update st v es dm = (st', Some e) -> st' = st.
Proof.
  unfold conv_update.
  destruct (norm_validity v) as [nv|e0]; [|intros H; inversion H; reflexivity].
  destruct (negb (kind_ok (cv_kind st) nv)); [intros H; inversion H; reflexivity|].
  destruct (build_rates dm (cv_base st) es); intros H; inversion H; reflexivity.
Qed.

Lemma mixed_kind_rejected st v es dm nv k :
  cv_kind st = Some k -> norm_validity v = Ok nv -> kind_of nv <> k ->
  conv_update st v es dm = (st, Some EValueError).
Proof.
  intros Hk Hv Hne. unfold conv_update. rewrite Hv, Hk. simpl.
  destruct (kind_eqb k (kind_of nv)) eqn:E; [apply kind_eqb_eq in E; congruence|].
  reflexivity.
Qed.

Lemma bad_validity_rejected st v es dm e :
  norm_validity v = Err e -> conv_update st v es dm = (st, Some e).
Proof. intros H. unfold conv_update. rewrite H. reflexivity. Qed.

Lemma bad_entry_rejected st v es dm e nv :
  norm_validity v = Ok nv -> kind_ok (cv_kind st) nv = true ->
  build_rates dm (cv_base st) es = Err e ->
  conv_update st v es dm = (st, Some e).
Proof. intros H1 H2 H3. unfold conv_update. rewrite H1, H2, H3. reflexivity. Qed.

(* a rejected entry anywhere in the list makes build_rates fail *)
Lemma build_rates_rejects dm b es1 x es2 e :
  entry_rate dm b x = Err e -> exists e', build_rates dm b (es1 ++ x :: es2) = Err e'.
Proof.
  intros H. induction es1 as [|y es1 [e' IH]]; simpl.
  - rewrite H. eauto.
  - destruct (entry_rate dm b y); [|eauto]. rewrite IH. eauto.
Qed.

(* an accepted update stores exactly the rates ExchangeRate builds, keyed by
   the normalised validity and the rate's term currency *)
Lemma accepted_update_effect st v es dm st' :
  conv_update st v es dm = (st', None) ->
  exists nv rs, norm_validity v = Ok nv /\ build_rates dm (cv_base st) es = Ok rs /\
                kind_ok (cv_kind st) nv = true /\
                st' = mkConv (cv_base st) (Some (kind_of nv))
                             (rev (keyed nv rs) ++ cv_table st).
Proof.
  unfold conv_update.
  destruct (norm_validity v) as [nv|e0]; [|discriminate].
  destruct (kind_ok (cv_kind st) nv) eqn:Ek; simpl; [|discriminate].
  destruct (build_rates dm (cv_base st) es) as [rs|]; [|discriminate].
  intros H. inversion H. exists nv, rs. rewrite tbl_update_rev. auto.
Qed.

(* ---- periods ---- *)

Lemma date_in_period k d v :
  date2validity k d = Some v -> in_period v d /\ kind_of v = k.
Proof.
  destruct k; simpl; intros H; inversion H; simpl; auto.
Qed.

Lemma period_unique k d v :
  proper_kind k -> kind_of v = k -> in_period v d -> date2validity k d = Some v.
Proof.
  intros Hp Hk Hin. destruct v; simpl in *; subst k; simpl in *; try contradiction.
  - reflexivity.
  - subst. reflexivity.
  - destruct Hin as [-> ->]. reflexivity.
  - destruct Hin as [-> [-> ->]]. reflexivity.
Qed.

(* ---- entries for other periods never influence the result ---- *)

Lemma tbl_get_keyed_other nv rs v c :
  nv <> v -> tbl_get (rev (keyed nv rs)) (v, c) = None.
Proof.
  intros H. rewrite tbl_get_rev. unfold keyed.
  induction rs as [|r rs IH]; simpl; [reflexivity|].
  rewrite IH. unfold key_eqb. simpl. rewrite validity_eqb_neq by assumption. reflexivity.
Qed.

(* reachable states: while no kind is fixed the table is empty *)
Definition wf (st : cstate) : Prop := cv_kind st = None -> cv_table st = [].

Lemma wf_init b : wf (conv_init b).
Proof. intros _. reflexivity. Qed.

Lemma wf_apply st u : wf st -> wf (apply_upd st u).
Proof.
  intros H. rewrite apply_upd_accept.
  destruct (accept (cv_base st) (cv_kind st) u); [|assumption].
  intros Hk. discriminate.
Qed.

Lemma wf_run h : forall st, wf st -> wf (run h st).
Proof.
  induction h as [|u h IH]; intros st H; [exact H|].
  unfold run. simpl. apply IH. apply wf_apply. exact H.
Qed.

Lemma kind_ok_some k nv : kind_ok (Some k) nv = true -> kind_of nv = k.
Proof. simpl. intros H. apply kind_eqb_eq in H. auto. Qed.

Lemma lookup_other_period st v es dm st' nv c eff dflt :
  wf st ->
  conv_update st v es dm = (st', None) ->
  norm_validity v = Ok nv ->
  date2validity (kind_of nv) (eff_date eff dflt) <> Some nv ->
  lookup_rate st' c eff dflt = lookup_rate st c eff dflt.
Proof.
  intros Hwf Hu Hv Hd.
  apply accepted_update_effect in Hu. destruct Hu as [nv' [rs [Hv' [_ [Hk ->]]]]].
  rewrite Hv in Hv'. inversion Hv'; subst nv'. clear Hv'.
  unfold lookup_rate. simpl.
  destruct (date2validity (kind_of nv) (eff_date eff dflt)) as [vd|] eqn:Ed.
  - rewrite tbl_get_app, tbl_get_keyed_other by congruence.
    destruct (cv_kind st) as [k|] eqn:Eks.
    + apply kind_ok_some in Hk. subst k. rewrite Ed. reflexivity.
    + rewrite (Hwf Eks). reflexivity.
  - destruct (cv_kind st) as [k|] eqn:Eks; [|reflexivity].
    apply kind_ok_some in Hk. subst k. rewrite Ed. reflexivity.
Qed.

Lemma get_rate_ext st1 st2 dm u t eff dflt :
  cv_base st1 = cv_base st2 ->
  (forall c, lookup_rate st1 c eff dflt = lookup_rate st2 c eff dflt) ->
  conv_get_rate st1 dm u t eff dflt = conv_get_rate st2 dm u t eff dflt.
Proof.
  intros Hb Hl. unfold conv_get_rate. rewrite Hb, !Hl. reflexivity.
Qed.

Lemma other_period_step st v es dm st' nv qdm u t eff dflt :
  wf st ->
  conv_update st v es dm = (st', None) ->
  norm_validity v = Ok nv ->
  date2validity (kind_of nv) (eff_date eff dflt) <> Some nv ->
  conv_get_rate st' qdm u t eff dflt = conv_get_rate st qdm u t eff dflt.
Proof.
  intros Hwf Hu Hv Hd. apply get_rate_ext.
  - apply accepted_update_effect in Hu. destruct Hu as [? [? [_ [_ [_ ->]]]]]. reflexivity.
  - intros c. eapply lookup_other_period; eauto.
Qed.

(* on the level of the spec: dropping an accepted update for another period *)
Lemma spec_lookup_other h1 a h2 v c :
  au_v a <> v ->
  spec_lookup (h1 ++ a :: h2) v c = spec_lookup (h1 ++ h2) v c.
Proof.
  intros H. unfold spec_lookup, flat. rewrite !flat_map_app. simpl flat_map.
  rewrite !last_match_app.
  assert (E : last_match (keyed (au_v a) (au_rates a)) (v, c) = None).
  { rewrite <- tbl_get_rev. apply tbl_get_keyed_other. exact H. }
  rewrite E.
  destruct (last_match (flat_map (fun a0 => keyed (au_v a0) (au_rates a0)) h2) (v, c)); reflexivity.
Qed.

(* two converters that agree on base, kind and the answers for one date keep
   agreeing under the same updates *)
Definition agree (eff : option date) (dflt : date) (s1 s2 : cstate) : Prop :=
  cv_base s1 = cv_base s2 /\ cv_kind s1 = cv_kind s2 /\ wf s1 /\ wf s2 /\
  forall c, lookup_rate s1 c eff dflt = lookup_rate s2 c eff dflt.

Lemma agree_apply eff dflt s1 s2 u :
  agree eff dflt s1 s2 -> agree eff dflt (apply_upd s1 u) (apply_upd s2 u).
Proof.
  intros (Hb & Hk & W1 & W2 & Hl).
  pose proof (wf_apply s1 u W1) as W1'. pose proof (wf_apply s2 u W2) as W2'.
  rewrite !apply_upd_accept in *. rewrite <- Hb, <- Hk in *.
  destruct (accept (cv_base s1) (cv_kind s1) u) as [a|] eqn:Ea.
  - repeat split; auto. intros c. unfold lookup_rate. simpl.
    destruct (date2validity (kind_of (au_v a)) (eff_date eff dflt)) as [vd|] eqn:Ed; [|reflexivity].
    rewrite !tbl_get_app.
    destruct (tbl_get (rev (keyed (au_v a) (au_rates a))) (vd, c)); [reflexivity|].
    specialize (Hl c). unfold lookup_rate in Hl. rewrite <- Hk in Hl.
    unfold accept in Ea.
    destruct (norm_validity (up_v u)) as [nv|]; [|discriminate].
    destruct (kind_ok (cv_kind s1) nv) eqn:Eok; [|discriminate].
    destruct (build_rates (up_dm u) (cv_base s1) (up_entries u)); [|discriminate].
    inversion Ea; subst a; simpl in *.
    destruct (cv_kind s1) as [k|] eqn:Ek1.
    + apply kind_ok_some in Eok. subst k. rewrite Ed in Hl. exact Hl.
    + rewrite (W1 Ek1), (W2 (eq_sym Hk)). reflexivity.
  - repeat split; auto.
Qed.

Lemma agree_run eff dflt h : forall s1 s2,
  agree eff dflt s1 s2 -> agree eff dflt (run h s1) (run h s2).
Proof.
  induction h as [|u h IH]; intros s1 s2 H; [exact H|].
  unfold run. simpl. apply IH. apply agree_apply. exact H.
Qed.

Lemma run_app h1 h2 st : run (h1 ++ h2) st = run h2 (run h1 st).
Proof. unfold run. apply fold_left_app. Qed.

(* removing from ANY history an update for a period that does not contain the
   date (or a rejected one) changes no answer — provided the converter was
   already committed to a kind of validity when the update was made *)
Lemma other_periods_history b h1 u h2 qdm c t eff dflt :
  cv_kind (run h1 (conv_init b)) <> None ->
  (forall nv, norm_validity (up_v u) = Ok nv ->
              date2validity (kind_of nv) (eff_date eff dflt) <> Some nv) ->
  conv_get_rate (run (h1 ++ u :: h2) (conv_init b)) qdm c t eff dflt
  = conv_get_rate (run (h1 ++ h2) (conv_init b)) qdm c t eff dflt.
Proof.
  intros Hk Hother.
  rewrite !run_app. change (run (u :: h2) ?s) with (run h2 (apply_upd s u)).
  set (s := run h1 (conv_init b)) in *.
  assert (Ws : wf s) by (apply wf_run, wf_init).
  assert (A : agree eff dflt (apply_upd s u) s).
  { unfold apply_upd.
    destruct (conv_update s (up_v u) (up_entries u) (up_dm u)) as [s' [e|]] eqn:E; simpl.
    - apply failed_update_unchanged in E. subst s'. repeat split; auto.
    - pose proof E as E'. apply accepted_update_effect in E'.
      destruct E' as [nv [rs [Hv [_ [Hok Hs']]]]].
      assert (W' : wf s') by (subst s'; intros X; discriminate).
      repeat split; auto.
      + subst s'. reflexivity.
      + subst s'. simpl. destruct (cv_kind s) as [k|] eqn:Eks; [|congruence].
        apply kind_ok_some in Hok. congruence.
      + intros x. eapply lookup_other_period; eauto. }
  apply (agree_run eff dflt h2) in A. destruct A as (Hb & _ & _ & _ & Hl).
  apply get_rate_ext; assumption.
Qed.

(* the reported stored rate stems from an accepted entry whose period contains
   the date *)
Lemma last_match_in l k r : last_match l k = Some r -> In (k, r) l.
Proof.
  induction l as [|[k' r'] l IH]; simpl; [discriminate|].
  destruct (last_match l k) eqn:E.
  - intros H. inversion H; subst. right. apply IH. reflexivity.
  - destruct (key_eqb k' k) eqn:Ek; [|discriminate].
    intros H. inversion H; subst. apply key_eqb_eq in Ek. subst. left. reflexivity.
Qed.

Lemma spec_rate_source h eff dflt c r :
  spec_rate_for h eff dflt c = Some r ->
  exists a, In a h /\ In r (au_rates a) /\ r_term r = c /\
            in_period (au_v a) (eff_date eff dflt).
Proof.
  unfold spec_rate_for.
  destruct (spec_kind h) as [k|]; [|discriminate].
  destruct (date2validity k (eff_date eff dflt)) as [v|] eqn:Ed; [|discriminate].
  intros H. apply last_match_in in H. unfold flat in H.
  apply in_flat_map in H. destruct H as [a [Ha Hin]].
  unfold keyed in Hin. apply in_map_iff in Hin. destruct Hin as [r' [E Hr]].
  injection E as Ev Ec Er. subst r'. exists a. repeat split; auto.
  apply date_in_period in Ed. rewrite Ev. tauto.
Qed.

(* every rate of an accepted update was built by ExchangeRate(base, ...) *)
Lemma build_rates_unit dm b es rs :
  build_rates dm b es = Ok rs -> forall r, In r rs -> r_unit r = b /\ r_term r <> b.
Proof.
  revert rs. induction es as [|e es IH]; simpl; intros rs H.
  - inversion H. intros r [].
  - destruct (entry_rate dm b e) as [rt|] eqn:Ee; [|discriminate].
    destruct (build_rates dm b es) as [l|]; [|discriminate].
    inversion H; subst. intros r [<-|Hr]; [|eapply IH; eauto].
    destruct e; simpl in Ee; try discriminate.
    unfold mk_rate in Ee.
    destruct (N.eqb b term) eqn:Eb; [discriminate|].
    destruct (negb (is_integral multiple)); [discriminate|].
    destruct (qltb multiple 1); [discriminate|].
    destruct (qltb amount (pow10 (-6))); [discriminate|].
    inversion Ee; subst; simpl. apply N.eqb_neq in Eb. auto.
Qed.

(* ================================================================= spellings *)

Fixpoint zrange (n : nat) (lo : Z) : list Z :=
  match n with O => [] | S k => lo :: zrange k (lo + 1) end.

Lemma in_zrange n : forall lo y, lo <= y < lo + Z.of_nat n -> In y (zrange n lo).
Proof.
  induction n as [|n IH]; intros lo y H; [lia|].
  simpl. destruct (Z.eq_dec lo y); [left; assumption|right].
  apply IH. lia.
Qed.

Lemma forall_range (P : Z -> bool) n lo :
  forallb P (zrange n lo) = true -> forall y, lo <= y < lo + Z.of_nat n -> P y = true.
Proof.
  intros H y Hy. rewrite forallb_forall in H. apply H. apply in_zrange. exact Hy.
Qed.

Definition chk4 (y : Z) : bool :=
  match fmt4 y with
  | [a; b; c; d] =>
      match digit a, digit b, digit c, digit d with
      | Some x1, Some x2, Some x3, Some x4 => ((((x1 * 10 + x2) * 10 + x3) * 10 + x4) =? y)
      | _, _, _, _ => false
      end
  | _ => false
  end.

Definition chk2 (m : Z) : bool :=
  match fmt2 m with
  | [a; b] =>
      match digit a, digit b with
      | Some x1, Some x2 => ((x1 * 10 + x2) =? m)
      | _, _ => false
      end
  | _ => false
  end.

Lemma chk4_all : forallb chk4 (zrange (Z.to_nat 10000) 0) = true.
Proof. vm_compute. reflexivity. Qed.

Lemma chk2_all : forallb chk2 (zrange (Z.to_nat 100) 0) = true.
Proof. vm_compute. reflexivity. Qed.

Lemma digit_not c x k : digit c = Some x -> (k < 48)%N \/ (57 < k)%N -> N.eqb c k = false.
Proof.
  unfold digit. destruct ((48 <=? c)%N && (c <=? 57)%N) eqn:E; [|discriminate].
  intros _ H. apply andb_true_iff in E. destruct E as [E1 E2].
  apply N.leb_le in E1, E2. apply N.eqb_neq. lia.
Qed.

Lemma fmt4_shape y : 0 <= y <= 9999 ->
  exists a b c d x1 x2 x3 x4,
    fmt4 y = [a; b; c; d] /\ digit a = Some x1 /\ digit b = Some x2 /\
    digit c = Some x3 /\ digit d = Some x4 /\ ((x1 * 10 + x2) * 10 + x3) * 10 + x4 = y.
Proof.
  intros H. pose proof (forall_range chk4 _ _ chk4_all y) as C.
  assert (C' : chk4 y = true) by (apply C; simpl; lia). clear C.
  unfold chk4 in C'.
  destruct (fmt4 y) as [|a [|b [|c [|d [|? ?]]]]]; try discriminate.
  destruct (digit a) as [x1|] eqn:E1; try discriminate.
  destruct (digit b) as [x2|] eqn:E2; try discriminate.
  destruct (digit c) as [x3|] eqn:E3; try discriminate.
  destruct (digit d) as [x4|] eqn:E4; try discriminate.
  apply Z.eqb_eq in C'. exists a, b, c, d, x1, x2, x3, x4. auto 10.
Qed.

Lemma fmt2_shape m : 0 <= m <= 99 ->
  exists a b x1 x2,
    fmt2 m = [a; b] /\ digit a = Some x1 /\ digit b = Some x2 /\ x1 * 10 + x2 = m.
Proof.
  intros H. pose proof (forall_range chk2 _ _ chk2_all m) as C.
  assert (C' : chk2 m = true) by (apply C; simpl; lia). clear C.
  unfold chk2 in C'.
  destruct (fmt2 m) as [|a [|b [|? ?]]]; try discriminate.
  destruct (digit a) as [x1|] eqn:E1; try discriminate.
  destruct (digit b) as [x2|] eqn:E2; try discriminate.
  apply Z.eqb_eq in C'. exists a, b, x1, x2. auto.
Qed.

Lemma parse4_fmt4 y rest : 0 <= y <= 9999 ->
  parse_digits 4 0 (fmt4 y ++ rest) = Some (y, rest).
Proof.
  intros H. destruct (fmt4_shape y H) as (a & b & c & d & x1 & x2 & x3 & x4 & -> & E1 & E2 & E3 & E4 & <-).
  cbn [app parse_digits]. rewrite E1, E2, E3, E4. first [reflexivity | (f_equal; f_equal; lia)].
Qed.

Lemma parse2_fmt2 m rest : 0 <= m <= 99 ->
  parse_digits 2 0 (fmt2 m ++ rest) = Some (m, rest).
Proof.
  intros H. destruct (fmt2_shape m H) as (a & b & x1 & x2 & -> & E1 & E2 & <-).
  cbn [app parse_digits]. rewrite E1, E2. first [reflexivity | (f_equal; f_equal; lia)].
Qed.

Lemma head_fmt2 m rest k : 0 <= m <= 99 -> (k < 48)%N \/ (57 < k)%N ->
  head_is k (fmt2 m ++ rest) = false.
Proof.
  intros H Hk. destruct (fmt2_shape m H) as (a & b & x1 & x2 & -> & E1 & _).
  cbn [app head_is]. eapply digit_not; eauto.
Qed.

Lemma length_fmt4 y : 0 <= y <= 9999 -> length (fmt4 y) = 4%nat.
Proof. intros H. destruct (fmt4_shape y H) as (a & b & c & d & ? & ? & ? & ? & -> & _). reflexivity. Qed.

Lemma length_fmt2 m : 0 <= m <= 99 -> length (fmt2 m) = 2%nat.
Proof. intros H. destruct (fmt2_shape m H) as (a & b & ? & ? & -> & _). reflexivity. Qed.

Lemma count_dash_app a b : count_dash (a ++ b) = (count_dash a + count_dash b)%nat.
Proof. unfold count_dash. rewrite filter_app, app_length. reflexivity. Qed.

Lemma dash_digit c x : digit c = Some x -> N.eqb c_dash c = false.
Proof.
  intros H. rewrite N.eqb_sym. eapply digit_not; eauto. left. unfold c_dash. lia.
Qed.

Lemma count_dash_fmt4 y : 0 <= y <= 9999 -> count_dash (fmt4 y) = 0%nat.
Proof.
  intros H. destruct (fmt4_shape y H) as (a & b & c & d & x1 & x2 & x3 & x4 & -> & E1 & E2 & E3 & E4 & _).
  unfold count_dash. cbn [filter].
  rewrite (dash_digit _ _ E1), (dash_digit _ _ E2), (dash_digit _ _ E3), (dash_digit _ _ E4).
  reflexivity.
Qed.

Lemma count_dash_fmt2 m : 0 <= m <= 99 -> count_dash (fmt2 m) = 0%nat.
Proof.
  intros H. destruct (fmt2_shape m H) as (a & b & x1 & x2 & -> & E1 & E2 & _).
  unfold count_dash. cbn [filter].
  rewrite (dash_digit _ _ E1), (dash_digit _ _ E2). reflexivity.
Qed.

(* the text of an ISO date, as a format string would build it *)
Definition iso_text (y m d : Z) (tail : list N) : list N :=
  fmt4 y ++ c_dash :: fmt2 m ++ c_dash :: fmt2 d ++ tail.

Lemma parse_iso_text y m d tail :
  0 <= y <= 9999 -> 0 <= m <= 99 -> 0 <= d <= 99 ->
  parse_isoformat_date (iso_text y m d tail) = Some (y, m, d).
Proof.
  intros Hy Hm Hd. unfold parse_isoformat_date, iso_text.
  rewrite parse4_fmt4 by assumption.
  cbn [head_is tl]. change (N.eqb c_dash c_dash) with true. cbv iota.
  rewrite head_fmt2 by (try assumption; unfold c_W; lia).
  rewrite parse2_fmt2 by assumption.
  unfold skip_sep. cbn [head_is tl]. change (N.eqb c_dash c_dash) with true. cbv iota.
  rewrite parse2_fmt2 by assumption. reflexivity.
Qed.

Lemma length_iso_text y m d :
  0 <= y <= 9999 -> 0 <= m <= 99 -> 0 <= d <= 99 -> length (iso_text y m d []) = 10%nat.
Proof.
  intros Hy Hm Hd. unfold iso_text.
  rewrite app_length, length_fmt4 by assumption. cbn [length].
  rewrite app_length, length_fmt2 by assumption. cbn [length].
  rewrite app_length, length_fmt2 by assumption. reflexivity.
Qed.

Lemma fromiso_text y m d :
  0 <= y <= 9999 -> 0 <= m <= 99 -> 0 <= d <= 99 ->
  fromisoformat (iso_text y m d []) =
  if valid_date y m d then Some (mkDate y m d) else None.
Proof.
  intros Hy Hm Hd. unfold fromisoformat.
  rewrite length_iso_text, parse_iso_text by assumption. reflexivity.
Qed.

Lemma fmt2_1 : fmt2 1 = [c_0; 49%N].
Proof. reflexivity. Qed.

(* '2020' == 2020 *)
Lemma spelling_year y : 0 <= y <= 9999 ->
  norm_validity (VStr (fmt4 y)) = norm_validity (VInt y).
Proof.
  intros H. cbn [norm_validity]. rewrite count_dash_fmt4 by assumption.
  change (fmt4 y ++ s_01 ++ s_01) with (iso_text y 1 1 []).
  rewrite fromiso_text by lia. unfold valid_date.
  replace (y <? -2147483648) with false by (symmetry; apply Z.ltb_ge; lia).
  replace (2147483647 <? y) with false by (symmetry; apply Z.ltb_ge; lia).
  replace (y <=? 9999) with true by (symmetry; apply Z.leb_le; lia).
  cbn [orb]. destruct (1 <=? y); reflexivity.
Qed.

Lemma tuple_text y m : fmt4 y ++ [c_dash] ++ fmt2 m ++ s_01 = iso_text y m 1 [].
Proof. reflexivity. Qed.

(* '2020-03' == (2020, 3) *)
Lemma spelling_month y m : 0 <= y <= 9999 -> 0 <= m <= 99 ->
  norm_validity (VStr (fmt4 y ++ [c_dash] ++ fmt2 m)) = norm_validity (VTuple y m).
Proof.
  intros Hy Hm. cbn [norm_validity].
  rewrite !count_dash_app, count_dash_fmt4, count_dash_fmt2 by assumption.
  change (count_dash [c_dash]) with 1%nat. cbn [Nat.add].
  rewrite tuple_text.
  replace ((fmt4 y ++ [c_dash] ++ fmt2 m) ++ s_01) with (iso_text y m 1 []).
  - reflexivity.
  - unfold iso_text. rewrite <- !app_assoc. reflexivity.
Qed.

Lemma norm_tuple y m : 0 <= y <= 9999 -> 0 <= m <= 99 ->
  norm_validity (VTuple y m) = if valid_date y m 1 then Ok (KMonth y m) else Err EValueError.
Proof.
  intros Hy Hm. cbn [norm_validity]. rewrite tuple_text. unfold norm_month.
  rewrite fromiso_text by lia. destruct (valid_date y m 1); reflexivity.
Qed.

Lemma day_text y m d : fmt4 y ++ [c_dash] ++ fmt2 m ++ [c_dash] ++ fmt2 d = iso_text y m d [].
Proof. unfold iso_text. rewrite app_nil_r. reflexivity. Qed.

Lemma norm_day_text y m d : 0 <= y <= 9999 -> 0 <= m <= 99 -> 0 <= d <= 99 ->
  norm_validity (VStr (fmt4 y ++ [c_dash] ++ fmt2 m ++ [c_dash] ++ fmt2 d))
  = if valid_date y m d then Ok (KDay y m d) else Err EValueError.
Proof.
  intros Hy Hm Hd. cbn [norm_validity].
  rewrite !count_dash_app, count_dash_fmt4, !count_dash_fmt2 by assumption.
  change (count_dash [c_dash]) with 1%nat. cbn [Nat.add].
  rewrite day_text, fromiso_text by assumption.
  destruct (valid_date y m d); reflexivity.
Qed.

Lemma valid_date_bounds y m d : valid_date y m d = true ->
  1 <= y <= 9999 /\ 1 <= m <= 12 /\ 1 <= d <= 31.
Proof.
  unfold valid_date. intros H.
  repeat (apply andb_true_iff in H; destruct H as [H ?]).
  repeat match goal with X : (_ <=? _) = true |- _ => apply Z.leb_le in X end.
  assert (days_in_month y m <= 31).
  { unfold days_in_month. destruct (m =? 2); [destruct (is_leap y); lia|].
    destruct ((m =? 4) || (m =? 6) || (m =? 9) || (m =? 11)); lia. }
  lia.
Qed.

(* 'YYYY-MM-DD' == date(y, m, d) *)
Lemma spelling_day y m d : valid_date y m d = true ->
  norm_validity (VStr (fmt4 y ++ [c_dash] ++ fmt2 m ++ [c_dash] ++ fmt2 d))
  = norm_validity (VDate y m d).
Proof.
  intros H. pose proof (valid_date_bounds _ _ _ H).
  rewrite norm_day_text by lia. rewrite H. reflexivity.
Qed.

(* the update depends on the spelling only through the normalised validity *)
Lemma update_spelling st v1 v2 es dm :
  norm_validity v1 = norm_validity v2 ->
  conv_update st v1 es dm = conv_update st v2 es dm.
Proof. intros H. unfold conv_update. rewrite H. reflexivity. Qed.

(* ================================================================= statements
   of Properties/C11.v that combine several lemmas *)

Lemma date_in_period_both k d v :
  (date2validity k d = Some v -> in_period v d /\ kind_of v = k) /\
  (proper_kind k -> kind_of v = k -> in_period v d -> date2validity k d = Some v).
Proof. split; [apply date_in_period | apply period_unique]. Qed.

Lemma reachable_wf b h : wf (run h (conv_init b)).
Proof. apply wf_run, wf_init. Qed.

Lemma spelling_all y m d :
  (0 <= y <= 9999 -> norm_validity (VStr (fmt4 y)) = norm_validity (VInt y)) /\
  (0 <= y <= 9999 -> 0 <= m <= 99 ->
     norm_validity (VStr (fmt4 y ++ [c_dash] ++ fmt2 m)) = norm_validity (VTuple y m)) /\
  (valid_date y m d = true ->
     norm_validity (VStr (fmt4 y ++ [c_dash] ++ fmt2 m ++ [c_dash] ++ fmt2 d))
     = norm_validity (VDate y m d)).
Proof.
  split; [apply spelling_year | split; [apply spelling_month | apply spelling_day]].
Qed.

Lemma bad_entry_rejects st v es1 x es2 dm e :
  entry_rate dm (cv_base st) x = Err e ->
  exists e', conv_update st v (es1 ++ x :: es2) dm = (st, Some e').
Proof.
  intros H.
  destruct (build_rates_rejects dm (cv_base st) es1 x es2 e H) as [e' E].
  unfold conv_update. destruct (norm_validity v) as [nv|]; [|eauto].
  destruct (negb (kind_ok (cv_kind st) nv)); [eauto|]. rewrite E. eauto.
Qed.

Lemma call_both st dm u a t eff dflt :
  (forall r, conv_get_rate st dm u t eff dflt = Ok (Some r) ->
     exists q, conv_call st dm u a t eff dflt = Ok q /\ q == a * rate_of r) /\
  (conv_get_rate st dm u t eff dflt = Ok None ->
     conv_call st dm u a t eff dflt = Err EUnitConversion).
Proof. split; [intros r; apply call_exact | apply call_no_rate]. Qed.

(* ================================================================= witnesses *)

(* both entries stored, yet get_rate raises: the quotient is below 10^-6 *)
Definition tiny_history : list upd :=
  [mkUpd VNone [EntOk 2%N (130 # 1) 1; EntOk 3%N (2 # 1000000) 1] MHEVEN].

Lemma derived_rate_may_raise :
  exists ur tr,
    spec_rate_for (accepted 0%N tiny_history) None (mkDate 2020 3 15) 2%N = Some ur /\
    spec_rate_for (accepted 0%N tiny_history) None (mkDate 2020 3 15) 3%N = Some tr /\
    conv_get_rate (run tiny_history (conv_init 0%N)) MHEVEN 2%N 3%N None (mkDate 2020 3 15)
    = Err EValueError.
Proof. eexists. eexists. vm_compute. auto. Qed.

(* the first update fixes the kind: without the hypothesis "already committed"
   dropping an update for another period can change answers *)
Definition kind_history_u : upd := mkUpd (VInt 2019) [EntOk 1%N (5 # 4) 1] MHEVEN.
Definition kind_history_rest : list upd := [mkUpd (VTuple 2020 3) [EntOk 1%N (3 # 2) 1] MHEVEN].

Lemma first_update_fixes_kind :
  conv_get_rate (run (kind_history_u :: kind_history_rest) (conv_init 0%N)) MHEVEN 0%N 1%N
                (Some (mkDate 2020 3 15)) (mkDate 2020 3 15) = Ok None /\
  exists r, conv_get_rate (run kind_history_rest (conv_init 0%N)) MHEVEN 0%N 1%N
                          (Some (mkDate 2020 3 15)) (mkDate 2020 3 15) = Ok (Some r).
Proof. split; [|eexists]; vm_compute; reflexivity. Qed.
