(* Proofs/EffectsProofs.v — soundness of the check [atomic]: in a program that
   passes it, whenever an execution ends in an exception no write has happened. *)
From Coq Require Import List Bool.
From QV Require Import Model.Effects.
Import ListNotations.

Scheme ex_s_mut := Minimality for ex_s Sort Prop
  with ex_l_mut := Minimality for ex_l Sort Prop.
Combined Scheme ex_mutind from ex_s_mut, ex_l_mut.

(* the abstract state covers the concrete one *)
Definition cover (st : ast) (w : bool) : Prop := if w then snd st = true else fst st = true.

Lemma cover_join_l st x w : cover st w -> cover (join st x) w.
Proof. destruct st as [a b], x as [c d], w; cbn; intros ->; reflexivity. Qed.
Lemma cover_join_r st x w : cover x w -> cover (join st x) w.
Proof. destruct st as [a b], x as [c d], w; cbn; intros ->; apply orb_true_r. Qed.

(* write-free programs do not write *)
Lemma wfree_keeps :
  (forall s w o w', ex_s s w o w' -> wfree_s s = true -> w' = w) /\
  (forall p w o w', ex_l p w o w' -> forallb wfree_s p = true -> w' = w).
Proof.
  apply ex_mutind; intros; try reflexivity.
  - discriminate.
  - cbn in H1. apply andb_true_iff in H1. tauto.
  - cbn in H1. apply andb_true_iff in H1. tauto.
  - cbn in H3. rewrite (H2 H3). apply H0. exact H3.
  - apply H0. exact H2.
  - apply H0. exact H1.
  - apply H0. exact H2.
  - cbn in H3. apply andb_true_iff in H3. destruct H3 as [A B].
    rewrite (H2 B). apply H0. exact A.
  - cbn in H2. apply andb_true_iff in H2. apply H0. tauto.
Qed.

Definition ok (o : out) (w' : bool) (r : ares) : Prop :=
  (o = Norm -> cover (fst r) w') /\ (o = Ret -> cover (snd r) w') /\ (o = Exc -> w' = false).

Lemma sound :
  (forall s w o w', ex_s s w o w' -> forall st r, cover st w -> run_s s st = Some r -> ok o w' r) /\
  (forall p w o w', ex_l p w o w' -> forall st r, cover st w -> seq run_s p st = Some r -> ok o w' r).
Proof.
  apply ex_mutind; unfold ok.
  - (* Raise *) intros w st r C R. cbn in R. repeat split; try discriminate. intros _.
    destruct w; [|reflexivity]. cbn in C. rewrite C in R. discriminate.
  - (* Guard ok *) intros w st r C R. cbn in R. repeat split; try discriminate. intros _.
    destruct (snd st) eqn:S; [discriminate|]. injection R as <-. exact C.
  - (* Guard exc *) intros w st r C R. cbn in R. repeat split; try discriminate. intros _.
    destruct w; [|reflexivity]. cbn in C. rewrite C in R. discriminate.
  - (* Write *) intros w st r C R. cbn in R. injection R as <-. repeat split; try discriminate.
    intros _. cbn. destruct w; cbn in C; rewrite C; [apply orb_true_r | reflexivity].
  - (* Return *) intros w st r C R. cbn in R. injection R as <-. repeat split; try discriminate.
    intros _. exact C.
  - (* If a *) intros a b w o w' _ IH st r C R. cbn in R.
    destruct (seq run_s a st) as [[ca ra]|] eqn:A; [|discriminate].
    destruct (seq run_s b st) as [[cb rb]|] eqn:B; [|discriminate]. injection R as <-.
    destruct (IH st _ C A) as [N [T E]]. cbn in N, T. repeat split; [| |exact E]; intros O; cbn.
    + apply cover_join_l, N, O.
    + apply cover_join_l, T, O.
  - (* If b *) intros a b w o w' _ IH st r C R. cbn in R.
    destruct (seq run_s a st) as [[ca ra]|] eqn:A; [|discriminate].
    destruct (seq run_s b st) as [[cb rb]|] eqn:B; [|discriminate]. injection R as <-.
    destruct (IH st _ C B) as [N [T E]]. cbn in N, T. repeat split; [| |exact E]; intros O; cbn.
    + apply cover_join_r, N, O.
    + apply cover_join_r, T, O.
  - (* Loop 0 *) intros b w st r C R. cbn in R.
    destruct (forallb wfree_s b); [|discriminate].
    destruct (seq run_s b st) as [[c rt]|]; [|discriminate]. injection R as <-.
    repeat split; try discriminate. intros _. cbn. apply cover_join_l, C.
  - (* Loop step *) intros b w w1 o w' X _ _ IH st r C R.
    assert (F : forallb wfree_s b = true).
    { cbn in R. destruct (forallb wfree_s b); [reflexivity|discriminate]. }
    assert (W : w1 = w) by (apply (proj2 wfree_keeps _ _ _ _ X F)). subst w1.
    apply (IH st r C R).
  - (* Loop stop *) intros b w o w' _ IH NN st r C R. cbn in R.
    destruct (forallb wfree_s b); [|discriminate].
    destruct (seq run_s b st) as [[c rt]|] eqn:B; [|discriminate]. injection R as <-.
    destruct (IH st _ C B) as [N [T E]]. cbn in T. repeat split; [| exact T | exact E].
    intros O. contradiction.
  - (* Call exc *) intros b w w' _ IH st r C R. cbn in R.
    destruct (seq run_s b st) as [[c rt]|] eqn:B; [|discriminate]. injection R as <-.
    destruct (IH st _ C B) as [_ [_ E]]. repeat split; try discriminate. exact E.
  - (* Call ok *) intros b w o w' _ IH NE st r C R. cbn in R.
    destruct (seq run_s b st) as [[c rt]|] eqn:B; [|discriminate]. injection R as <-.
    destruct (IH st _ C B) as [N [T _]]. cbn in N, T. repeat split; try discriminate.
    intros _. cbn. destruct o; [apply cover_join_l, N; reflexivity | contradiction
                                | apply cover_join_r, T; reflexivity].
  - (* nil *) intros w st r C R. cbn in R. injection R as <-. repeat split; try discriminate.
    intros _; exact C.
  - (* cons, first normal *) intros s r w w1 o w' _ IHs _ IHr st res C R. cbn in R.
    destruct (run_s s st) as [[c1 r1]|] eqn:S; [|discriminate].
    destruct (seq run_s r c1) as [[c2 r2]|] eqn:Q; [|discriminate]. injection R as <-.
    destruct (IHs st _ C S) as [N _]. cbn in N.
    destruct (IHr c1 _ (N eq_refl) Q) as [N2 [T2 E2]]. cbn in N2, T2.
    repeat split; [exact N2 | | exact E2]. intros O. cbn. apply cover_join_r, T2, O.
  - (* cons, first stops *) intros s r w o w' _ IHs NN st res C R. cbn in R.
    destruct (run_s s st) as [[c1 r1]|] eqn:S; [|discriminate].
    destruct (seq run_s r c1) as [[c2 r2]|] eqn:Q; [|discriminate]. injection R as <-.
    destruct (IHs st _ C S) as [_ [T E]]. cbn in T.
    repeat split; [| | exact E]; intros O; [contradiction|]. cbn. apply cover_join_l, T, O.
Qed.

(* the theorem: a program that passes the check raises only before its first write *)
Theorem atomic_sound p : atomic p = true ->
  forall w', ex_l p false Exc w' -> w' = false.
Proof.
  unfold atomic. intros A w' X.
  destruct (seq run_s p (true, false)) as [r|] eqn:R; [|discriminate].
  apply (proj2 (proj2 (proj2 sound _ _ _ _ X (true, false) r eq_refl R)) eq_refl).
Qed.

(* non-vacuity: the check rejects a write before a guard, accepts guards before writes *)
Example atomic_ex :
  atomic [Guard; If [Raise] [Guard]; Write; Write; Return] = true /\
  atomic [Write; Guard] = false /\
  atomic [If [Write] []; Raise] = false /\
  atomic [If [Write; Return] []; Raise] = true /\
  atomic [Loop [Guard; If [Raise] []]; Write] = true /\
  atomic [Loop [Write]; Guard] = false /\
  atomic [Guard; Call [Guard; Write; Return]; Write] = true /\
  atomic [Call [Guard; Write; Return]; Guard] = false.
Proof. vm_compute. repeat split. Qed.
