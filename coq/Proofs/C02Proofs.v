(* Proofs/C02Proofs.v — products, quotients and powers of quantities and units
   on the directory model: the result is the constructor applied ONCE to the
   exact amount in a unit w, where factor * w denotes the product / quotient /
   power of the operands' units (or the plain number when the dimensions
   cancel); otherwise UndefinedResultError. *)
From Coq Require Import ZArith QArith Qabs List Bool Lia Lqa Qpower.
From QV Require Import Model.Num Model.Rounding Model.Quantity Model.Dim Model.Registry
     Proofs.QuantityProofs Proofs.DimProofs Proofs.RegistryProofs Proofs.DirectoryProofs.
Open Scope Z_scope.

(* what the operators build from an exact amount and a resolution result *)
Definition build (s : state) (dm : mode) (amt : Q) (fw : Q * option N) : res mres :=
  mk_result s dm (qmul amt (fst fw)) (snd fw).

Lemma lift_eq s dm a r : lift s dm a r = (fst r, bind (snd r) (build s dm a)).
Proof. reflexivity. Qed.

(* the constructor is applied exactly once, to the exact amount *)
Lemma build_qty s dm amt fw q :
  build s dm amt fw = Ok (MQty q) ->
  exists w wu, snd fw = Some w /\ find_unit s w = Some wu /\
               q = mk_qty dm (qmul amt (fst fw)) (view s wu).
Proof.
  unfold build, mk_result. destruct (snd fw) as [w|]; [|discriminate].
  destruct (find_unit s w) as [wu|] eqn:F; [|discriminate].
  intros H. injection H as <-. eauto.
Qed.

Lemma build_num s dm amt fw k :
  build s dm amt fw = Ok (MNum k) -> snd fw = None /\ k == amt * fst fw.
Proof.
  unfold build, mk_result. destruct (snd fw) as [w|].
  - destruct (find_unit s w); discriminate.
  - intros H. injection H as <-. split; [reflexivity|]. rewrite Qred_correct. apply qmul_ok.
Qed.

Section Ops.
Variables (s : state) (dm : mode) (ce : convenv).
Hypothesis A : AllInv s.
Let I : Inv s := conj (proj1 A) (proj2 (proj2 (proj2 A))).

(* quantity * quantity *)
Theorem mul_qq_sound a u b v ru rv s' r :
  find_unit s u = Some ru -> find_unit s v = Some rv ->
  op_mul s dm (MQ a u) (MQ b v) = (s', Ok r) ->
  exists fw, unit_mul s ru rv = (s', Ok fw) /\ val_ok s' (opnf KMul ru rv) fw /\
             build s dm (qmul a b) fw = Ok r /\ Inv s'.
Proof.
  intros Fu Fv. cbn [op_mul]. unfold with_unit. rewrite Fu, Fv, lift_eq.
  destruct (unit_mul s ru rv) as [s1 [fw|e]] eqn:U; cbn [fst snd bind]; intros H; [|discriminate].
  injection H as <- Hb. exists fw.
  destruct (find_unit_In _ _ _ Fu) as [_ Iu], (find_unit_In _ _ _ Fv) as [_ Iv].
  rewrite <- Iu in Fu. rewrite <- Iv in Fv.
  destruct (unit_mul_sound _ _ _ _ _ I Fu Fv U) as (V & I' & _). auto.
Qed.

(* quantity * unit, unit * quantity *)
Theorem mul_qu_sound a u v ru rv s' r :
  find_unit s u = Some ru -> find_unit s v = Some rv ->
  op_mul s dm (MQ a u) (MU v) = (s', Ok r) ->
  exists fw, unit_mul s ru rv = (s', Ok fw) /\ val_ok s' (opnf KMul ru rv) fw /\
             build s dm a fw = Ok r.
Proof.
  intros Fu Fv. cbn [op_mul]. unfold with_unit. rewrite Fu, Fv, lift_eq.
  destruct (unit_mul s ru rv) as [s1 [fw|e]] eqn:U; cbn [fst snd bind]; intros H; [|discriminate].
  injection H as <- Hb. exists fw.
  destruct (find_unit_In _ _ _ Fu) as [_ Iu], (find_unit_In _ _ _ Fv) as [_ Iv].
  rewrite <- Iu in Fu. rewrite <- Iv in Fv.
  destruct (unit_mul_sound _ _ _ _ _ I Fu Fv U) as (V & _). auto.
Qed.

Theorem mul_uq_sound u b v ru rv s' r :
  find_unit s u = Some ru -> find_unit s v = Some rv ->
  op_mul s dm (MU u) (MQ b v) = (s', Ok r) ->
  exists fw, unit_mul s ru rv = (s', Ok fw) /\ val_ok s' (opnf KMul ru rv) fw /\
             build s dm b fw = Ok r.
Proof.
  intros Fu Fv. cbn [op_mul]. unfold with_unit. rewrite Fu, Fv, lift_eq.
  destruct (unit_mul s ru rv) as [s1 [fw|e]] eqn:U; cbn [fst snd bind]; intros H; [|discriminate].
  injection H as <- Hb. exists fw.
  destruct (find_unit_In _ _ _ Fu) as [_ Iu], (find_unit_In _ _ _ Fv) as [_ Iv].
  rewrite <- Iu in Fu. rewrite <- Iv in Fv.
  destruct (unit_mul_sound _ _ _ _ _ I Fu Fv U) as (V & _). auto.
Qed.

(* unit * unit: the pair (factor, unit) itself *)
Theorem mul_uu_sound u v ru rv s' r :
  find_unit s u = Some ru -> find_unit s v = Some rv ->
  op_mul s dm (MU u) (MU v) = (s', Ok r) ->
  exists fw, r = MPair (fst fw) (snd fw) /\ val_ok s' (opnf KMul ru rv) fw.
Proof.
  intros Fu Fv. cbn [op_mul]. unfold with_unit. rewrite Fu, Fv.
  destruct (unit_mul s ru rv) as [s1 [fw|e]] eqn:U; cbn [fst snd bind]; intros H; [|discriminate].
  injection H as <- <-. exists fw.
  destruct (find_unit_In _ _ _ Fu) as [_ Iu], (find_unit_In _ _ _ Fv) as [_ Iv].
  rewrite <- Iu in Fu. rewrite <- Iv in Fv.
  destruct (unit_mul_sound _ _ _ _ _ I Fu Fv U) as (V & _). auto.
Qed.

(* products fail only with UndefinedResultError, exactly when resolution finds nothing,
   and then nothing is cached *)
Theorem mul_undefined x y s' e :
  op_mul s dm x y = (s', Err e) ->
  (e = EOther) \/
  (s' = s /\ e = EUndefinedResult /\
   exists ru rv, resolve s (nf_mul (ru_nf ru) (ru_nf rv)) = None).
Proof.
  destruct x as [a u|u|k], y as [b v|v|k']; cbn [op_mul]; unfold with_unit.
  all: try (destruct (find_unit s u) as [ru|]; [|intros H; injection H as <- <-; left; reflexivity]).
  all: try (destruct (find_unit s v) as [rv|]; [|intros H; injection H as <- <-; left; reflexivity]).
  all: try (intros H; discriminate H).
  all: try rewrite lift_eq.
  all: destruct (unit_mul s ru rv) as [s1 [fw|e1]] eqn:U; cbn [fst snd bind].
  all: try (unfold build, mk_result; destruct (snd fw) as [w|]; [destruct (find_unit s w)|]).
  all: intros H; try discriminate H; injection H as <- <-; try (left; reflexivity).
  all: destruct (unit_mul_undefined _ _ _ _ _ U) as (-> & -> & R).
  all: right; split; [reflexivity | split; [reflexivity | eauto]].
Qed.

(* quantity / quantity of another type *)
Theorem div_qq_sound a u b v ru rv s' r :
  find_unit s u = Some ru -> find_unit s v = Some rv -> ru_cls ru <> ru_cls rv ->
  op_div s dm ce (MQ a u) (MQ b v) = (s', Ok r) ->
  ~ b == 0 /\
  exists fw, unit_div s ru rv = (s', Ok fw) /\ val_ok s' (opnf KDiv ru rv) fw /\
             build s dm (qdiv a b) fw = Ok r.
Proof.
  intros Fu Fv Nc. cbn [op_div]. unfold with_unit. rewrite Fu, Fv.
  apply N.eqb_neq in Nc. rewrite Nc.
  destruct (unit_div s ru rv) as [s1 [fw|e]] eqn:U; cbn [fst snd]; [|discriminate].
  destruct (qzero b) eqn:Zb; [discriminate|]. intros H.
  injection H as <- Hb. split; [apply qzero_false; exact Zb|]. exists fw.
  destruct (find_unit_In _ _ _ Fu) as [_ Iu], (find_unit_In _ _ _ Fv) as [_ Iv].
  rewrite <- Iu in Fu. rewrite <- Iv in Fv.
  destruct (unit_div_sound _ _ _ _ _ I Fu Fv U) as (V & _). auto.
Qed.

(* unit / quantity: divides by the amount *)
Theorem div_uq_sound u b v ru rv s' r :
  find_unit s u = Some ru -> find_unit s v = Some rv ->
  op_div s dm ce (MU u) (MQ b v) = (s', Ok r) ->
  ~ b == 0 /\
  exists fw, unit_div s ru rv = (s', Ok fw) /\ val_ok s' (opnf KDiv ru rv) fw /\
             mk_result s dm (qdiv (fst fw) b) (snd fw) = Ok r.
Proof.
  intros Fu Fv. cbn [op_div]. unfold with_unit. rewrite Fu, Fv.
  destruct (unit_div s ru rv) as [s1 [fw|e]] eqn:U; cbn [fst snd]; [|discriminate].
  destruct (qzero b) eqn:Zb; [discriminate|].
  intros H. injection H as <- Hb. split; [apply qzero_false; exact Zb|]. exists fw.
  destruct (find_unit_In _ _ _ Fu) as [_ Iu], (find_unit_In _ _ _ Fv) as [_ Iv].
  rewrite <- Iu in Fu. rewrite <- Iv in Fv.
  destruct (unit_div_sound _ _ _ _ _ I Fu Fv U) as (V & _). auto.
Qed.

(* quantity ** k (k other than 0, 1): one rounding of amount^k * factor *)
Theorem pow_q_sound a u ru k r :
  find_unit s u = Some ru -> k <> 0 -> k <> 1 ->
  op_pow s dm (MQ a u) k = Ok r ->
  exists fw, unit_pow s ru k = Ok fw /\ val_ok s (nf_pow (ru_nf ru) k) fw /\
             build s dm (qpow a k) fw = Ok r.
Proof.
  intros Fu K0 K1. cbn [op_pow]. rewrite Fu.
  apply Z.eqb_neq in K0, K1. rewrite K0, K1.
  destruct (unit_pow s ru k) as [fw|e] eqn:U; cbn [bind]; [|discriminate].
  destruct (qzero a && (k <? 0)); [discriminate|]. intros H. exists fw.
  split; [reflexivity|]. split; [|exact H].
  apply unit_pow_sound; [apply (proj1 A) | exact U].
Qed.

(* number / quantity, number / unit: resolved through unit ** -1, one rounding *)
Theorem rdiv_nq_sound k a u ru s' r :
  find_unit s u = Some ru ->
  op_div s dm ce (MN k) (MQ a u) = (s', Ok r) ->
  s' = s /\ ~ a == 0 /\
  exists fw, unit_pow s ru (-1) = Ok fw /\ val_ok s (nf_pow (ru_nf ru) (-1)) fw /\
             build s dm (qdiv k a) fw = Ok r.
Proof.
  intros Fu. cbn [op_div]. unfold with_unit. rewrite Fu.
  destruct (unit_pow s ru (-1)) as [fw|e] eqn:U; [|discriminate].
  destruct (qzero a) eqn:Za; [discriminate|].
  intros H. injection H as <- Hb. split; [reflexivity|].
  split; [apply qzero_false; exact Za|]. exists fw.
  split; [reflexivity|]. split; [|exact Hb].
  apply unit_pow_sound; [apply (proj1 A) | exact U].
Qed.

(* a plain number scales the amount and keeps type and unit (one rounding) *)
Theorem scalar_keeps_unit a u ru k :
  find_unit s u = Some ru ->
  op_mul s dm (MQ a u) (MN k) = (s, Ok (MQty (mk_qty dm (qmul a k) (view s ru)))) /\
  op_mul s dm (MN k) (MQ a u) = (s, Ok (MQty (mk_qty dm (qmul a k) (view s ru)))) /\
  (~ k == 0 -> op_div s dm ce (MQ a u) (MN k)
               = (s, Ok (MQty (mk_qty dm (qdiv a k) (view s ru))))).
Proof.
  intros Fu. cbn [op_mul op_div]. unfold with_unit. rewrite Fu.
  repeat split. intros Hk. apply qzero_false in Hk. rewrite Hk. reflexivity.
Qed.

End Ops.

(* ---------- every directory reachable by (guarded) declarations ---------- *)
Definition Reach (dm : mode) (s : state) : Prop :=
  exists ds, guarded dm init ds = true /\ s = run dm init ds.

Lemma Reach_inv dm s : Reach dm s -> AllInv s.
Proof. intros (ds & G & ->). apply reachable_inv. exact G. Qed.

Lemma Reach_init dm : Reach dm init.
Proof. exists []. split; reflexivity. Qed.

Lemma Reach_step dm s d : Reach dm s -> guard dm s d = true -> Reach dm (fst (step dm s d)).
Proof.
  intros (ds & G & ->) Gd. exists (ds ++ [d]). split.
  - clear -G Gd. revert G Gd. generalize init. induction ds as [|x ds IH]; intros s0; cbn.
    + intros _ ->. reflexivity.
    + intros H. apply andb_true_iff in H. destruct H as [H1 H2]. rewrite H1. cbn.
      intros Gd. apply IH; assumption.
  - unfold run. rewrite fold_left_app. reflexivity.
Qed.

Definition R_mul_qq dm s (R : Reach dm s) := mul_qq_sound s dm (Reach_inv dm s R).
Definition R_mul_qu dm s (R : Reach dm s) := mul_qu_sound s dm (Reach_inv dm s R).
Definition R_mul_uq dm s (R : Reach dm s) := mul_uq_sound s dm (Reach_inv dm s R).
Definition R_mul_uu dm s (R : Reach dm s) := mul_uu_sound s dm (Reach_inv dm s R).
Definition R_div_qq dm s ce (R : Reach dm s) := div_qq_sound s dm ce (Reach_inv dm s R).
Definition R_div_uq dm s ce (R : Reach dm s) := div_uq_sound s dm ce (Reach_inv dm s R).
Definition R_pow_q dm s (R : Reach dm s) := pow_q_sound s dm (Reach_inv dm s R).
Definition R_rdiv_nq dm s ce (R : Reach dm s) := rdiv_nq_sound s dm ce (Reach_inv dm s R).

(* C17: evaluated before or not, the value is the same *)
Theorem R_cache_transparent dm s u v s1 r1 s2 r2 :
  Reach dm s -> find_unit s (ru_id u) = Some u -> find_unit s (ru_id v) = Some v ->
  unit_mul s u v = (s1, Ok r1) -> unit_mul (clear_cache s) u v = (s2, Ok r2) ->
  exists y1 y2, res_value s r1 = Some y1 /\ res_value s r2 = Some y2 /\ nf_eq y1 y2.
Proof.
  intros R. apply cache_transparent_mul. destruct (Reach_inv dm s R) as (U & _ & _ & C). split; assumption.
Qed.
