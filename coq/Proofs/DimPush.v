(* Proofs/DimPush.v — pushing a dimension vector forward along a map from
   base elements to dimension vectors (units -> the dimension of their type):
   a homomorphism of the group of canonical vectors. *)
From Coq Require Import ZArith QArith List Bool Lia.
From QV Require Import Model.Num Model.Dim Proofs.DimProofs.
Open Scope Z_scope.

Fixpoint dv_push (g : N -> dvec) (v : dvec) : dvec :=
  match v with
  | [] => []
  | (b, e) :: r => dv_mul (dv_scale e (g b)) (dv_push g r)
  end.

(* weighted sum of the exponents of k *)
Fixpoint wsum (g : N -> dvec) (k : N) (v : dvec) : Z :=
  match v with
  | [] => 0
  | (b, e) :: r => e * dv_get (g b) k + wsum g k r
  end.

Section Push.
Variable g : N -> dvec.
Hypothesis Gwf : forall b, dv_wf (g b) = true.

Lemma dv_push_wf v : dv_wf (dv_push g v) = true.
Proof.
  induction v as [|[b e] r IH]; cbn [dv_push]; [reflexivity|].
  apply dv_mul_wf; [apply dv_scale_wf; apply Gwf | exact IH].
Qed.

Lemma dv_push_get v k : dv_get (dv_push g v) k = wsum g k v.
Proof.
  induction v as [|[b e] r IH]; cbn [dv_push wsum]; [reflexivity|].
  rewrite dv_mul_get; [|apply dv_scale_wf; apply Gwf | apply dv_push_wf].
  rewrite dv_scale_get, IH. reflexivity.
Qed.

Lemma wsum_ins k i e : forall v, wsum g k (dv_ins i e v) = e * dv_get (g i) k + wsum g k v.
Proof.
  intros v. destruct (Z.eq_dec e 0) as [->|Ne]; [rewrite dv_ins_zero; lia|].
  induction v as [|[j f] r IH].
  - rewrite dv_ins_unfold by exact Ne. cbn [wsum]. reflexivity.
  - rewrite dv_ins_unfold by exact Ne. destruct (N.compare_spec i j) as [->|Hlt|Hgt].
    + destruct (Z.eqb_spec (e + f) 0) as [E|E]; cbn [wsum]; nia.
    + cbn [wsum]. reflexivity.
    + cbn [wsum]. rewrite IH. lia.
Qed.

Lemma wsum_mul k a : forall b, wsum g k (dv_mul a b) = wsum g k a + wsum g k b.
Proof.
  induction a as [|[i e] a IH]; intros b; cbn [dv_mul wsum]; [lia|].
  rewrite wsum_ins, IH. lia.
Qed.

Lemma wsum_scale k e v : wsum g k (dv_scale e v) = e * wsum g k v.
Proof.
  unfold dv_scale. destruct (Z.eqb_spec e 0) as [->|Ne]; [cbn; lia|].
  induction v as [|[b f] r IH]; cbn [map wsum fst snd]; [lia|]. rewrite IH. lia.
Qed.

Theorem dv_push_mul a b : dv_push g (dv_mul a b) = dv_mul (dv_push g a) (dv_push g b).
Proof.
  apply dv_ext; [apply dv_push_wf | apply dv_mul_wf; apply dv_push_wf|].
  intros k. rewrite dv_mul_get by apply dv_push_wf. rewrite !dv_push_get. apply wsum_mul.
Qed.

Theorem dv_push_scale e v : dv_push g (dv_scale e v) = dv_scale e (dv_push g v).
Proof.
  apply dv_ext; [apply dv_push_wf | apply dv_scale_wf; apply dv_push_wf|].
  intros k. rewrite dv_scale_get, !dv_push_get. apply wsum_scale.
Qed.

Theorem dv_push_single i : dv_push g (dv_single i 1) = g i.
Proof.
  change (dv_push g (dv_single i 1)) with (dv_mul (dv_scale 1 (g i)) []).
  apply dv_ext; [apply dv_mul_wf; [apply dv_scale_wf; apply Gwf | reflexivity] | apply Gwf|].
  intros k. rewrite dv_mul_get; [|apply dv_scale_wf; apply Gwf | reflexivity].
  rewrite dv_scale_get. cbn [dv_get]. lia.
Qed.

Lemma dv_push_one : dv_push g dv_one = dv_one.
Proof. reflexivity. Qed.
End Push.

(* only the images of the elements that occur matter *)
Lemma dv_push_ext g g' v :
  (forall b e, In (b, e) v -> g b = g' b) -> dv_push g v = dv_push g' v.
Proof.
  induction v as [|[b e] r IH]; intros H; cbn [dv_push]; [reflexivity|].
  rewrite (H b e (or_introl eq_refl)), IH; [reflexivity|].
  intros b' e' Hi. apply (H b' e'). right. exact Hi.
Qed.

(* support of products *)
Lemma dv_mul_support a b i : dv_wf a = true -> dv_wf b = true ->
  dv_get (dv_mul a b) i <> 0 -> dv_get a i <> 0 \/ dv_get b i <> 0.
Proof. intros Ha Hb. rewrite dv_mul_get by assumption. lia. Qed.

Lemma dv_scale_support e a i : dv_get (dv_scale e a) i <> 0 -> dv_get a i <> 0.
Proof. rewrite dv_scale_get. nia. Qed.

Lemma dv_get_in v : forall lo, dv_wf_from lo v = true ->
  forall b e, In (b, e) v -> dv_get v b = e /\ e <> 0.
Proof.
  induction v as [|[j f] r IH]; intros lo W b e; [intros []|].
  apply dv_wf_cons_inv in W as (H1 & H2 & H3). intros [X|X].
  - injection X as -> ->. cbn. rewrite N.eqb_refl. auto.
  - destruct (IH _ H3 b e X) as [G Ne]. split; [|exact Ne]. cbn.
    destruct (N.eqb_spec b j) as [->|]; [|exact G].
    exfalso. rewrite (dv_get_below (N.succ j) r j) in G; [congruence | exact H3 | lia].
Qed.
