(* Proofs/GenMoneyConvEq.v — the look-up side of MoneyConverter GENERATED from
   src/quantity/money/__init__.py on every run (Gen/MoneyConvImpl.v: _get_rate,
   get_rate, __call__) is equal, for every converter state and every query, to
   lookup_rate / conv_get_rate / conv_call of Model/MoneyConv.v, the functions
   the theorems of C11 are about. *)
From Coq Require Import ZArith QArith List Bool.
From QV Require Import Model.Num Model.Rounding Model.Quantity Model.Rates Model.MoneyConv
     Gen.MoneyConvImpl.
Open Scope Z_scope.

Theorem get_rate_key_impl_eq st c eff dflt :
  get_rate_key_impl st c eff dflt = lookup_rate st c eff dflt.
Proof.
  unfold get_rate_key_impl, lookup_rate, eff_date.
  destruct (cv_kind st) as [k|]; [|reflexivity]. destruct eff as [d|]; reflexivity.
Qed.

Theorem get_rate_impl_eq st dm u t eff dflt :
  get_rate_impl st dm u t eff dflt = conv_get_rate st dm u t eff dflt.
Proof.
  unfold get_rate_impl, conv_get_rate. rewrite !get_rate_key_impl_eq.
  destruct (N.eqb u t); [reflexivity|].
  destruct (N.eqb (cv_base st) u).
  { destruct (lookup_rate st t eff dflt); reflexivity. }
  destruct (N.eqb (cv_base st) t); [reflexivity|].
  destruct (lookup_rate st u eff dflt); reflexivity.
Qed.

Theorem call_impl_eq st dm u a t eff dflt :
  call_impl st dm u a t eff dflt = conv_call st dm u a t eff dflt.
Proof.
  unfold call_impl, conv_call. rewrite get_rate_impl_eq.
  destruct (conv_get_rate st dm u t eff dflt) as [[r|]|e]; reflexivity.
Qed.
