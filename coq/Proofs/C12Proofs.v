(* Proofs/C12Proofs.v — converter registration is last-in-first-out and
   restores prior behaviour (property C12), about Model/ConvStack.v. *)
From Coq Require Import ZArith QArith List Bool Lia.
From QV Require Import Model.Num Model.Quantity Model.ConvStack.
Import ListNotations.
Open Scope Z_scope.

(* ------------------------------------------------------------ list facts *)

Lemma last_opt_snoc : forall s c, last_opt (s ++ [c]) = Some c.
Proof.
  induction s as [|x r IH]; intros c; [reflexivity|].
  cbn [app last_opt]. specialize (IH c).
  destruct (r ++ [c]) eqn:E; [destruct r; discriminate|exact IH].
Qed.

Lemma last_opt_nil : forall s, last_opt s = None -> s = [].
Proof.
  induction s as [|x r IH]; intros H; [reflexivity|].
  cbn [last_opt] in H. destruct r; [discriminate|]. specialize (IH H). discriminate.
Qed.

Lemma last_opt_some : forall s t, last_opt s = Some t -> s = removelast s ++ [t].
Proof.
  induction s as [|x r IH]; intros t H; [discriminate|].
  cbn [last_opt] in H. destruct r as [|y r'].
  - injection H as ->. reflexivity.
  - specialize (IH t H). cbn [removelast app]. cbn [removelast] in IH.
    f_equal. exact IH.
Qed.

Lemma removelast_snoc : forall (s : list N) c, removelast (s ++ [c]) = s.
Proof. intros. apply removelast_last. Qed.

Lemma mem_In : forall c s, mem c s = true <-> In c s.
Proof.
  intros c s. unfold mem. rewrite existsb_exists. split.
  - intros [x [Hx E]]. apply N.eqb_eq in E. subst. exact Hx.
  - intros H. exists c. split; [exact H|apply N.eqb_refl].
Qed.

Lemma mem_notIn : forall c s, mem c s = false <-> ~ In c s.
Proof.
  intros c s. rewrite <- mem_In. destruct (mem c s); split; intros; congruence.
Qed.

(* ------------------------------------------------------------ Money: steps *)

Lemma money_remove_top : forall s c, money_remove (s ++ [c]) c = (s, RNone).
Proof.
  intros. unfold money_remove. rewrite last_opt_snoc, N.eqb_refl, removelast_snoc.
  reflexivity.
Qed.

Lemma money_remove_top' : forall s c,
  last_opt s = Some c -> money_remove s c = (removelast s, RNone).
Proof. intros s c H. unfold money_remove. rewrite H, N.eqb_refl. reflexivity. Qed.

(* the attempt to unregister anything but the most recent converter raises and
   changes nothing: IndexError on an empty registry, ValueError otherwise *)
Lemma money_remove_not_top : forall s c,
  last_opt s <> Some c ->
  money_remove s c = (s, RErr (match s with [] => EIndexError | _ => EValueError end)).
Proof.
  intros s c H. unfold money_remove. destruct (last_opt s) as [t|] eqn:L.
  - destruct (N.eqb t c) eqn:E.
    + apply N.eqb_eq in E. subst. congruence.
    + destruct s; [discriminate|]. destruct (mem c (n :: s)); reflexivity.
  - apply last_opt_nil in L. subst. reflexivity.
Qed.

Lemma remove_not_top_noop : forall ismc be s c o,
  (o = MRemove c \/ o = MLeave c) -> last_opt s <> Some c ->
  exists e, money_step ismc be s o = (s, RErr e) /\
            (s = [] -> e = EIndexError) /\ (s <> [] -> e = EValueError).
Proof.
  intros ismc be s c o Ho H.
  exists (match s with [] => EIndexError | _ => EValueError end).
  split; [|split].
  - destruct Ho; subst; cbn [money_step]; apply money_remove_not_top; exact H.
  - intros ->. reflexivity.
  - destruct s; congruence.
Qed.

(* the complement: the most recent one is popped *)
Lemma remove_top_pops : forall ismc be s c o,
  (o = MRemove c \/ o = MLeave c) -> last_opt s = Some c ->
  money_step ismc be s o = (removelast s, RNone) /\
  listing (removelast s) = tl (listing s).
Proof.
  intros ismc be s c o Ho H. split.
  - destruct Ho; subst; cbn [money_step]; apply money_remove_top'; exact H.
  - apply last_opt_some in H. rewrite H at 2. unfold listing.
    rewrite rev_app_distr. reflexivity.
Qed.

(* ------------------------------------------------------------ Money: spec *)

(* What a conversion must yield when [top] is the active converter: it alone
   is asked; no active converter or no rate -> UnitConversionError. *)
Definition spec_convert (be : benv) (top : option N) (a : Q) (f u : N) : result :=
  if N.eqb f u then RAmt a else
  match top with
  | None => RErr EUnitConversion
  | Some c => match conv_apply (be c) a f u with
              | Some x => RAmt x
              | None => RErr EUnitConversion
              end
  end.

Lemma money_convert_top : forall be s a f u,
  money_convert be s a f u = spec_convert be (nth_error (listing s) 0) a f u.
Proof.
  intros. unfold money_convert, money_equiv, spec_convert.
  destruct (N.eqb f u); [reflexivity|].
  destruct (listing s) as [|c r]; [reflexivity|].
  cbn [money_loop nth_error]. unfold money_call.
  destruct (conv_apply (be c) a f u); reflexivity.
Qed.

(* The history of a run: every call with what it returned / raised. *)
Definition ev := (mop * result)%type.

Fixpoint money_trace (ismc : N -> bool) (be : benv) (s : state) (ops : list mop) : list ev :=
  match ops with
  | [] => []
  | o :: r => let '(s1, x) := money_step ismc be s o in (o, x) :: money_trace ismc be s1 r
  end.

Definition money_final (ismc : N -> bool) (be : benv) (s : state) (ops : list mop) : state :=
  fst (money_run ismc be s ops).

Lemma money_run_trace : forall ismc be ops s,
  money_run ismc be s ops =
  (money_final ismc be s ops, map snd (money_trace ismc be s ops)).
Proof.
  intros ismc be. unfold money_final. induction ops as [|o r IH]; intros s; [reflexivity|].
  cbn [money_run money_trace]. destruct (money_step ismc be s o) as [s1 x].
  rewrite (IH s1). destruct (money_run ismc be s1 r) as [s2 xs]. reflexivity.
Qed.

Lemma money_final_cons : forall ismc be s o r,
  money_final ismc be s (o :: r) =
  money_final ismc be (fst (money_step ismc be s o)) r.
Proof.
  intros. unfold money_final. cbn [money_run].
  destruct (money_step ismc be s o) as [s1 x]. cbn [fst].
  destruct (money_run ismc be s1 r) as [s2 xs]. reflexivity.
Qed.

Lemma money_final_app : forall ismc be a s b,
  money_final ismc be s (a ++ b) = money_final ismc be (money_final ismc be s a) b.
Proof.
  intros ismc be. induction a as [|o r IH]; intros s b; [reflexivity|].
  cbn [app]. rewrite !money_final_cons. apply IH.
Qed.

Lemma money_trace_app : forall ismc be a s b,
  money_trace ismc be s (a ++ b) =
  money_trace ismc be s a ++ money_trace ismc be (money_final ismc be s a) b.
Proof.
  intros ismc be. induction a as [|o r IH]; intros s b; [reflexivity|].
  cbn [app money_trace]. rewrite money_final_cons.
  destruct (money_step ismc be s o) as [s1 x]. cbn [fst app]. f_equal. apply IH.
Qed.

(* The specification, defined on the history alone: walk back through the
   history; a successful unregistration cancels the nearest earlier
   registration that is not cancelled yet; calls that raised and conversions
   do not count.  [scan init rh k] = the (k+1)-th most recent registration
   still active; [init] = what was registered before the history began, most
   recent first. *)
Definition pushes (e : ev) : option N :=
  match e with
  | (MRegister c, RNone) | (MEnter c, RNone) => Some c
  | _ => None
  end.

Definition pops (e : ev) : bool :=
  match e with
  | (MRemove _, RNone) | (MLeave _, RNone) => true
  | _ => false
  end.

Fixpoint scan (init : list N) (rh : list ev) (k : nat) : option N :=
  match rh with
  | [] => nth_error init k
  | e :: r =>
      match pushes e with
      | Some c => match k with O => Some c | S k' => scan init r k' end
      | None => if pops e then scan init r (S k) else scan init r k
      end
  end.

(* the most recently registered converter not yet unregistered *)
Definition active (init : list N) (h : list ev) : option N := scan init (rev h) 0.

(* one step of the machine against one step of the backward walk *)
Lemma step_scan : forall ismc be s o s1 x,
  money_step ismc be s o = (s1, x) ->
  match pushes (o, x) with
  | Some c => listing s1 = c :: listing s
  | None => if pops (o, x) then exists c, listing s = c :: listing s1 else s1 = s
  end.
Proof.
  intros ismc be s o s1 x H.
  assert (REG : forall c, money_register ismc s c = (s1, x) ->
     match x with RNone => listing s1 = c :: listing s | _ => s1 = s end).
  { intros c. unfold money_register. destruct (ismc c); intros E; injection E as <- <-.
    - unfold listing. rewrite rev_app_distr. reflexivity.
    - reflexivity. }
  assert (REM : forall c, money_remove s c = (s1, x) ->
     match x with RNone => exists d, listing s = d :: listing s1 | _ => s1 = s end).
  { intros c. unfold money_remove. destruct (last_opt s) as [t|] eqn:L.
    - destruct (N.eqb t c).
      + intros E; injection E as <- <-. exists t. apply last_opt_some in L.
        rewrite L at 1. unfold listing. rewrite rev_app_distr. reflexivity.
      + destruct (mem c s); intros E; injection E as <- <-; reflexivity.
    - intros E; injection E as <- <-; reflexivity. }
  destruct o as [c|c|c|c|a f u|]; cbn [money_step] in H.
  - apply REG in H. destruct x; cbn [pushes pops]; exact H.
  - apply REM in H. destruct x; cbn [pushes pops]; exact H.
  - apply REG in H. destruct x; cbn [pushes pops]; exact H.
  - apply REM in H. destruct x; cbn [pushes pops]; exact H.
  - injection H as <- <-. cbn [pushes]. destruct (money_convert be s a f u); reflexivity.
  - injection H as <- <-. reflexivity.
Qed.

(* Refinement: after ANY sequence of calls from ANY registry, the listing of
   the machine is, position by position, what the backward walk through the
   history finds. *)
Lemma money_stack_refines : forall ismc be ops s0 k,
  nth_error (listing (money_final ismc be s0 ops)) k =
  scan (listing s0) (rev (money_trace ismc be s0 ops)) k.
Proof.
  intros ismc be ops. induction ops as [|o r IH] using rev_ind; intros s0 k.
  - reflexivity.
  - rewrite money_final_app, money_trace_app, rev_app_distr.
    set (s := money_final ismc be s0 r) in *.
    cbn [money_trace]. destruct (money_step ismc be s o) as [s1 x] eqn:E.
    rewrite money_final_cons, E. cbn [fst rev app]. unfold money_final. cbn [money_run fst].
    pose proof (step_scan _ _ _ _ _ _ E) as S. cbn [scan].
    destruct (pushes (o, x)) as [c|].
    + rewrite S. destruct k; cbn [nth_error]; [reflexivity|]. apply IH.
    + destruct (pops (o, x)).
      * destruct S as [c S]. rewrite <- IH. fold s. rewrite S. reflexivity.
      * subst s1. apply IH.
Qed.

Lemma money_uses_top : forall ismc be ops s0 a f u,
  money_convert be (money_final ismc be s0 ops) a f u =
  spec_convert be (active (listing s0) (money_trace ismc be s0 ops)) a f u.
Proof.
  intros. rewrite money_convert_top, money_stack_refines. reflexivity.
Qed.

(* a converter below the top is never consulted, whatever rates it has *)
Lemma money_lower_irrelevant : forall be be' s c a f u,
  be c = be' c ->
  money_convert be (s ++ [c]) a f u = money_convert be' (s ++ [c]) a f u.
Proof.
  intros be be' s c a f u H. rewrite !money_convert_top. unfold listing.
  rewrite rev_app_distr. cbn [rev app nth_error]. unfold spec_convert. rewrite H.
  reflexivity.
Qed.

Lemma money_entered_is_used : forall be s c a f u,
  money_convert be (s ++ [c]) a f u = spec_convert be (Some c) a f u.
Proof.
  intros. rewrite money_convert_top. unfold listing. rewrite rev_app_distr. reflexivity.
Qed.

(* ------------------------------------------------------------ with-blocks *)

Definition exec_state ismc be p s := fst (fst (exec ismc be p s)).
Definition exec_log ismc be p s := snd (fst (exec ismc be p s)).
Definition exec_outcome ismc be p s := snd (exec ismc be p s).

Lemma balanced_restores : forall ismc be p s,
  blocks_only p = true -> exec_state ismc be p s = s.
Proof.
  intros ismc be. unfold exec_state.
  induction p as [|o|a f u|e|p IHp q IHq|c body IH|p IH]; intros s B; cbn [exec].
  - reflexivity.
  - destruct o; try discriminate B; cbn [money_step]; reflexivity.
  - destruct (money_convert be s a f u); reflexivity.
  - reflexivity.
  - cbn [blocks_only] in B. apply andb_true_iff in B as [Bp Bq].
    specialize (IHp s Bp). destruct (exec ismc be p s) as [[s1 l1] o1]. cbn [fst] in IHp. subst s1.
    destruct o1; [|reflexivity].
    specialize (IHq s Bq). destruct (exec ismc be q s) as [[s2 l2] o2]. exact IHq.
  - cbn [blocks_only] in B. cbn [money_step]. unfold money_register.
    destruct (ismc c); [|reflexivity].
    specialize (IH (s ++ [c]) B).
    destruct (exec ismc be body (s ++ [c])) as [[s2 l2] o2]. cbn [fst] in IH. subst s2.
    rewrite money_remove_top. reflexivity.
  - cbn [blocks_only] in B. specialize (IH s B).
    destruct (exec ismc be p s) as [[s1 l1] o1]. cbn [fst] in IH. subst s1.
    destruct o1; reflexivity.
Qed.

(* hence every later call behaves as before the program ran *)
Lemma balanced_restores_behaviour : forall ismc be p s o,
  blocks_only p = true ->
  money_step ismc be (exec_state ismc be p s) o = money_step ismc be s o.
Proof. intros. rewrite balanced_restores by assumption. reflexivity. Qed.

(* a block: the body runs with the converter on top, __exit__ does not raise,
   the body's log and outcome (normal or exception) are the block's *)
Lemma block_exec : forall ismc be c body s,
  ismc c = true -> blocks_only body = true ->
  exec ismc be (PBlock c body) s =
  (s, exec_log ismc be body (s ++ [c]), exec_outcome ismc be body (s ++ [c])).
Proof.
  intros ismc be c body s M B. cbn [exec money_step]. unfold money_register. rewrite M.
  pose proof (balanced_restores ismc be body (s ++ [c]) B) as R.
  unfold exec_state, exec_log, exec_outcome in *.
  destruct (exec ismc be body (s ++ [c])) as [[s2 l2] o2]. cbn [fst snd] in *. subst s2.
  rewrite money_remove_top. reflexivity.
Qed.

(* ------------------------------------------------------------ other types *)

Lemma gen_register_present : forall s c, In c s -> gen_register s c = (s, RNone).
Proof.
  intros s c H. unfold gen_register. apply mem_In in H. rewrite H. reflexivity.
Qed.

Lemma gen_register_twice : forall s c,
  gen_register (fst (gen_register s c)) c = gen_register s c.
Proof.
  intros s c. unfold gen_register at 2 3. cbn [fst]. destruct (mem c s) eqn:M.
  - unfold gen_register. rewrite M. reflexivity.
  - apply gen_register_present. apply in_or_app. right. left. reflexivity.
Qed.

Lemma gen_loop_spec : forall be a f u l x,
  gen_loop be l a f u = Some x <->
  exists l1 c l2, l = l1 ++ c :: l2 /\ conv_apply (be c) a f u = Some x /\
                  forall d, In d l1 -> conv_apply (be d) a f u = None.
Proof.
  intros be a f u. induction l as [|c r IH]; intros x.
  - cbn [gen_loop]. split; [discriminate|].
    intros [l1 [c [l2 [E _]]]]. destruct l1; discriminate.
  - cbn [gen_loop]. destruct (conv_apply (be c) a f u) as [y|] eqn:A.
    + split.
      * intros E. injection E as ->. exists [], c, r. repeat split; [exact A|intros d []].
      * intros [l1 [c' [l2 [E [A' N']]]]]. destruct l1 as [|d l1].
        -- injection E as <- <-. congruence.
        -- injection E as <- _. rewrite (N' c (or_introl eq_refl)) in A. discriminate.
    + rewrite IH. split.
      * intros [l1 [c' [l2 [E [A' N']]]]]. exists (c :: l1), c', l2. subst r.
        repeat split; [exact A'|]. intros d [<-|D]; [exact A|apply N'; exact D].
      * intros [l1 [c' [l2 [E [A' N']]]]]. destruct l1 as [|d l1].
        -- injection E as <- _. congruence.
        -- injection E as <- ->. exists l1, c', l2. repeat split; [exact A'|].
           intros d' D. apply N'. right. exact D.
Qed.

Lemma gen_loop_none : forall be a f u l,
  gen_loop be l a f u = None <-> forall d, In d l -> conv_apply (be d) a f u = None.
Proof.
  intros be a f u. induction l as [|c r IH].
  - split; [intros _ d []|reflexivity].
  - cbn [gen_loop]. destruct (conv_apply (be c) a f u) as [y|] eqn:A.
    + split; [discriminate|]. intros H. rewrite (H c (or_introl eq_refl)) in A. discriminate.
    + rewrite IH. split.
      * intros H d [<-|D]; [exact A|apply H; exact D].
      * intros H d D. apply H. right. exact D.
Qed.

(* in registration order: the LAST registered converter that returns an
   amount wins *)
Lemma gen_most_recent_first : forall be s a f u x,
  f <> u ->
  (gen_convert be s a f u = RAmt x <->
   exists older c newer, s = older ++ c :: newer /\
        conv_apply (be c) a f u = Some x /\
        forall d, In d newer -> conv_apply (be d) a f u = None).
Proof.
  intros be s a f u x Hfu. unfold gen_convert.
  apply N.eqb_neq in Hfu. rewrite Hfu.
  destruct (gen_loop be (listing s) a f u) as [y|] eqn:G.
  - split.
    + intros E. injection E as ->. apply gen_loop_spec in G.
      destruct G as [l1 [c [l2 [E [A Nn]]]]].
      exists (rev l2), c, (rev l1). repeat split.
      * unfold listing in E. apply (f_equal (@rev N)) in E.
        rewrite rev_involutive, rev_app_distr in E. cbn [rev] in E.
        rewrite <- app_assoc in E. exact E.
      * exact A.
      * intros d D. apply Nn. apply in_rev. exact D.
    + intros [older [c [newer [E [A Nn]]]]].
      assert (G' : gen_loop be (listing s) a f u = Some x).
      { apply gen_loop_spec. exists (rev newer), c, (rev older). repeat split.
        - subst s. unfold listing. rewrite rev_app_distr. cbn [rev].
          rewrite <- app_assoc. reflexivity.
        - exact A.
        - intros d D. apply Nn. apply in_rev. exact D. }
      congruence.
  - split; [discriminate|].
    intros [older [c [newer [E [A Nn]]]]]. exfalso.
    rewrite gen_loop_none in G. specialize (G c).
    rewrite G in A; [discriminate|]. unfold listing. rewrite <- in_rev. subst s.
    apply in_or_app. right. left. reflexivity.
Qed.

Lemma gen_none_raises : forall be s a f u,
  f <> u ->
  (gen_convert be s a f u = RErr EUnitConversion <->
   forall d, In d s -> conv_apply (be d) a f u = None).
Proof.
  intros be s a f u Hfu. unfold gen_convert.
  apply N.eqb_neq in Hfu. rewrite Hfu.
  destruct (gen_loop be (listing s) a f u) as [y|] eqn:G.
  - split; [discriminate|]. intros H. exfalso.
    assert (G' : gen_loop be (listing s) a f u = None).
    { apply gen_loop_none. intros d D. apply H. unfold listing in D.
      apply in_rev in D. exact D. }
    congruence.
  - split; [|reflexivity]. intros _ d D. rewrite gen_loop_none in G. apply G.
    unfold listing. rewrite <- in_rev. exact D.
Qed.

Lemma remove_first_mid : forall c s l,
  ~ In c s -> remove_first c (s ++ c :: l) = s ++ l.
Proof.
  intros c. induction s as [|x r IH]; intros l H.
  - cbn [app remove_first]. rewrite N.eqb_refl. reflexivity.
  - cbn [app remove_first]. destruct (N.eqb x c) eqn:E.
    + apply N.eqb_eq in E. subst. exfalso. apply H. left. reflexivity.
    + f_equal. apply IH. intros D. apply H. right. exact D.
Qed.

(* removing a converter gives the registry in which it was never registered *)
Lemma gen_remove_as_never_registered : forall s c l,
  ~ In c s -> gen_remove (s ++ c :: l) c = (s ++ l, RNone).
Proof.
  intros s c l H. unfold gen_remove.
  assert (M : mem c (s ++ c :: l) = true).
  { apply mem_In. apply in_or_app. right. left. reflexivity. }
  rewrite M, remove_first_mid by exact H. reflexivity.
Qed.

Lemma gen_remove_restores : forall s c,
  ~ In c s -> gen_remove (fst (gen_register s c)) c = (s, RNone).
Proof.
  intros s c H. unfold gen_register. cbn [fst].
  apply mem_notIn in H as M. rewrite M.
  rewrite gen_remove_as_never_registered by exact H. rewrite app_nil_r. reflexivity.
Qed.

Lemma gen_remove_restores_behaviour : forall be s c o,
  ~ In c s ->
  gen_step be (fst (gen_remove (fst (gen_register s c)) c)) o = gen_step be s o.
Proof. intros. rewrite gen_remove_restores by assumption. reflexivity. Qed.

Lemma gen_remove_absent : forall s c,
  ~ In c s -> gen_remove s c = (s, RErr EValueError).
Proof. intros s c H. unfold gen_remove. apply mem_notIn in H. rewrite H. reflexivity. Qed.

(* no converter is ever listed twice *)
Lemma remove_first_In : forall c x s, In x (remove_first c s) -> In x s.
Proof.
  intros c x. induction s as [|y r IH]; intros H; [exact H|].
  cbn [remove_first] in H. destruct (N.eqb y c).
  - right. exact H.
  - destruct H as [<-|H]; [left; reflexivity|right; apply IH; exact H].
Qed.

Lemma remove_first_NoDup : forall c s, NoDup s -> NoDup (remove_first c s).
Proof.
  intros c. induction s as [|y r IH]; intros H; [exact H|].
  cbn [remove_first]. inversion H as [|? ? Hn Hr]; subst. destruct (N.eqb y c).
  - exact Hr.
  - constructor; [|apply IH; exact Hr]. intros D. apply Hn.
    apply remove_first_In in D. exact D.
Qed.

Lemma gen_step_NoDup : forall be s o, NoDup s -> NoDup (fst (gen_step be s o)).
Proof.
  intros be s o H. destruct o as [c|c|a f u|]; cbn [gen_step fst].
  - unfold gen_register. cbn [fst]. destruct (mem c s) eqn:M; [exact H|].
    apply mem_notIn in M. apply NoDup_rev in H. rewrite <- (rev_involutive (s ++ [c])).
    apply NoDup_rev. rewrite rev_app_distr. cbn [rev app]. constructor; [|exact H].
    rewrite <- in_rev. exact M.
  - unfold gen_remove. destruct (mem c s); cbn [fst]; [|exact H].
    apply remove_first_NoDup. exact H.
  - exact H.
  - exact H.
Qed.

Lemma gen_run_NoDup : forall be ops s, NoDup s -> NoDup (fst (gen_run be s ops)).
Proof.
  intros be. induction ops as [|o r IH]; intros s H; [exact H|].
  cbn [gen_run]. pose proof (gen_step_NoDup be s o H) as H1.
  destruct (gen_step be s o) as [s1 x]. cbn [fst] in H1. specialize (IH s1 H1).
  destruct (gen_run be s1 r) as [s2 xs]. exact IH.
Qed.

(* combined statements used by Properties/C12.v *)
Lemma gen_idempotent_register : forall s c,
  (In c s -> gen_register s c = (s, RNone)) /\
  gen_register (fst (gen_register s c)) c = gen_register s c.
Proof. intros s c. split; [apply gen_register_present|apply gen_register_twice]. Qed.

Lemma gen_remove_restores_full : forall be s c o,
  ~ In c s ->
  gen_remove (fst (gen_register s c)) c = (s, RNone) /\
  gen_step be (fst (gen_remove (fst (gen_register s c)) c)) o = gen_step be s o.
Proof.
  intros be s c o H.
  split; [apply gen_remove_restores|apply gen_remove_restores_behaviour]; exact H.
Qed.
