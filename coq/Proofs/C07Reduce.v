(* Proofs/C07Reduce.v — every path of Term._reduce_items, the operations and
   normalized() preserve the denotation. *)
From Coq Require Import ZArith QArith Qabs List Bool Lia Lqa Qpower Permutation
     Setoid Morphisms.
From QV Require Import Model.Num Model.Dim Model.Term Proofs.DimProofs Proofs.C07Sem.
Open Scope Z_scope.

(* Hypotheses on the element environment (all decidable on a finite table:
   Model/Term.v table_ok, lemma table_ok_sound in C07Proofs.v). *)
Record env_sound (E : env) : Prop := {
  (* a base element is its own normalized definition *)
  es_base : forall a, e_base (E a) = true -> e_nf (E a) = [(El a, 1)];
  (* normalized definitions are in normal form *)
  es_canon : forall a, canonical E (e_nf (E a)) = true;
  (* _get_factor is sound: factor b a = Some c  ->  b = c * a, c <> 0 *)
  es_factor : forall a b c, factor E b a = Some c ->
      ~ c == 0 /\ nf_eq (den_elem E b) (nf_scale c (den_elem E a));
  (* _get_factor is symmetric in its definedness *)
  es_factor_sym : forall a b, factor E b a = None -> factor E a b = None;
  (* distinct non-convertible elements with one sort key have distinct names *)
  es_names : forall a b, a <> b -> e_key (E a) = e_key (E b) ->
      factor E b a = None -> e_name (E a) <> e_name (E b);
  (* an element comparing equal (==) to a base element is that element *)
  es_pyeq : forall a b, e_base (E a) || e_base (E b) = true ->
      elem_pyeq E (El a) (El b) = true -> a = b
}.

Lemma Qpow1 (x : Q) : x ^ 1 == x.
Proof. reflexivity. Qed.

Section Reduce.
Variable E : env.
Hypothesis HS : env_sound E.

Notation sem := (sem E).
Notation sem_item := (sem_item E).
Notation semE := (semE E).

Lemma sem_item_num q e : sem_item (Num q, e) = gnum (q ^ e).
Proof. reflexivity. Qed.
Lemma sem_nil : sem [] = gone.
Proof. reflexivity. Qed.
Lemma sem_nil' : sem (@nil (elem * Z)) = gone.
Proof. reflexivity. Qed.
Lemma sem_item_el a e : sem_item (El a, e) = gpow (semE a) e.
Proof. reflexivity. Qed.

(* ---- facts from canonical normalized definitions ---- *)
Definition nf_item_ok (it : item) : bool := is_num (fst it) || base_elem_item E it.

Lemma base_items_num1 l :
  forallb (fun it => base_elem_item E it && nonzero_exp it) l = true ->
  fst (sem0 l) == 1.
Proof.
  induction l as [|[x e] l IH]; cbn [forallb sem0 fold_right]; intros H.
  - reflexivity.
  - apply andb_prop in H as [H1 H2]. apply andb_prop in H1 as [H1 _].
    fold (sem0 l). cbn [gmul fst]. rewrite (IH H2).
    destruct x as [q|a]; [discriminate|]. cbn. reflexivity.
Qed.

Lemma canon_elems_forall l :
  canon_elems E l = true ->
  forallb (fun it => base_elem_item E it && nonzero_exp it) l = true.
Proof. unfold canon_elems. intros H. apply andb_prop in H. tauto. Qed.

Lemma canonical_cases l :
  canonical E l = true ->
  (exists q r, l = (Num q, 1) :: r /\ ~ q == 1 /\ ~ q == 0 /\ canon_elems E r = true)
  \/ canon_elems E l = true.
Proof.
  destruct l as [|[[q|a] e] r]; cbn [canonical]; auto.
  intros H. left. apply andb_prop in H as [H H4]. apply andb_prop in H as [H H3].
  apply andb_prop in H as [H1 H2]. apply Z.eqb_eq in H1. subst e.
  exists q, r. repeat split; auto.
  - intros Hq. apply Qeq_bool_iff in Hq. rewrite Hq in H2. discriminate.
  - intros Hq. apply Qeq_bool_iff in Hq. rewrite Hq in H3. discriminate.
Qed.

Lemma canonical_nz l : canonical E l = true -> gnz (sem0 l).
Proof.
  intros H. apply canonical_cases in H as [(q & r & -> & H1 & H2 & H3)|H]; unfold gnz.
  - cbn [sem0 fold_right]. fold (sem0 r). cbn [gmul fst sem0_item snd gnum].
    rewrite (base_items_num1 r (canon_elems_forall _ H3)).
    intros H. apply H2. rewrite <- H. cbn. ring.
  - rewrite (base_items_num1 l (canon_elems_forall _ H)). discriminate.
Qed.

Lemma semE_nz a : gnz (semE a).
Proof. apply canonical_nz. apply (es_canon E HS). Qed.

Lemma canonical_items_ok l : canonical E l = true -> forallb nf_item_ok l = true.
Proof.
  assert (A : forall r, forallb (fun it => base_elem_item E it && nonzero_exp it) r = true ->
                        forallb nf_item_ok r = true).
  { induction r as [|it r IH]; cbn [forallb]; auto. intros H.
    apply andb_prop in H as [H1 H2]. apply andb_prop in H1 as [H1 _].
    rewrite (IH H2). unfold nf_item_ok. rewrite H1. rewrite orb_true_r. reflexivity. }
  intros H. apply canonical_cases in H as [(q & r & -> & H1 & H2 & H3)|H].
  - cbn [forallb]. rewrite (A r (canon_elems_forall _ H3)). reflexivity.
  - apply A. apply canon_elems_forall. exact H.
Qed.

Lemma factor_sem a b c :
  factor E b a = Some c -> geq (semE b) (gmul (gnum c) (semE a)).
Proof.
  intros H. destruct (es_factor E HS a b c H) as [_ [H1 H2]].
  cbn [nf_scale nf_num nf_dim] in H1, H2.
  destruct (den_elem_sem E a) as [A1 A2]. destruct (den_elem_sem E b) as [B1 B2].
  cbn [sem_nf fst snd] in A1, A2, B1, B2.
  split; cbn [gmul gnum fst snd].
  - rewrite <- B1, H1, qmul_eq, A1. reflexivity.
  - intros i. rewrite <- B2, H2, A2. lia.
Qed.

Lemma same_elem_true x y : same_elem x y = true -> exists a, x = El a /\ y = El a.
Proof.
  destruct x as [p|a], y as [q|b]; cbn; try discriminate.
  intros H. apply N.eqb_eq in H. subst. eauto.
Qed.

Lemma factor_elem_some y x c :
  factor_elem E y x = Some c -> exists b a, y = El b /\ x = El a /\ factor E b a = Some c.
Proof.
  destruct y as [p|b], x as [q|a]; cbn; try discriminate. eauto.
Qed.

(* ---- the merge loop ---- *)
Lemma merge_into_sem acc it :
  geq (gmul (gnum (fst (merge_into E acc it))) (sem (snd (merge_into E acc it))))
      (gmul (sem acc) (sem_item it)).
Proof.
  destruct it as [y e].
  induction acc as [|[x1 e1] rest IH]; cbn [merge_into fst snd].
  - cbn [sem fold_right]. gsolve.
  - destruct (same_elem x1 y) eqn:Hs.
    + apply same_elem_true in Hs as (a & -> & ->). cbn [fst snd].
      rewrite !sem_cons, !sem_item_el. rewrite (gpow_add _ e1 e (semE_nz a)). gsolve.
    + destruct (factor_elem E y x1) as [c|] eqn:Hf.
      * apply factor_elem_some in Hf as (b & a & -> & -> & Hf). cbn [fst snd].
        rewrite !sem_cons, !sem_item_el.
        rewrite (gpow_add _ e1 e (semE_nz a)).
        rewrite (factor_sem a b c Hf). rewrite gpow_mul, gpow_gnum.
        split; cbn [fst snd gmul gnum gpow]; [rewrite qpow_eq; ring | intros; lia].
      * cbn [fst snd]. rewrite !sem_cons.
        destruct IH as [I1 I2]. cbn [fst snd gmul gnum] in I1, I2.
        split; cbn [fst snd gmul gnum].
        -- transitivity (fst (sem_item (x1, e1)) *
                         (fst (merge_into E rest (y, e)) * fst (sem (snd (merge_into E rest (y, e))))))%Q;
             [ring|]. rewrite I1. ring.
        -- intros i. specialize (I2 i). lia.
Qed.

Definition gst (st : Q * list item) : G := gmul (gnum (fst st)) (sem (snd st)).

Lemma scan_fold_sem r : forall st,
  geq (gst (fold_left (scan_step E) r st)) (gmul (gst st) (sem r)).
Proof.
  induction r as [|it r IH]; intros st; cbn [fold_left].
  - cbn [sem fold_right]. symmetry. apply gmul_one_r.
  - rewrite IH. rewrite sem_cons.
    assert (H : geq (gst (scan_step E st it)) (gmul (gst st) (sem_item it))).
    { unfold scan_step, gst. cbn [fst snd].
      pose proof (merge_into_sem (snd st) it) as [M1 M2].
      cbn [fst snd gmul gnum] in M1, M2.
      split; cbn [fst snd gmul gnum].
      - rewrite qmul_eq. rewrite <- Qmult_assoc. rewrite M1. ring.
      - intros i. specialize (M2 i). lia. }
    rewrite H. symmetry. apply gmul_assoc.
Qed.

Lemma scan_group_sem g : geq (gst (scan_group E g)) (sem g).
Proof.
  destruct g as [|it0 r]; cbn [scan_group].
  - unfold gst. cbn. gsolve.
  - rewrite scan_fold_sem. unfold gst. cbn [fst snd]. rewrite !sem_cons, ?sem_nil, ?sem_nil'. gsolve.
Qed.

(* ---- filters and sorts ---- *)
Lemma sem_item_exp0 x : geq (sem_item (x, 0)) gone.
Proof. destruct x as [q|a]; [rewrite sem_item_num | rewrite sem_item_el]; gsolve; reflexivity. Qed.

Lemma filter_nonzero_sem l : geq (sem (filter nonzero_exp l)) (sem l).
Proof.
  induction l as [|[x e] l IH]; cbn [filter]; [reflexivity|].
  unfold nonzero_exp at 1. cbn [snd]. destruct (Z.eqb_spec e 0) as [->|He]; cbn [negb].
  - rewrite sem_cons, sem_item_exp0, IH. symmetry. apply gmul_one_l.
  - rewrite !sem_cons, IH. reflexivity.
Qed.

Lemma sem_item_one q e : q == 1 -> geq (sem_item (Num q, e)) gone.
Proof.
  intros H. rewrite sem_item_num. split; cbn; [|reflexivity].
  rewrite H. apply Qpower_1.
Qed.

Lemma filter_items_sem l : geq (sem (filter_items l)) (sem l).
Proof.
  unfold filter_items.
  induction l as [|[x e] l IH]; cbn [filter]; [reflexivity|].
  unfold keep_item at 1. cbn [fst snd].
  destruct (Z.eqb_spec e 0) as [->|He]; cbn [negb andb].
  - rewrite sem_cons, sem_item_exp0, IH. symmetry. apply gmul_one_l.
  - destruct (elem_is_one x) eqn:H1; cbn [negb].
    + destruct x as [q|a]; [|discriminate]. cbn in H1. apply Qeq_bool_iff in H1.
      rewrite sem_cons, (sem_item_one q e H1), IH. symmetry. apply gmul_one_l.
    + rewrite !sem_cons, IH. reflexivity.
Qed.

Lemma ninsert_perm x l : Permutation (ninsert E x l) (x :: l).
Proof.
  induction l as [|y r IH]; cbn [ninsert]; [reflexivity|].
  destruct (name_ltb _ _); [|reflexivity].
  rewrite IH. apply perm_swap.
Qed.
Lemma nsort_perm l : Permutation (nsort E l) l.
Proof.
  induction l as [|x l IH]; cbn [nsort fold_right]; [reflexivity|].
  fold (nsort E l). rewrite ninsert_perm. constructor. exact IH.
Qed.

Lemma kinsert_perm x l : Permutation (kinsert x l) (x :: l).
Proof.
  induction l as [|y r IH]; cbn [kinsert]; [reflexivity|].
  destruct (fst y <? fst x); [|reflexivity].
  rewrite IH. apply perm_swap.
Qed.
Lemma ksort_perm l : Permutation (ksort l) l.
Proof.
  induction l as [|x l IH]; cbn [ksort fold_right]; [reflexivity|].
  fold (ksort l). rewrite kinsert_perm. constructor. exact IH.
Qed.

(* ---- key assignment and grouping ---- *)
Lemma first_idx_keys_snd l : forall m idx, map snd (first_idx_keys E m idx l) = l.
Proof.
  induction l as [|it r IH]; intros m idx; cbn [first_idx_keys map]; [reflexivity|].
  destruct (zassoc _ m); cbn [map snd]; rewrite IH; reflexivity.
Qed.

Lemma assign_keys_snd keep l : map snd (assign_keys E keep l) = l.
Proof.
  unfold assign_keys. destruct keep.
  - apply first_idx_keys_snd.
  - unfold sort_keys. rewrite map_map. cbn [snd]. apply map_id.
Qed.

Lemma kgroup_flat l : flat_map snd (kgroup l) = map snd l.
Proof.
  induction l as [|[k it] r IH]; cbn [kgroup map]; [reflexivity|].
  destruct (kgroup r) as [|[k' g] gs] eqn:Hg.
  - cbn in IH. cbn. rewrite <- IH. reflexivity.
  - cbn [flat_map snd] in IH. destruct (k =? k'); cbn [flat_map snd app]; rewrite <- IH; reflexivity.
Qed.

Definition keyed_ok (x : Z * item) : Prop := 0 < fst x \/ is_num (fst (snd x)) = true.

Lemma first_idx_keys_ok l : forall m idx,
  0 <= idx -> (forall k v, zassoc k m = Some v -> 0 < k -> 0 < v) ->
  Forall keyed_ok (first_idx_keys E m idx l).
Proof.
  induction l as [|[x e] r IH]; intros m idx Hidx Hm; cbn [first_idx_keys]; [constructor|].
  cbn [fst]. destruct (zassoc (nsk E x) m) as [v|] eqn:Hz.
  - constructor.
    + unfold keyed_ok. cbn [fst snd]. destruct x as [q|a]; [right; reflexivity|].
      left. apply (Hm _ _ Hz). cbn. lia.
    + apply IH; [lia | exact Hm].
  - constructor.
    + left. cbn. lia.
    + apply IH; [lia|]. intros k v. cbn [zassoc].
      destruct (k =? nsk E x); [|apply Hm]. intros [= <-] _. lia.
Qed.

Lemma assign_keys_ok keep l : Forall keyed_ok (assign_keys E keep l).
Proof.
  unfold assign_keys. destruct keep.
  - apply first_idx_keys_ok; [lia|]. intros k v. cbn.
    destruct (Z.eqb_spec k (-1)); [intros; lia|].
    destruct (Z.eqb_spec k 0); [intros; lia | discriminate].
  - unfold sort_keys. induction l as [|[x e] l IH]; cbn [map]; constructor; auto.
    unfold keyed_ok. cbn [fst snd]. destruct x as [q|a]; [right; reflexivity | left; cbn; lia].
Qed.

Definition group_ok (kg : Z * list item) : Prop :=
  Forall (fun it => keyed_ok (fst kg, it)) (snd kg).

Lemma kgroup_ok l : Forall keyed_ok l -> Forall group_ok (kgroup l).
Proof.
  induction l as [|[k it] r IH]; cbn [kgroup]; intros H; [constructor|].
  inversion H as [|? ? H1 H2]; subst. specialize (IH H2).
  destruct (kgroup r) as [|[k' g] gs].
  - constructor; [|constructor]. unfold group_ok. cbn. constructor; auto.
  - inversion IH as [|? ? G1 G2]; subst.
    destruct (Z.eqb_spec k k') as [->|Hk].
    + constructor; auto. unfold group_ok in *. cbn [fst snd] in *. constructor; auto.
    + constructor; [|constructor; auto]. unfold group_ok. cbn. constructor; auto.
Qed.

(* ---- one group ---- *)
Lemma num_group_sem g : forall n,
  Forall (fun it => is_num (fst it) = true) g ->
  geq (gnum (fold_left (fun n it => qmul n (pow_item it)) g n)) (gmul (gnum n) (sem g)).
Proof.
  induction g as [|[x e] g IH]; intros n H; cbn [fold_left].
  - cbn [sem fold_right]. gsolve.
  - inversion H as [|? ? H1 H2]; subst. rewrite (IH _ H2). rewrite sem_cons.
    destruct x as [q|a]; [|discriminate]. rewrite sem_item_num.
    unfold pow_item, pow_exact. cbn [fst snd].
    split; cbn [fst snd gmul gnum]; [rewrite qmul_eq, qpow_eq; ring | intros; lia].
Qed.

Lemma group_step_sem keep st kg :
  group_ok kg ->
  geq (gst (group_step E keep st kg)) (gmul (gst st) (sem (snd kg))).
Proof.
  intros Hok. unfold group_step. destruct (Z.ltb_spec 0 (fst kg)) as [Hk|Hk].
  - unfold gst at 1. cbn [fst snd].
    pose proof (scan_group_sem (snd kg)) as Hsc. unfold gst in Hsc.
    set (sc := scan_group E (snd kg)) in *.
    assert (Hacc : geq (sem (if keep then filter nonzero_exp (snd sc)
                             else nsort E (filter nonzero_exp (snd sc))))
                       (sem (snd sc))).
    { destruct keep.
      - apply filter_nonzero_sem.
      - rewrite (sem_perm E _ _ (nsort_perm _)). apply filter_nonzero_sem. }
    rewrite sem_app, Hacc. rewrite <- Hsc. unfold gst.
    split; cbn [fst snd gmul gnum]; [rewrite qmul_eq; ring | intros; lia].
  - unfold gst at 1. cbn [fst snd]. rewrite num_group_sem.
    + unfold gst. gsolve.
    + unfold group_ok in Hok. eapply Forall_impl; [|exact Hok].
      intros it [H|H]; cbn [fst snd] in *; [lia | exact H].
Qed.

Lemma group_fold_sem keep gs : forall st,
  Forall group_ok gs ->
  geq (gst (fold_left (group_step E keep) gs st)) (gmul (gst st) (sem (flat_map snd gs))).
Proof.
  induction gs as [|kg gs IH]; intros st H; cbn [fold_left flat_map].
  - cbn [sem fold_right]. symmetry. apply gmul_one_r.
  - inversion H as [|? ? H1 H2]; subst. rewrite (IH _ H2).
    rewrite (group_step_sem keep st kg H1). rewrite sem_app. symmetry. apply gmul_assoc.
Qed.

(* ---- the general path ---- *)
Theorem general_sem keep l : geq (sem (general E keep l)) (sem l).
Proof.
  unfold general.
  set (groups := kgroup (ksort (assign_keys E keep l))).
  set (st := fold_left (group_step E keep) groups (1%Q, [])).
  assert (Hst : geq (gst st) (sem l)).
  { unfold st. rewrite group_fold_sem.
    - unfold groups. rewrite kgroup_flat.
      rewrite (sem_perm E _ l).
      + unfold gst. cbn [fst snd sem fold_right]. gsolve.
      + rewrite <- (assign_keys_snd keep l) at 2. apply Permutation_map. apply ksort_perm.
    - unfold groups. apply kgroup_ok.
      eapply Permutation_Forall; [symmetry; apply ksort_perm | apply assign_keys_ok]. }
  destruct (Qeq_bool (fst st) 1) eqn:H1; cbn [negb].
  - rewrite <- Hst. unfold gst. apply Qeq_bool_iff in H1.
    split; cbn [fst snd gmul gnum]; [rewrite H1; ring | intros; lia].
  - rewrite <- Hst. unfold gst. rewrite sem_cons, sem_item_num.
    split; cbn [fst snd gmul gnum]; [|intros; lia].
    cbn. reflexivity.
Qed.

(* ---- all paths of _reduce_items ---- *)
Theorem reduce_items_sem lazy n keep l :
  geq (sem (reduce_items E lazy n keep l)) (sem l).
Proof.
  unfold reduce_items.
  destruct n as [[|[p|p|]]|]; try apply general_sem.
  - (* n = 2 *)
    destruct p as [p|p|]; try apply general_sem.
    destruct l as [|[x1 e1] [|[x2 e2] [|? ?]]]; try apply general_sem.
    destruct x1 as [p|a], x2 as [q|b].
    + (* two numerics *)
      destruct (Qeq_bool (qmul (pow_exact p e1) (pow_exact q e2)) 1) eqn:H1; cbn [negb].
      * destruct lazy; [|apply general_sem].
        rewrite general_sem. rewrite ?sem_nil, ?sem_nil'. apply Qeq_bool_iff in H1.
        rewrite !sem_cons, !sem_item_num, ?sem_nil, ?sem_nil'.
        unfold pow_exact in H1. rewrite qmul_eq, !qpow_eq in H1.
        split; cbn [fst snd gmul gnum gone]; [|intros; lia].
        setoid_replace (p ^ e1 * (q ^ e2 * 1))%Q with (p ^ e1 * q ^ e2)%Q by ring.
        symmetry; exact H1.
      * rewrite !sem_cons, !sem_item_num, ?sem_nil, ?sem_nil'. unfold pow_exact.
        split; cbn [fst snd gmul gnum gone C07Sem.sem fold_right]; [|intros; lia].
        rewrite Qpow1, qmul_eq, !qpow_eq. ring.
    + apply filter_items_sem.
    + rewrite filter_items_sem. rewrite !sem_cons. apply gmul_swap.
    + destruct (N.eqb_spec a b) as [->|Hab].
      * destruct (Z.eqb_spec (e1 + e2) 0) as [H0|H0].
        -- rewrite !sem_cons, !sem_item_el, ?sem_nil, ?sem_nil'.
           rewrite gmul_one_r.
           rewrite <- (gpow_add _ e1 e2 (semE_nz b)). rewrite H0. symmetry. apply gpow_0.
        -- rewrite !sem_cons, !sem_item_el, ?sem_nil, ?sem_nil'.
           rewrite (gpow_add _ e1 e2 (semE_nz b)). gsolve.
      * destruct (factor E b a) as [c|] eqn:Hf.
        -- rewrite filter_items_sem. rewrite !sem_cons, !sem_item_el, sem_item_num, ?sem_nil, ?sem_nil'.
           rewrite (gpow_add _ e1 e2 (semE_nz a)).
           rewrite (factor_sem a b c Hf). rewrite gpow_mul, gpow_gnum.
           split; cbn [fst snd gmul gnum gpow gone]; [|intros; lia].
           rewrite Qpow1, qpow_eq. ring.
        -- destruct keep; [apply filter_items_sem|].
           rewrite filter_items_sem. unfold sort2.
           destruct (_ <? _); [|reflexivity].
           rewrite !sem_cons. apply gmul_swap.
  - (* n = 1 *)
    apply filter_items_sem.
Qed.

(* ---- operations ---- *)
Lemma recip_sem l : geq (sem (recip_items l)) (gpow (sem l) (-1)).
Proof.
  induction l as [|[x e] l IH]; cbn [recip_items map].
  - rewrite ?sem_nil, ?sem_nil'. symmetry. apply gpow_one.
  - fold (recip_items l). rewrite !sem_cons, IH, gpow_mul. cbn [fst snd].
    apply gmul_proper; [|reflexivity].
    destruct x as [q|a].
    + rewrite !sem_item_num, gpow_gnum. apply gnum_proper.
      replace (- e) with (e * -1) by lia. apply Qpower_mult.
    + rewrite !sem_item_el, gpow_pow. replace (e * -1) with (- e) by lia. reflexivity.
Qed.

Lemma pow_items_sem k l :
  geq (sem (map (fun it => (fst it, k * snd it)) l)) (gpow (sem l) k).
Proof.
  induction l as [|[x e] l IH]; cbn [map].
  - rewrite ?sem_nil, ?sem_nil'. symmetry. apply gpow_one.
  - rewrite !sem_cons, IH, gpow_mul. cbn [fst snd].
    apply gmul_proper; [|reflexivity].
    destruct x as [q|a].
    + rewrite !sem_item_num, gpow_gnum. apply gnum_proper.
      replace (k * e) with (e * k) by lia. apply Qpower_mult.
    + rewrite !sem_item_el, gpow_pow. replace (k * e) with (e * k) by lia. reflexivity.
Qed.

Lemma mk_term_sem sized reduce l : geq (sem (mk_term E sized reduce l)) (sem l).
Proof.
  unfold mk_term. destruct (_ && _); [apply reduce_items_sem | reflexivity].
Qed.

Lemma mul_sem s t : geq (sem (mul E s t)) (gmul (sem s) (sem t)).
Proof. unfold mul. rewrite reduce_items_sem. apply sem_app. Qed.

Lemma mul_num_sem s q : geq (sem (mul_num E s q)) (gmul (gnum q) (sem s)).
Proof.
  unfold mul_num. rewrite reduce_items_sem, sem_cons, sem_item_num.
  apply gmul_proper; [|reflexivity]. apply gnum_proper. cbn. reflexivity.
Qed.

Lemma div_sem s t : geq (sem (div E s t)) (gmul (sem s) (gpow (sem t) (-1))).
Proof. unfold div. rewrite reduce_items_sem, sem_app, recip_sem. reflexivity. Qed.

Lemma div_num_sem s q : geq (sem (div_num E s q)) (gmul (gnum (/ q)) (sem s)).
Proof.
  unfold div_num. rewrite reduce_items_sem, sem_cons, sem_item_num.
  apply gmul_proper; [|reflexivity]. apply gnum_proper. cbn. reflexivity.
Qed.

Lemma rdiv_num_sem q s : geq (sem (rdiv_num E q s)) (gmul (gnum q) (gpow (sem s) (-1))).
Proof.
  unfold rdiv_num. rewrite reduce_items_sem, sem_cons, sem_item_num, recip_sem.
  apply gmul_proper; [|reflexivity]. apply gnum_proper. cbn. reflexivity.
Qed.

Lemma pow_sem s k : geq (sem (pow E s k)) (gpow (sem s) k).
Proof. unfold pow. rewrite mk_term_sem. apply pow_items_sem. Qed.

(* ---- normalized() ---- *)
Lemma gpow_gbase a k : geq (gpow (gbase a 1) k) (gbase a k).
Proof.
  split; cbn [fst snd gpow gbase]; [apply Qpower_1|].
  intros i. destruct (N.eqb i a); lia.
Qed.

Lemma semE_base a : e_base (E a) = true -> geq (semE a) (gbase a 1).
Proof.
  intros H. unfold semE. rewrite (es_base E HS a H). cbn [sem0 fold_right sem0_item fst snd].
  apply gmul_one_r.
Qed.

Lemma scaled_nf_sem e l :
  forallb nf_item_ok l = true ->
  geq (sem (map (fun b => (fst b, snd b * e)) l)) (gpow (sem0 l) e).
Proof.
  induction l as [|[x eb] l IH]; cbn [map forallb]; intros H.
  - rewrite ?sem_nil, ?sem_nil'. cbn [sem0 fold_right]. symmetry. apply gpow_one.
  - apply andb_prop in H as [H1 H2]. cbn [sem0 fold_right]. fold (sem0 l).
    rewrite sem_cons, (IH H2), gpow_mul. cbn [fst snd].
    apply gmul_proper; [|reflexivity].
    destruct x as [q|a].
    + rewrite sem_item_num. unfold sem0_item. cbn [fst snd]. rewrite gpow_gnum.
      apply gnum_proper. apply Qpower_mult.
    + unfold nf_item_ok, base_elem_item in H1. cbn [fst is_num orb] in H1.
      rewrite sem_item_el. unfold sem0_item. cbn [fst snd].
      rewrite (semE_base a H1). rewrite !gpow_gbase.
      rewrite <- (gpow_gbase a eb), gpow_pow, gpow_gbase. reflexivity.
Qed.

Lemma expand_item_sem it : geq (sem (expand_item E it)) (sem_item it).
Proof.
  destruct it as [x e]. unfold expand_item. cbn [fst snd].
  destruct x as [q|a].
  - rewrite sem_cons, ?sem_nil, ?sem_nil'. apply gmul_one_r.
  - destruct (e_base (E a)) eqn:Hb.
    + rewrite sem_cons, ?sem_nil, ?sem_nil'. apply gmul_one_r.
    + rewrite scaled_nf_sem; [reflexivity|].
      apply canonical_items_ok. apply (es_canon E HS).
Qed.

Lemma iter_normalized_sem t : geq (sem (iter_normalized E t)) (sem t).
Proof.
  unfold iter_normalized. induction t as [|it t IH]; cbn [flat_map]; [reflexivity|].
  rewrite sem_app, IH, expand_item_sem. reflexivity.
Qed.

Theorem normalized_sem t : geq (sem (normalized E t)) (sem t).
Proof.
  unfold normalized. destruct (shortcut E t); [reflexivity|].
  destruct (items_pyeq E _ t); [reflexivity|].
  rewrite reduce_items_sem. apply iter_normalized_sem.
Qed.

End Reduce.
