(* Proofs/EffectsAtomic.v — every declaring method, as re-translated from the
   source into the effect language (Gen/EffectsImpl.v), passes the check
   [atomic]; with EffectsProofs.atomic_sound: none of them raises after its
   first write.  Compiled on every run for the properties that depend on
   "rejected declarations leave no trace" (C11, C15, C16, C17). *)
From Coq Require Import List Bool.
From QV Require Import Model.Effects Proofs.EffectsProofs Gen.EffectsImpl.
Import ListNotations.

Theorem declaring_methods_atomic : forallb atomic declaring_methods = true.
Proof. vm_compute. reflexivity. Qed.

Theorem declaring_methods_raise_before_they_write :
  forall p, In p declaring_methods -> forall w', ex_l p false Exc w' -> w' = false.
Proof.
  intros p H. apply atomic_sound. pose proof declaring_methods_atomic as A.
  rewrite forallb_forall in A. apply A, H.
Qed.
