(* C10 (money part): applying an exchange rate to a money amount.
   money * rate, rate * money -> Model.Rates.money_mul_rate;
   money / rate               -> Model.Rates.money_div_rate. *)
From Coq Require Import ZArith QArith Qabs List Bool Lia Lqa Qreduction.
From QV Require Import Model.Num Model.Rounding Gen.RoundingImpl Model.Quantity
     Model.Rates Proofs.RoundingQ Proofs.QuantityProofs Proofs.C13Proofs
     Proofs.C01Proofs Proofs.C05Proofs Proofs.C09Proofs.
Open Scope Q_scope.

(* [q] is the money amount [x] (exact) put into currency view [c]: the
   constructor's single rounding to the currency's smallest fraction under the
   default mode [dm] — the selected multiple IS the one the mode prescribes
   for x / fraction; consequently on the grid, error < one fraction, <= half
   a fraction under the HALF modes.  Without a smallest fraction: exact. *)
Definition rounded_once (dm : mode) (q : qty) (c : unit) (x : Q) : Prop :=
  q_unit q = c /\
  (u_quantum c = None -> q_amt q == x) /\
  (forall sf, u_quantum c = Some sf -> 0 < sf ->
     (exists n, q_amt q == inject_Z n * sf /\ RoundsToQ dm (x / sf) n) /\
     on_grid (q_amt q) sf /\
     Qabs (q_amt q - x) < sf /\
     (half_mode dm = true -> Qabs (q_amt q - x) <= (1 # 2) * sf)).

Lemma mk_qty_rounded_once dm x y c : x == y -> rounded_once dm (mk_qty dm x c) c y.
Proof.
  intros E. split; [apply mk_qty_unit|]. split.
  - intros H. rewrite (mk_qty_noquantum dm x c H). exact E.
  - intros sf H P.
    assert (N : ~ sf == 0) by (intros C; rewrite C in P; exact (Qlt_irrefl _ P)).
    rewrite (mk_qty_quantized dm x c sf H). cbn [q_amt].
    assert (R : round_to_quantum dm x sf == round_to_quantum dm y sf)
      by (apply round_to_quantum_compat; [exact E | reflexivity]).
    split.
    { destruct (round_to_quantum_spec dm y sf) as (n & Hr & Hn).
      exists n. split; [rewrite R; exact Hr | exact Hn]. }
    split; [apply round_to_quantum_is_on_grid|].
    rewrite R. split; [apply round_error_lt; exact P | apply round_error_half; exact P].
Qed.

Theorem money_mul dm cur m r :
  (u_id (q_unit m) = r_unit r ->
     exists q, money_mul_rate dm cur m r = Ok q /\
               rounded_once dm q (cur (r_term r)) (q_amt m * rate_of r)) /\
  (u_id (q_unit m) <> r_unit r -> money_mul_rate dm cur m r = Err EValueError).
Proof.
  unfold money_mul_rate. split; intros H.
  - apply N.eqb_eq in H. rewrite H. eexists. split; [reflexivity|].
    apply mk_qty_rounded_once. apply qmul_ok.
  - apply N.eqb_neq in H. rewrite H. reflexivity.
Qed.

Theorem money_div dm cur m r :
  (u_id (q_unit m) = r_term r ->
     exists q, money_div_rate dm cur m r = Ok q /\
               rounded_once dm q (cur (r_unit r)) (q_amt m * inverse_rate r)) /\
  (u_id (q_unit m) <> r_term r -> money_div_rate dm cur m r = Err EValueError).
Proof.
  unfold money_div_rate. split; intros H.
  - apply N.eqb_eq in H. rewrite H. eexists. split; [reflexivity|].
    apply mk_qty_rounded_once. apply qmul_ok.
  - apply N.eqb_neq in H. rewrite H. reflexivity.
Qed.

(* for a built rate the divisor form: amount * inverse_rate = amount / rate *)
Theorem money_div_built dm cur m r : built r -> u_id (q_unit m) = r_term r ->
  exists q, money_div_rate dm cur m r = Ok q /\
            rounded_once dm q (cur (r_unit r)) (q_amt m / rate_of r).
Proof.
  intros B H. unfold money_div_rate. apply N.eqb_eq in H. rewrite H.
  eexists. split; [reflexivity|]. apply mk_qty_rounded_once.
  rewrite qmul_ok, (inverse_is_reciprocal r B). reflexivity.
Qed.

(* non-vacuity: 10 EUR * (EUR->USD 1.25) = 12.50 USD; 1 JPY-like unit with
   fraction 1: 10 * 0.333333 -> 3 *)
Definition cur_ex (i : N) : unit :=
  mkUnit i 0%N false None (Some (if N.eqb i 3 then 1 else 1 # 100)).
Example money_mul_example :
  exists r, mk_rate MHEVEN 1%N 1 2%N (5 # 4) = Ok r /\
    money_mul_rate MHEVEN cur_ex (mkQty 10 (cur_ex 1)) r = Ok (mkQty (25 # 2) (cur_ex 2)) /\
    money_div_rate MHEVEN cur_ex (mkQty 10 (cur_ex 2)) r = Ok (mkQty 8 (cur_ex 1)) /\
    money_mul_rate MHEVEN cur_ex (mkQty 10 (cur_ex 2)) r = Err EValueError.
Proof. eexists. split; [vm_compute; reflexivity|]. vm_compute. repeat split. Qed.
