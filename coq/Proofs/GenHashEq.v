(* Proofs/GenHashEq.v — the hash keys GENERATED from Unit.__hash__,
   Quantity.__hash__ and ExchangeRate.__hash__ on every run (Gen/HashImpl.v)
   are the keys of Model/Hash.v that C19's theorems are about.  The code tests
   only `_equiv is None`; the model also asks for the type's reference unit.
   The two agree on every view in which a scale exists only in types with a
   reference unit — which is how units are made (make_unit; fix 452c543) and
   what ViewInv proves of every reachable directory. *)
From Coq Require Import ZArith QArith List Bool.
From QV Require Import Model.Num Model.Rounding Model.Quantity Model.Rates Model.Hash Gen.HashImpl.

Definition scale_needs_ref (u : unit) : Prop := u_scale u <> None -> u_has_ref u = true.

Theorem unit_hash_impl_eq u : scale_needs_ref u -> unit_hash_impl u = unit_hash u.
Proof.
  unfold scale_needs_ref, unit_hash_impl, unit_hash. intros H.
  destruct (u_scale u) as [s|]; [|reflexivity]. rewrite H by discriminate. reflexivity.
Qed.

Theorem qty_hash_impl_eq p : scale_needs_ref (q_unit p) -> qty_hash_impl p = qty_hash p.
Proof.
  unfold scale_needs_ref, qty_hash_impl, qty_hash. intros H.
  destruct (u_scale (q_unit p)) as [s|]; [|reflexivity]. rewrite H by discriminate. reflexivity.
Qed.

Theorem rate_hash_impl_eq r : rate_hash_impl r = rate_hash r.
Proof. reflexivity. Qed.
