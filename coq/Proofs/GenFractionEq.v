(* Proofs/GenFractionEq.v — the validation part of MoneyMeta.new_unit GENERATED from
   src/quantity/money/__init__.py on every run (Gen/FractionImpl.v,
   translate/fraction.py) is equal, for every kind and value of `minor_unit` and
   `smallest_fraction`, to `resolve_fraction` of Model/MoneyOps.v that the theorems
   of C08 are about. *)
From Coq Require Import ZArith QArith List Bool.
From QV Require Import Model.Num Model.Rounding Model.Quantity Model.MoneyOps Gen.FractionImpl.
Open Scope Z_scope.

Theorem resolve_fraction_impl_eq mu sf : resolve_fraction_impl mu sf = resolve_fraction mu sf.
Proof.
  unfold resolve_fraction_impl, resolve_fraction.
  destruct mu as [|z|], sf as [|v p|e]; try reflexivity.
  - destruct (qleb v 0); [reflexivity|].
    destruct ((Zpos (Qden (qdiv 1 v)) =? 1) && (1 <? Qnum (qdiv 1 v))); reflexivity.
  - destruct (z <? 0); [reflexivity|]. destruct (z =? p); reflexivity.
Qed.
