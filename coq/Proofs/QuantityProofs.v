(* Core lemmas about Model/Quantity.v used by several properties. *)
From Coq Require Import ZArith QArith Qabs List Bool Lia Lqa Qreduction.
From QV Require Import Model.Num Model.Rounding Gen.RoundingImpl Model.Quantity.
Open Scope Q_scope.

(* ---------- executable rational helpers mean what they say ------------- *)
Lemma qadd_ok a b : qadd a b == a + b. Proof. apply Qred_correct. Qed.
Lemma qsub_ok a b : qsub a b == a - b. Proof. apply Qred_correct. Qed.
Lemma qmul_ok a b : qmul a b == a * b. Proof. apply Qred_correct. Qed.
Lemma qdiv_ok a b : qdiv a b == a / b. Proof. apply Qred_correct. Qed.
Lemma qpow_ok a e : qpow a e == a ^ e. Proof. apply Qred_correct. Qed.
Lemma qeqb_iff a b : qeqb a b = true <-> a == b. Proof. apply Qeq_bool_iff. Qed.
Lemma qeqb_false a b : qeqb a b = false <-> ~ a == b.
Proof.
  split; intros H.
  - intros E. apply qeqb_iff in E. congruence.
  - destruct (qeqb a b) eqn:E; [|reflexivity]. apply qeqb_iff in E. contradiction.
Qed.
Lemma qzero_iff a : qzero a = true <-> a == 0.
Proof.
  unfold qzero, Qeq. simpl. rewrite Z.eqb_eq. lia.
Qed.
Lemma qzero_false a : qzero a = false <-> ~ a == 0.
Proof.
  split; intros H.
  - intros E. apply qzero_iff in E. congruence.
  - destruct (qzero a) eqn:E; [|reflexivity]. apply qzero_iff in E. contradiction.
Qed.
Lemma qltb_iff a b : qltb a b = true <-> a < b.
Proof. unfold qltb, Qlt. apply Z.ltb_lt. Qed.
Lemma qleb_iff a b : qleb a b = true <-> a <= b.
Proof. apply Qle_bool_iff. Qed.

Global Instance qeqb_compat : Proper (Qeq ==> Qeq ==> eq) qeqb.
Proof.
  intros a a' Ha b b' Hb. destruct (qeqb a b) eqn:E, (qeqb a' b') eqn:E'; try reflexivity.
  - apply qeqb_iff in E. apply qeqb_false in E'. exfalso. apply E'. rewrite <- Ha, <- Hb. exact E.
  - apply qeqb_iff in E'. apply qeqb_false in E. exfalso. apply E. rewrite Ha, Hb. exact E'.
Qed.

(* ---------- linear units ------------------------------------------------ *)
(* a unit of a type with reference unit, carrying a non-zero scale *)
Definition lin (u : unit) : bool :=
  u_has_ref u && match u_scale u with Some s => negb (qzero s) | None => false end.

Definition scale (u : unit) : Q := match u_scale u with Some s => s | None => 0 end.

Lemma lin_scale u : lin u = true -> u_has_ref u = true /\ u_scale u = Some (scale u) /\ ~ scale u == 0.
Proof.
  unfold lin, scale. destruct (u_has_ref u); simpl; [|discriminate].
  destruct (u_scale u) as [s|]; [|discriminate]. intros H.
  repeat split. apply qzero_false. destruct (qzero s); [discriminate|reflexivity].
Qed.

(* equiv_amount on linear units: exactly amount * scale(from) / scale(to) *)
Lemma equiv_amount_lin ce a u v :
  lin u = true -> lin v = true -> same_cls u v = true ->
  exists a', equiv_amount ce (mkQty a u) v = Ok (Some a') /\
             a' == a * (scale u / scale v).
Proof.
  intros Hu Hv Hc.
  destruct (lin_scale u Hu) as (Ru & Su & Nu), (lin_scale v Hv) as (Rv & Sv & Nv).
  unfold equiv_amount, unit_eq, get_factor. simpl. rewrite Hc, Su, Sv, Ru. simpl.
  destruct (qeqb (scale u) (scale v)) eqn:E.
  - exists a. split; [reflexivity|]. apply qeqb_iff in E. rewrite E. field. exact Nv.
  - eexists. split; [reflexivity|]. rewrite qmul_ok, qdiv_ok. field. exact Nv.
Qed.

Lemma equiv_amount_other_cls ce q v :
  same_cls (q_unit q) v = false -> equiv_amount ce q v = Err EIncompatibleUnits.
Proof.
  intros H. unfold equiv_amount, unit_eq, get_factor. rewrite H. reflexivity.
Qed.

(* mk_qty keeps the unit; without a quantum it keeps the amount *)
Lemma mk_qty_unit dm a u : q_unit (mk_qty dm a u) = u.
Proof. unfold mk_qty. destruct (u_quantum u); reflexivity. Qed.

Lemma mk_qty_noquantum dm a u : u_quantum u = None -> q_amt (mk_qty dm a u) == a.
Proof. intros H. unfold mk_qty. rewrite H. simpl. apply Qred_correct. Qed.
