(* Proofs/C19Proofs.v — objects that compare equal hash equal (on the hash
   keys of Model/Hash.v). *)
From Coq Require Import ZArith QArith Qabs List Bool Lia Lqa.
From QV Require Import Model.Num Model.Rounding Model.Quantity Model.Rates Model.Hash
     Proofs.QuantityProofs.
Open Scope Z_scope.

(* views as every directory produces them: a scale exists only relative to a
   reference unit, identity determines the view *)
Definition view_ok (u : unit) : Prop := u_has_ref u = false -> u_scale u = None.
Definition id_determines (u v : unit) : Prop := u_id u = u_id v -> u = v.

Lemma andb3 a b c : a && b && c = true -> a = true /\ b = true /\ c = true.
Proof. intros H. apply andb_true_iff in H. destruct H as [H ?]. apply andb_true_iff in H. tauto. Qed.

(* units: equal units have equivalent hash keys *)
Theorem unit_eq_hash u v :
  view_ok u -> view_ok v -> unit_eq u v = Ok true -> hk_eqb (unit_hash u) (unit_hash v) = true.
Proof.
  intros Vu Vv. unfold unit_eq, unit_hash, same_cls, same_unit, view_ok in *.
  destruct (N.eqb (u_cls u) (u_cls v)) eqn:Ec; [|discriminate].
  destruct (u_scale u) as [a|] eqn:Su, (u_scale v) as [b|] eqn:Sv; try discriminate.
  - intros H. injection H as H.
    destruct (u_has_ref u) eqn:Ru; [|specialize (Vu eq_refl); discriminate].
    destruct (u_has_ref v) eqn:Rv; [|specialize (Vv eq_refl); discriminate].
    cbn. rewrite Ec, H. reflexivity.
  - intros H. injection H as H. destruct (u_has_ref u), (u_has_ref v); cbn; exact H.
Qed.

(* quantities without any converter: equal quantities have equivalent keys *)
Theorem qty_eq_hash ce p q :
  view_ok (q_unit p) -> view_ok (q_unit q) ->
  id_determines (q_unit p) (q_unit q) ->
  (forall s, u_scale (q_unit p) = Some s -> ~ s == 0) ->
  ce (u_cls (q_unit q)) = [] ->
  qty_eq ce p q = Ok true -> hk_eqb (qty_hash p) (qty_hash q) = true.
Proof.
  destruct p as [a u], q as [b v]. cbn [q_unit q_amt]. intros Vu Vv ID NZ CE.
  unfold qty_eq, qty_hash, same_cls, same_unit. cbn [q_unit q_amt].
  destruct (N.eqb (u_cls u) (u_cls v)) eqn:Ec; [|discriminate].
  destruct (N.eqb (u_id u) (u_id v)) eqn:Ei.
  - (* the identical unit *)
    intros H. injection H as H. apply N.eqb_eq in Ei. rewrite <- (ID Ei).
    destruct (u_scale u) as [s|], (u_has_ref u); cbn [hk_eqb]; rewrite ?N.eqb_refl, ?andb_true_r;
      cbn [andb]; try exact H.
    apply qeqb_iff in H. apply qeqb_iff. rewrite !qmul_ok, H. reflexivity.
  - unfold equiv_amount, unit_eq, get_factor, same_cls. cbn [q_unit q_amt].
    rewrite (N.eqb_sym (u_cls v) (u_cls u)), Ec.
    unfold view_ok in *.
    destruct (u_scale v) as [sv|] eqn:Sv, (u_scale u) as [su|] eqn:Su; cbn [bind]; try discriminate.
    + (* both scaled *)
      destruct (u_has_ref u) eqn:Ru; [|specialize (Vu eq_refl); discriminate].
      destruct (u_has_ref v) eqn:Rv; [|specialize (Vv eq_refl); discriminate].
      destruct (qeqb sv su) eqn:Es; cbn [bind].
      * intros H. injection H as H. cbn [hk_eqb]. rewrite Ec. cbn [andb]. apply qeqb_iff in H, Es. apply qeqb_iff.
        rewrite !qmul_ok, H, Es. reflexivity.
      * intros H. injection H as H. cbn [hk_eqb]. rewrite Ec. cbn [andb]. apply qeqb_iff in H. apply qeqb_iff.
        rewrite !qmul_ok, H, qmul_ok, qdiv_ok.
        field. apply NZ. reflexivity.
    + (* no scales: only converters could relate them, and there are none *)
      unfold same_unit. destruct (N.eqb (u_id v) (u_id u)) eqn:Ei'; cbn [bind].
      * apply N.eqb_eq in Ei'. rewrite Ei', N.eqb_refl in Ei. discriminate.
      * destruct (u_has_ref v); rewrite ?CE; cbn; discriminate.
Qed.

(* exchange rates: == is equality of quotations, the hash is taken of the quotation *)
Theorem rate_eq_hash a b : rate_eqb a b = true -> hk_eqb (rate_hash a) (rate_hash b) = true.
Proof. unfold rate_eqb, rate_hash. cbn [hk_eqb]. auto. Qed.

(* with a converter the statement is false: 0 degC == 32 degF but the keys differ *)
Definition ex_c := mkUnit 1 9 false None None.
Definition ex_f := mkUnit 2 9 false None None.
Definition ex_tab : table := [((1%N, 2%N), (9 # 5, 32 # 1))].
Theorem converter_equal_hash_refuted :
  exists ce p q, qty_eq ce p q = Ok true /\ hk_eqb (qty_hash p) (qty_hash q) = false.
Proof.
  exists (fun _ => [ex_tab]), (mkQty (32 # 1) ex_f), (mkQty 0 ex_c). vm_compute. split; reflexivity.
Qed.
