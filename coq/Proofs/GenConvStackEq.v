(* Proofs/GenConvStackEq.v — converter registration GENERATED from the source
   on every run (Gen/ConvStackImpl.v) equals the functions of Model/ConvStack.v
   that the theorems of C12 are about, for every stack and every converter. *)
From Coq Require Import ZArith QArith List Bool.
From QV Require Import Model.Num Model.Rounding Model.Quantity Model.ConvStack Gen.ConvStackImpl.
Import ListNotations.
Open Scope Z_scope.

Theorem money_register_impl_eq ismc s c : money_register_impl ismc s c = money_register ismc s c.
Proof. unfold money_register_impl, money_register. destruct (ismc c); reflexivity. Qed.

Theorem money_remove_impl_eq s c : money_remove_impl s c = money_remove s c.
Proof.
  unfold money_remove_impl, money_remove. destruct (last_opt s) as [t|] eqn:L; [|reflexivity].
  destruct (N.eqb t c); reflexivity.
Qed.

Theorem gen_register_impl_eq s c : gen_register_impl s c = gen_register s c.
Proof. unfold gen_register_impl, gen_register. destruct (mem c s); reflexivity. Qed.

Theorem gen_remove_impl_eq s c : gen_remove_impl s c = gen_remove s c.
Proof. unfold gen_remove_impl, gen_remove. destruct (mem c s); reflexivity. Qed.

Theorem listing_impl_eq s : listing_impl s = listing s.
Proof. reflexivity. Qed.
